#!/bin/bash
# Builds the harness once, offline, from files on disk (warms the Go build cache).
set -e
cd "$(dirname "$0")"
export GOFLAGS=-mod=mod GOPROXY=off GOSUMDB=off GOTOOLCHAIN=local
mkdir -p bin .scratch evidence replays
cd harness
cp /repo/go.sum go.sum
go build -tags verif -o ../bin/verifd.setup . 
rm -f ../bin/verifd.setup
# the race-detector build used by the race lanes (warms the cache of race-instrumented packages)
go build -tags verif -race -o ../bin/verifd-race.setup . && rm -f ../bin/verifd-race.setup
echo "setup ok"
