#!/usr/bin/env python3
"""Regenerates /verif/MANIFEST.json from the table below (kept in one place so the
manifest is always valid and complete)."""
import json, subprocess, os
V = os.path.dirname(os.path.dirname(os.path.abspath(__file__)))
props = [json.loads(l)["id"] for l in open(os.path.join(V, "properties.jsonl"))]

# id -> (category, technique, text, note, design_ref)
claimed = {
 "C02": ("fault_enumeration", "self-differential monitoring over crash images: data-directory images taken at failpoints between the file operations of every logged write (plus torn and power-loss images derived from them) are restored into fresh instances and compared with dumps recorded from the live instance",
         "For seeded write workloads over all six value types, databases {0,1,3,12}, TCP and embedded callers and the three sync policies: an image at EVERY hit of EVERY failpoint of the write path and after every acknowledgement; from each record-write image the log cut at every byte offset of the record (torn), and from each acknowledgement image the log cut back to its last fsync (power loss); each image is restored and its whole canonical dump must be the recorded prefix state the statement allows; recovered directories are written to again, stopped cleanly and restarted (durable-again histories).",
         "Process death is modelled by a directory image taken inside the failpoint (what another process can read at that instant is what SIGKILL leaves); power loss by cutting the log back to the size at the last fsync; device-level reordering inside a synced region is out of reach. The oracle is self-differential (dump vs dump) and does not depend on any command's semantics. Commands matching listed findings C02-KF1/KF2 are excluded from workloads and replayed by a witness lane.",
         "DESIGN.md §3 C02"),
 "C10": ("fault_enumeration", "self-differential monitoring over crash images of a snapshot (failpoint images + torn files restored and compared with the dumps at the previous and the new snapshot) plus a system-call-order monitor (strace) on real snapshots",
         "For seeded histories with 0-3 earlier snapshots and datasets of all value types: an image at every failpoint between the file-system operations of a snapshot, and from each image every file that was being written cut at byte offsets; each is restored with snapshot restore and its whole dump and LASTSAVE must be exactly the previous or the new snapshot, never a failed start-up. Real failing attempts (state file path is a directory) and nothing-new attempts must leave files and LASTSAVE untouched. A child process taking real snapshots is traced with strace: state.bin and the temporary manifest must be fsynced before the rename that makes the manifest visible.",
         "Process death is modelled by a directory image at the failpoint; the fsync-before-rename order is observed on real system calls; directory-entry durability (no directory fsync) and device reordering are out of reach.",
         "DESIGN.md §3 C10"),
 "C14": ("exploration", "lock-step differential monitoring of the hash handlers against an executable reference field-to-value map (replies + whole-store dump after every step)",
         "Every sequence of depth <=2 (thorough: <=3 on a reduced alphabet) over a 64-command alphabet of the 14 hash commands from 8 initial states (absent, hashes, wrong-typed keys, keys with deadlines), plus seeded random programs with numeric, empty, binary and 10 KB values, negative HRANDFIELD counts, duplicate fields and wrong arity; replies must be allowed by the reference map and the dump must equal it after every step; randomised selections are checked by predicate and followed.",
         "Trusts the verif-tagged dump, the virtual clock and the reference model (set-valued where statement and docs are silent, e.g. HSET reply count, reply shape of single-field HGET). HSET values matching listed finding C14-KF1 (numeric re-typing) are filtered and replayed by a witness.",
         "DESIGN.md §3 C14-C17"),
 "C15": ("exploration", "lock-step differential monitoring of the list handlers against an executable reference sequence (replies + whole-store dump after every step)",
         "Every sequence of depth <=2 (thorough: <=3 on a reduced alphabet) over a 115-command alphabet of the 13 list commands from 11 initial states (lists with adjacent duplicates, single-element and emptied lists, lists with deadlines, wrong-typed keys), plus broad and dense seeded random programs (indices -8..8, counts, binary and 10 KB elements, clock advances); replies must be allowed by the reference sequence and the dump must equal it after every step.",
         "Trusts the verif-tagged dump, the virtual clock and the reference model (set-valued where statement and docs are silent: multi-element push order, LMOVE reply, LPUSHX on absent key).",
         "DESIGN.md §3 C14-C17"),
 "C03": ("exploration", "self-differential monitoring of snapshot round trips (dump at the snapshot instant vs dump of a fresh instance restored from the directory) plus a tick-counting monitor on the automatic trigger",
         "Seeded write histories over all value types, databases {0,1,3,12} and relative/absolute deadlines; snapshot by the synchronous engine call and by the asynchronous SAVE command (completion observed through the snap.end hook); further writes; restore into a fresh instance after clock moves of 0 ms ... 100 min; the whole canonical dump must equal the dump at the snapshot instant minus keys whose deadline passed, LASTSAVE must equal the snapshot time, over up to three snapshot/restart generations. Automatic trigger: thresholds {1,5,50} x {N, N+1, 2N+3} writes with a 25 ms ticker; the verdict is on ticker fires observed through a hook (>=4 fires and no snapshot = violation), never on elapsed time.",
         "Trusts the verif-tagged dump and virtual clock; the automatic-trigger lane uses a real ticker with a 20 s watchdog whose firing is inconclusive. Snapshots under concurrent writers are exercised by the C05 stress lane, not here.",
         "DESIGN.md §3 C03"),
 "C09": ("fault_enumeration", "self-differential monitoring over crash images of log rewrites (failpoint images, torn preamble / torn log header, parked-rewrite x writer interleavings) restored and compared with dumps recorded after each acknowledged command",
         "Seeded write workloads (all value types, databases, TCP and embedded callers, three sync policies) with REWRITEAOF at every position of short workloads, at random positions of long ones, first on a fresh log and twice in a row; an image at every hit of every failpoint of the rewrite (state copy, preamble truncate/write/sync, log truncate/header/sync) and of the write path; the preamble cut at byte offsets and the freshly truncated log header cut at every byte; each image restored and compared with the prefix state the statement allows; recovered directories written to, stopped and restarted again. Concurrent lane: the rewrite is parked at each of its failpoints while a non-idempotent writer runs to acknowledgement; after a restart the dataset must contain the write exactly once.",
         "Process death = directory image at the failpoint. Three genuine defects are listed (C09-KF1 in-place preamble, C09-KF2 non-atomic preamble/log switch, C09-KF3 writes during the rewrite window); images inside exactly those windows that fail in exactly that way are attributed to them, everything else is reported.",
         "DESIGN.md §3 C09"),
 "C16": ("exploration", "lock-step differential monitoring of the set handlers against executable reference finite sets (replies + whole-store dump after every step), with a destination-mutation lane for aliasing",
         "Every sequence of depth <=2 (thorough: <=3 on a reduced alphabet) over an 80-command alphabet of the 16 set commands from 9 initial states, an expired-operands lane, seeded random programs (duplicates, 1..n operands, repeated and missing keys, destination equal to a source, counts/limits at the boundaries), and an alias lane that follows every ...STORE / SMOVE with a mutation of the destination so that shared structure shows up in the whole-store dump.",
         "Trusts the verif-tagged dump, virtual clock and reference model (set-valued where silent). SDIFF/SDIFFSTORE with an absent base key is listed finding C16-KF1 (pinned by the unit tests) and filtered.",
         "DESIGN.md §3 C14-C17"),
 "C04": ("exploration", "lock-step differential monitoring against a reference model with deadlines under a virtual clock (time-line programs with clock moves around deadlines and sampler rounds) plus an invariant assertion at the sampler's eviction hook",
         "Every time-line of depth <=2 (thorough: <=3) over a 58-step alphabet (writes with deadlines, EXPIRE/PEXPIRE/EXPIREAT/PEXPIREAT with NX/XX/GT/LT, PERSIST, GETEX, TTL/PTTL/EXPIRETIME/PEXPIRETIME, readers and existence-conditional writers of every value type, clock moves to 1 ms before / exactly at / 1 ms after deadlines, synchronous sampler rounds) from 5 initial states including expired-but-present keys; seeded random time-lines over all commands of all types under every eviction policy name and sample sizes 1/2/20, with and without sampler rounds; a free-running lane with the real background sampler (5 ms ticker) where every eviction event is asserted at the hook (deadline < clock used) and live keys are checked against the model.",
         "Trusts the injected virtual clock (all expiry logic reads it), the verif-tagged dump and the reference model. Expired keys are unobservable in the canonical dump on both sides, so only observable behaviour is compared.",
         "DESIGN.md §3 C04"),
 "C13": ("exploration", "dump-equality monitor: the side-effect-free dump of every database before and after each read-only or failing command must be equal; destination-mutation lane for aliasing",
         "Every alphabet command of every data type on every initial state of every data type (about 20k one-step programs), plus seeded random programs over all commands with malformed arity, wrong-typed and expired-but-present keys and clock moves; every executed command that is classified read-only by the server's own command table (or is a destination-less algebra command named by the statement) or that fails must leave the whole canonical dump unchanged; after every STORE-form / LMOVE / SMOVE / RENAME the destination is mutated and every other key must stay unchanged.",
         "No reference model: the oracle is dump equality. Classification is taken from the command table of the build under test.",
         "DESIGN.md §3 C13"),
 "C17": ("exploration", "lock-step differential monitoring of the sorted-set handlers against an executable reference scored map (replies + whole-store dump after every step), with a destination-mutation lane for aliasing",
         "Every sequence of depth <=2 (thorough: <=3 on a reduced alphabet) over an alphabet of the 25 sorted-set commands from several initial states, aliasing lanes for the STORE forms, and seeded random programs over negative/fractional/infinite/equal scores, all ZADD flag combinations, score and lexicographic bounds, LIMIT windows, weights, aggregates, 1..n operands and wrong-typed keys; scores are small dyadic rationals so that sums are exact.",
         "Trusts the verif-tagged dump, virtual clock and reference model (set-valued where statement and docs are silent). Four defects pinned by the unit tests are listed (C17-KF1..KF4) and filtered with narrow predicates.",
         "DESIGN.md §3 C14-C17"),
 "C19": ("exploration", "conservation monitor: at every quiescent point of random command histories the reported MemoryUsed must equal the sum of the server's own per-key size function over the keys currently stored",
         "Seeded random histories over all commands of all value types in databases 0/1 with overwrites, in-place growth and shrinking of collections, deletes, expiry through virtual-clock moves and sampler rounds, FLUSHDB/FLUSHALL and renames; after every step (thorough: every third) the asynchronous cache goroutines are awaited through the async hooks and the figure is compared with the accounted size; zero after FLUSHALL; equality again after snapshot and AOF restores.",
         "The per-key size function (KeyData.GetMem + key overhead) is taken as the definition of accounted size; only its agreement with the running counter is checked.",
         "DESIGN.md §3 C19"),
 "C20": ("exploration", "lock-step differential monitoring with three TCP connections and the embedded caller against a family of per-database reference maps and a per-connection selected index, plus a non-interference monitor on per-database bookkeeping",
         "Seeded histories of data commands of all types, SELECT, SWAPDB, FLUSHDB, FLUSHALL over databases drawn from {0,1,2,9,10,11,123}; after every step the dump of every database must equal the reference (nothing changed in a database that was not selected), the volatile-key index and LRU/LFU heaps of the other databases must be unchanged, SELECT must affect only the issuing connection and SWAPDB every TCP connection; persistence legs write multi-database datasets through TCP and embedded callers and compare whole dumps after an AOF restart and a snapshot restore.",
         "SWAPDB is checked for TCP connections existing when it is issued (SugarDB documents that the embedded caller is not swapped). The replication leg is C07's. Steps matching listed findings of the data-type models are filtered.",
         "DESIGN.md §3 C20"),
 "C05": ("exploration", "same-build serial oracle over hook-controlled interleavings (command A parked at each of its keyspace steps while command B runs) + free-running multi-client stress under the Go race detector checked by porcupine linearizability, conservation counts and restart/snapshot-cut comparisons",
         "Interleaving lane: every ordered pair of ~70 command instances (every write family and the readers observing it) with overlapping keys, A parked by the hook handler at each keyspace step k, B started meanwhile; replies and final whole-store dump must equal serial A;B or B;A computed on the same build (quick: a seed-dependent third of the pairs). Stress lane on a -race build: 8-12 clients (TCP and embedded) with unique values on shared counters, lists, sets, sorted sets, registers and multi-key pairs while SAVE, REWRITEAOF, the background expiry sampler and clock moves run; INCR/HINCRBY replies must be a gap-free set and match the final value, every inserted element must be removed exactly once or present exactly once, MGET must never see half an MSET, the register/counter history must be linearizable (porcupine), the AOF replay must equal the final dataset (log order = execution order) and a snapshot taken under writers must be a per-writer prefix; any process death, hang or race report in repository code is a violation.",
         "Interleavings inside a single keyspace call are not enumerated (race detector covers the executions the stress produces); triples are not enumerated. 'B blocked' observations only steer the schedule. A watchdog firing is inconclusive except a stress process that makes no progress for 10 minutes.",
         "DESIGN.md §3 C05"),
 "C18": ("exploration", "offline interval-logic checker over client-boundary pub/sub histories recorded on one logical clock, against a reference subscription table, closed by a drain marker per channel",
         "Seeded histories over 2-4 TCP subscriber connections, 1-3 publishers (TCP and embedded), 4 channels and the patterns a*, ?b, *: SUBSCRIBE/PSUBSCRIBE with running-count confirmations, UNSUBSCRIBE/PUNSUBSCRIBE by name and all, single publishes and parallel bursts of 50-500 publishes, PUBSUB CHANNELS/NUMSUB/NUMPAT at quiescent points; every frame a subscriber connection receives is strict-parsed and timestamped; the checker requires: no message without a matching subscription alive during its publish, at most once per (message, connection, subscription), every message published after a confirmed and never withdrawn subscription is received (decided after the drain marker of the same channel has arrived), publish order per (publisher, channel, subscription), exact confirmation sets and counts, introspection equal to the reference table.",
         "Subscriptions overlapping a publish in time may or may not receive it; PUNSUBSCRIBE is allowed to withdraw subscriptions whose name matches the given glob (SugarDB documents 'unsubscribe using patterns'); the UNSUBSCRIBE reply is accepted in SugarDB's nested-array form pinned by the unit tests; a drain watchdog firing is inconclusive. Embedded subscribers (net.Pipe based API) are not exercised.",
         "DESIGN.md §3 C18"),
 "C06": ("exploration", "differential monitoring of the real authorization gate (over TCP) against a declarative evaluator written from the documentation, with an independent key/channel table; dataset, ACL listing and pub/sub state observed around every denied command",
         "Every registered command and subcommand, instantiated from the harness's own key table with every assignment of permitted / forbidden keys and channels to its key positions (about 1100 instances), is sent by a connection as a user with each rule set of a small universe (on/off x 5 key-rule sets x 4 category-rule sets x 3 channel-rule sets, plus per command: only this command, everything but this command, everything but its parent, own categories minus one) and in each authentication state (fresh, failed AUTH, authenticated, authenticated then disabled / restricted / deleted). Whenever the evaluator says the documented rules certainly deny the command, the reply must be an error and the whole-store dump and ACL LIST must be unchanged.",
         "The server runs with RequirePass. Only the 'gate allows what the policy denies' direction is a violation; over-restriction is counted. Rule sets are written in documented, unambiguous spellings. A denied command that the gate wrongly lets through but that then fails for another reason with no effect is not observable.",
         "DESIGN.md §3 C06, Appendix C"),
 "C11": ("exploration", "lock-step monitoring of AUTH/HELLO outcomes and per-connection identity probes against a reference user table over histories of rule edits, saves, loads and restarts",
         "Seeded histories over three connections and the users default/u1/u2: ACL SETUSER with on/off, >p <p #h !h nopass resetpass, ACL DELUSER (including default and absent users), AUTH with one and two arguments and HELLO ... AUTH with right, wrong, hash-form and other users' passwords, reconnects, ACL SAVE, ACL LOAD MERGE|REPLACE, restart on the saved .json/.yaml/.yml file, with and without RequirePass; after every step every connection is probed (ACL WHOAMI and a GET): it must act as exactly the user the reference says, or be refused.",
         "Probe users have maximally permissive rules so that a probe fails exactly when the connection is unauthenticated or its user is disabled or deleted. Rule equality after SAVE/LOAD/restart is behavioural (same AUTH and probe outcomes).",
         "DESIGN.md §3 C11"),
 "C12": ("exploration", "black-box protocol fuzzing of a real listener with a strict independent RESP2/RESP3 parser and a sentinel (ECHO id) discipline that matches reply i to command i; liveness probe on a second connection after every stream",
         "For every registered command and subcommand: argument vectors of arity 0..6 drawn from hostile bytes (empty, huge/negative integers, CR LF, NUL, RESP type bytes, option keywords, 9 KB, 70 KB), each followed by a unique ECHO sentinel: exactly one well-formed reply before the sentinel (one per channel for the subscribe family). Pipelines of 2-26 commands written in 1, 2 or 3 TCP segments cut at random offsets, in RESP2 and after HELLO 3, with payloads (CR LF NUL, RESP-looking bytes, 9 KB, 70 KB, empty) stored and read back inside the same stream and compared byte for byte; truncated, corrupted, inline, nested, non-array, oversized-length and exactly-8192-byte frames after which a new connection must still get PONG; 32 connections pipelining at once; typed embedded API results compared with the decoded wire reply of the same command.",
         "Well-formedness is decided by the harness's own strict parser. After a malformed frame the server may close that connection. Payloads that the numeric value typing rewrites (listed finding C01-KF1) are not used for the byte-for-byte comparison.",
         "DESIGN.md §3 C12"),
 "C01": ("exploration", "lock-step differential monitoring of the real handlers against an executable reference typed map (replies + whole-store dump after every step)",
         "Every sequence of depth <=2 (thorough: <=3) over an 80-command alphabet from 8 initial states, plus seeded random programs of 40-80 steps over binary/numeric/huge values, run on fresh instances; each step's strict-parsed reply must be allowed by the reference model and the side-effect-free dump of the store must equal the model state. Held on what was explored, not a proof.",
         "Trusts the verif-tagged dump (reads the store under its own lock), the injected virtual clock, and the reference model in harness/model (set-valued where statement and docs are silent). Inputs matching a listed known finding are filtered out of exploration and replayed by a witness lane.",
         "DESIGN.md §3 C01"),
}
not_built_reason = "check not built yet in this session; see DESIGN.md for the design"
na = {}

hook_commits = subprocess.run(["git", "-C", "/repo", "log", "--format=%h %s", "--grep=^verif hooks"], capture_output=True, text=True).stdout.strip().splitlines()

m = {
 "version": 1,
 "setup_cmd": "./setup.sh",
 "hooks": {
  "guard": "verif",
  "enable": "go build -tags verif (the harness module in /verif/harness replaces github.com/echovault/sugardb => /repo and is rebuilt from /repo's working tree by ./check on every run)",
  "baseline_off_cmd": "./tools/baseline_off.sh",
  "source_commits": [c.split()[0] for c in hook_commits],
  "add_only": True,
 },
 "engines": [
  {"name": "verifd", "path": "harness", "serves_properties": sorted(claimed), "kind_free_text": "Go runtime-monitoring harness: drives the real code (embedded API, TCP, persistence engines) under generated/hostile workloads with a virtual clock and hook handler; oracles are reference models, self-differential dumps, history checkers (porcupine) and the Go race detector"},
 ],
 "checks": [],
 "notes": "Every check: ./check <id> <tier> rebuilds the harness against /repo's current working tree with -tags verif, runs it, writes evidence/<id>.json. Exit 0 held / 1 VIOLATION / 2 broken check. Listed findings are in known_findings.json.",
 "not_applicable": [],
}
for p in props:
    if p in claimed:
        cat, tech, text, note, ref = claimed[p]
        m["checks"].append({
            "property_id": p,
            "quick_cmd": "./check %s quick" % p,
            "thorough_cmd": "./check %s thorough" % p,
            "evidence_file": "evidence/%s.json" % p,
            "replay_cmd_template": "./replay {path}",
            "engine": "verifd",
            "level_claimed": {"category": cat, "text": text, "design_ref": ref},
            "level_note": note,
            "technique": tech,
        })
    else:
        m["not_applicable"].append({"property_id": p, "reason": na.get(p, not_built_reason)})
json.dump(m, open(os.path.join(V, "MANIFEST.json"), "w"), indent=1)
print("claimed:", sorted(claimed), "not claimed:", len(m["not_applicable"]))
