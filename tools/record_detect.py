#!/usr/bin/env python3
"""Stores the outcome of tools/detect_all.sh (/tmp/detect/<id>.txt) in seeded/<id>/meta.json as 'last_run'."""
import json,os,glob,re,subprocess
head=subprocess.check_output(['git','-C','/repo','log','--format=%h','-1']).decode().strip()
n=0; missed=[]
for f in sorted(glob.glob('/tmp/detect/C*.txt')):
    sid=os.path.basename(f)[:-4]
    mp='/verif/seeded/%s/meta.json'%sid
    if not os.path.exists(mp): continue
    txt=open(f,errors='replace').read().strip().splitlines()
    verdict=txt[-1] if txt else ''
    vio=[l.strip() for l in txt if l.strip().startswith('lane=')]
    d=json.load(open(mp))
    d['last_run']={'repo_head':head,'verdict':verdict,'violation':(vio[0][:400] if vio else '')}
    json.dump(d,open(mp,'w'),indent=1,ensure_ascii=False)
    n+=1
    if not verdict.startswith('DETECTED'): missed.append((sid,verdict))
print('recorded',n,'not detected:',missed)
