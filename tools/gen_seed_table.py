#!/usr/bin/env python3
"""Regenerates the seeded-change table of DESIGN.md from /verif/seeded/*/meta.json."""
import json, glob, re, os
root = os.path.dirname(os.path.dirname(os.path.abspath(__file__)))
rows = []
for d in sorted(glob.glob(os.path.join(root, "seeded", "*", ""))):
    name = os.path.basename(d.rstrip("/"))
    m = json.load(open(os.path.join(d, "meta.json")))
    s = m.get("summary", "").replace("\n", " ").replace("|", "/")
    cut = s[:260]
    k = cut.rfind(". ")
    if k > 120:
        cut = cut[:k + 1]
    elif len(s) > 260:
        cut += "…"
    det = re.sub(r"\s*\(tools/try_seed.sh.*?\)", "", m.get("detected_by", "")).replace("|", "/")
    lr = m.get("last_run", {})
    last = "-"
    if lr:
        v = lr.get("verdict", "")
        mm = re.search(r"lane=(\S+(?: \(race build\))?) kind=(\S+)", lr.get("violation", ""))
        last = ("detected" if v.startswith("DETECTED") else "NOT detected") + (f" ({mm.group(1)} / {mm.group(2)})" if mm else "")
    rows.append(f"| {name} | {cut} | {det} | {last} |")
table = "| seeded change | what it does | caught by | final pass against the final checks (lane / kind of the first violation) |\n|---|---|---|---|\n" + "\n".join(rows) + "\n"
p = os.path.join(root, "DESIGN.md")
s = open(p).read()
s = re.sub(r"<!-- SEED-TABLE-BEGIN -->.*?<!-- SEED-TABLE-END -->", "<!-- SEED-TABLE-BEGIN -->\n" + table + "<!-- SEED-TABLE-END -->", s, flags=re.S)
open(p, "w").write(s)
print(len(rows), "rows")
