#!/bin/bash
# usage: seed_store.sh <suffix> <prop> <m-dir-name> "<detected_by text>"
# copies /tmp/seed<suffix>-<prop>/out/<m> to /verif/seeded/<prop>-m<next> and completes its meta.json
SUF=$1; PROP=$2; M=$3; DET=$4
SRC=/tmp/seed$SUF-$PROP/out/$M
N=1; while [ -d /verif/seeded/$PROP-m$N ]; do N=$((N+1)); done
DST=/verif/seeded/$PROP-m$N
mkdir -p $DST; cp $SRC/* $DST/
python3 - "$DST/meta.json" "$DET" <<'PY'
import json,sys
p,det=sys.argv[1],sys.argv[2]
d=json.load(open(p))
if 'verified' in d: d['author_verified']=d.pop('verified')
d['confirmed']='tools/validate_seed.sh: in a scratch worktree of /repo HEAD the demonstration passes without the patch; with the patch the tree builds, the demonstration fails and the baseline suite (1439 stable tests) passes'
d['detected_by']=det
json.dump(d,open(p,'w'),indent=1,ensure_ascii=False)
PY
echo stored $DST
