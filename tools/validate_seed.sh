#!/bin/bash
# usage: validate_seed.sh <dir with patch.diff demo_test.go meta.json>
# Confirms in a scratch worktree of /repo HEAD: demo passes without the patch; with the patch the tree
# builds, the demo fails and the baseline suite still passes. Prints VALID or INVALID <why>.
export GOFLAGS=-mod=mod GOPROXY=off GOSUMDB=off GOTOOLCHAIN=local
D=$(realpath "$1")
WT=/tmp/valseed.$$
git -C /repo worktree add -q --detach $WT HEAD || exit 2
cleanup() { git -C /repo worktree remove --force $WT >/dev/null 2>&1; rm -rf $WT; }
trap cleanup EXIT
DEMO_PATH=$(python3 -c "
import json,re
p=json.load(open('$D/meta.json')).get('demo_path','sugardb/zz_demo_test.go')
m=re.search(r'([A-Za-z0-9_./-]+_test\.go)',p)
print(m.group(1) if m else 'sugardb/zz_demo_test.go')")
DEMO_CMD=$(python3 -c "import json;print(json.load(open('$D/meta.json')).get('demo_cmd',''))")
DEMO_SRC=$D/demo_test.go; [ -f "$DEMO_SRC" ] || DEMO_SRC=$(ls $D/demo*_test.go $D/demo*.go 2>/dev/null | head -1)
[ -z "$DEMO_SRC" ] && { echo "INVALID no demo file"; exit 1; }
case "$DEMO_PATH" in /*) DEMO_PATH=${DEMO_PATH#*/repo/};; esac
mkdir -p "$WT/$(dirname $DEMO_PATH)"; cp "$DEMO_SRC" "$WT/$DEMO_PATH"
PKG=./$(dirname $DEMO_PATH)
TESTS=$(grep -ho 'func Test[A-Za-z0-9_]*' "$DEMO_SRC" | sed 's/func //' | paste -sd'|')
TAGS=""; grep -q '^//go:build verif' "$DEMO_SRC" && TAGS="-tags verif"   # a demonstration may use the hook points
run_demo() { ( cd $WT && timeout 600 go test $TAGS -vet=off -count=1 -run "^($TESTS)\$" $PKG 2>&1 | tail -30 ); }
OUT0=$(run_demo); echo "$OUT0" | grep -q "^ok" || { echo "INVALID demo does not pass without the patch"; echo "$OUT0" | tail -15; exit 1; }
( cd $WT && git apply "$D/patch.diff" ) || { echo "INVALID patch does not apply to current HEAD"; exit 1; }
( cd $WT && go build ./sugardb/... ./internal/aof/... ./internal/modules/... ./internal/snapshot/... ./internal/raft/... ./internal/eviction/... ./cmd/... ) || { echo "INVALID does not build"; exit 1; }
OUT1=$(run_demo); echo "$OUT1" | grep -q "^ok" && { echo "INVALID demo passes with the patch"; exit 1; }
rm -f "$WT/$DEMO_PATH"
if VERIF_REPO=$WT /verif/tools/baseline_off.sh >/tmp/valseed.$$.suite 2>&1; then echo "VALID (demo fails with patch: $(echo "$OUT1" | grep -m1 -E -- '--- FAIL|panic|FAIL' | cut -c1-120))"; else
  # one retry for flaky tests
  if VERIF_REPO=$WT /verif/tools/baseline_off.sh >/tmp/valseed.$$.suite 2>&1; then echo "VALID (suite passed on retry)"; else echo "INVALID suite fails with the patch"; tail -8 /tmp/valseed.$$.suite; rm -f /tmp/valseed.$$.suite; exit 1; fi
fi
rm -f /tmp/valseed.$$.suite
