#!/bin/bash
# usage: seed_batch.sh [-r <suffix>] <prop>...  — validates and tries every /tmp/seed<suffix>-<prop>/out/m* ;
# results appended to /tmp/seed_results.txt (format: "<prop> <suffix>/<m>: <validation> || <detection>")
SUF=""
if [ "$1" = "-r" ]; then SUF=$2; shift 2; fi
for PROP in "$@"; do
  for D in /tmp/seed$SUF-$PROP/out/m*; do
    [ -f $D/patch.diff ] || continue
    V=$(/verif/tools/validate_seed.sh $D 2>&1 | tail -1)
    R="-"
    case "$V" in VALID*)
      R=$(/verif/tools/try_seed.sh $D/patch.diff $PROP quick 2>&1 | tail -1)
      case "$R" in MISSED*) R="$R | $(/verif/tools/try_seed.sh $D/patch.diff $PROP thorough 2>&1 | tail -1)";; esac ;;
    esac
    echo "$PROP $SUF/$(basename $D): $V || $R" | tee -a /tmp/seed_results.txt
  done
done
