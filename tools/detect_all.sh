#!/bin/bash
# usage: detect_all.sh <n-parallel> [ids...]   — runs every stored seeded change (or the given ones) against the
# quick check of its property in scratch worktrees and records the first violation line in /tmp/detect/<id>.txt
PAR=${1:-3}; shift
mkdir -p /tmp/detect
IDS=("$@"); [ ${#IDS[@]} -eq 0 ] && IDS=($(ls /verif/seeded))
printf '%s\n' "${IDS[@]}" | xargs -P $PAR -I{} bash -c '
  ID={}; PROP=${ID%%-*}; CP=$(jq -r ".check_property // empty" /verif/seeded/$ID/meta.json 2>/dev/null); [ -n "$CP" ] && PROP=$CP
  OUT=$(/verif/tools/try_seed.sh /verif/seeded/$ID/patch.diff $PROP quick 2>&1 | grep -v "^KNOWN-FINDING" | tail -3)
  echo "$OUT" > /tmp/detect/$ID.txt
  echo "$ID $(echo "$OUT" | tail -1)" >> /tmp/detect/summary.txt
'
