#!/bin/bash
# usage: try_seed.sh <patch.diff> <prop> [tier]
# Applies the patch to a scratch worktree of /repo HEAD and runs the check against it from a scratch
# copy of /verif (so neither /repo nor /verif/evidence is touched). Prints DETECTED / MISSED.
P=$(realpath "$1"); PROP=$2; TIER=${3:-quick}
WT=/tmp/tryseed.$$; VC=/tmp/tryverif.$$
git -C /repo worktree add -q --detach $WT HEAD || exit 2
trap 'git -C /repo worktree remove --force $WT >/dev/null 2>&1; rm -rf $WT $VC' EXIT
( cd $WT && git apply "$P" ) || { echo "PATCH-DOES-NOT-APPLY"; exit 2; }
rsync -a --exclude .git --exclude .scratch --exclude replays --exclude bin /verif/ $VC/
cd $VC
OUT=$(VERIF_REPO=$WT ./check $PROP $TIER 2>&1); RC=$?
echo "$OUT" | grep -A1 '^VIOLATION\|BROKEN' | grep -v '^--' | cut -c1-300 | head -4
if [ $RC -eq 1 ] && echo "$OUT" | grep -q '^VIOLATION'; then echo "DETECTED $PROP $TIER"; else echo "MISSED $PROP $TIER (exit $RC)"; fi
