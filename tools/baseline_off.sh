#!/bin/bash
# Runs the repository's test suite with the verif guard OFF and checks that every
# test of the stable baseline (/root/.vp/BASELINE.json stable_pass) passes.
export GOFLAGS=-mod=mod GOPROXY=off GOSUMDB=off GOTOOLCHAIN=local
REPO=${VERIF_REPO:-/repo}
OUT=$(mktemp /verif/.scratch/baseline.XXXXXX.json 2>/dev/null || mktemp)
mkdir -p /verif/.scratch
( cd "$REPO" && go test -json -vet=off -count=1 -timeout 25m ./... ) > "$OUT" 2>/dev/null
VERIF_REPO="$REPO" python3 - "$OUT" <<'PY'
import json,sys
res={}
for line in open(sys.argv[1],errors='replace'):
    line=line.strip()
    if not line.startswith('{'): continue
    try: e=json.loads(line)
    except Exception: continue
    if e.get('Action') in('pass','fail','skip') and e.get('Test'):
        res[e['Package']+'::'+e['Test']]=e['Action']
try:
    base=json.load(open('/root/.vp/BASELINE.json'))['stable_pass']
except Exception as ex:
    print('cannot read baseline:',ex); base=[]
bad=[t for t in base if res.get(t)!='pass']
# load-dependent flakes (e.g. the 200 ms timeout of Test_AppendStore): rerun the packages of the tests that
# did not pass, up to three times; a test that passes in a rerun counts as passing
import subprocess,os
repo=os.environ.get('VERIF_REPO','/repo')
for attempt in range(3):
    if not bad or len(bad)>40: break
    pkgs=sorted({t.split('::')[0] for t in bad})
    out=subprocess.run(['go','test','-json','-vet=off','-count=1','-timeout','25m']+pkgs,cwd=repo,capture_output=True,text=True,errors='replace').stdout
    for line in out.splitlines():
        if not line.startswith('{'): continue
        try: e=json.loads(line)
        except Exception: continue
        if e.get('Action')=='pass' and e.get('Test'):
            res[e['Package']+'::'+e['Test']]='pass'
    bad=[t for t in base if res.get(t)!='pass']
    print('rerun %d of %s: still not passing: %d'%(attempt+1,pkgs,len(bad)))
print('tests run: %d  passed: %d  baseline stable: %d  baseline not passing: %d'%(len(res),sum(1 for v in res.values() if v=='pass'),len(base),len(bad)))
for t in bad[:40]: print('  NOT PASSING:',t,res.get(t))
sys.exit(1 if bad else 0)
PY
RC=$?
rm -f "$OUT"
exit $RC
