#!/bin/bash
# Runs the repository's test suite with the verif guard OFF and checks that every
# test of the stable baseline (/root/.vp/BASELINE.json stable_pass) passes.
export GOFLAGS=-mod=mod GOPROXY=off GOSUMDB=off GOTOOLCHAIN=local
REPO=${VERIF_REPO:-/repo}
OUT=$(mktemp /verif/.scratch/baseline.XXXXXX.json 2>/dev/null || mktemp)
mkdir -p /verif/.scratch
( cd "$REPO" && go test -json -vet=off -count=1 -timeout 25m ./... ) > "$OUT" 2>/dev/null
python3 - "$OUT" <<'PY'
import json,sys
res={}
for line in open(sys.argv[1],errors='replace'):
    line=line.strip()
    if not line.startswith('{'): continue
    try: e=json.loads(line)
    except Exception: continue
    if e.get('Action') in('pass','fail','skip') and e.get('Test'):
        res[e['Package']+'::'+e['Test']]=e['Action']
try:
    base=json.load(open('/root/.vp/BASELINE.json'))['stable_pass']
except Exception as ex:
    print('cannot read baseline:',ex); base=[]
bad=[t for t in base if res.get(t)!='pass']
print('tests run: %d  passed: %d  baseline stable: %d  baseline not passing: %d'%(len(res),sum(1 for v in res.values() if v=='pass'),len(base),len(bad)))
for t in bad[:40]: print('  NOT PASSING:',t,res.get(t))
sys.exit(1 if bad else 0)
PY
RC=$?
rm -f "$OUT"
exit $RC
