package main

import (
	"strings"

	"verif/harness/model"
)

// Predicates of the listed findings (see /verif/known_findings.json).

func init() {
	// C01-KF1: value typing rewrites numeric-looking strings that are not in
	// canonical form ("007" -> 7, "1e3" -> 1000, "-0" -> 0, "inf" -> +Inf, ...).
	registerPred("C01-KF1", func(st *model.State, env model.Env, argv []string) bool {
		if len(argv) < 3 {
			return false
		}
		switch strings.ToLower(argv[0]) {
		case "set":
			return !model.AdaptStable(argv[2])
		case "mset":
			for i := 2; i < len(argv); i += 2 {
				if !model.AdaptStable(argv[i]) {
					return true
				}
			}
		case "append":
			cur := ""
			if e := st.DBs[env.DB][argv[1]]; e != nil && e.Kind == model.KScalar {
				cur = e.S
			}
			return !model.AdaptStable(cur + argv[2])
		}
		return false
	})
}
