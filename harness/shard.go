package main

import (
	"encoding/json"
	"flag"
	"fmt"
	"os"
	"os/exec"
	"path/filepath"
	"strconv"
	"strings"
	"sync"
	"time"
)

// Sharding: a check can fork itself into n child processes ("workers"). Each
// child runs the same check function with ctx.Shard/NShards set and does only
// its share of the cases; it writes its observations to a file that the parent
// merges. A child that dies (fatal runtime error in the code under test,
// watchdog) is turned into a crash violation by the parent, with the child's
// stderr as the replay artefact.

type ctxExport struct {
	Evals      int64                  `json:"evals"`
	Classes    []string               `json:"classes"`
	Counters   map[string]int64       `json:"counters"`
	Samples    []interface{}          `json:"samples"`
	Violations []Violation            `json:"violations"`
	Known      map[string]int64       `json:"known"`
	Filtered   map[string]int64       `json:"filtered"`
	Inconcl    int64                  `json:"inconclusive"`
	Extra      map[string]interface{} `json:"extra"`
	Broken     []string               `json:"broken"`
	Rule       string                 `json:"rule"`
	Assume     []string               `json:"assume"`
}

func (c *Ctx) export() ctxExport {
	c.mu.Lock()
	defer c.mu.Unlock()
	e := ctxExport{Evals: c.evals, Counters: c.counters, Samples: c.samples, Violations: c.violations,
		Known: c.known, Filtered: c.filtered, Inconcl: c.inconcl, Extra: c.extra, Broken: c.broken,
		Rule: c.rule, Assume: c.assumptions}
	for k := range c.classes {
		e.Classes = append(e.Classes, k)
	}
	return e
}

func (c *Ctx) merge(e ctxExport) {
	c.mu.Lock()
	defer c.mu.Unlock()
	c.evals += e.Evals
	for _, k := range e.Classes {
		c.classes[k] = struct{}{}
	}
	for k, v := range e.Counters {
		c.counters[k] += v
	}
	for _, s := range e.Samples {
		if len(c.samples) < 12 {
			c.samples = append(c.samples, s)
		}
	}
	for _, v := range e.Violations {
		if c.vioKeys[v.Key] {
			c.counters["violations_duplicate"]++
			continue
		}
		c.vioKeys[v.Key] = true
		if len(c.violations) < 40 {
			c.violations = append(c.violations, v)
		}
	}
	for k, v := range e.Known {
		c.known[k] += v
	}
	for k, v := range e.Filtered {
		c.filtered[k] += v
	}
	c.inconcl += e.Inconcl
	for k, v := range e.Extra {
		if _, ok := c.extra[k]; !ok {
			c.extra[k] = v
		}
	}
	c.broken = append(c.broken, e.Broken...)
	if c.rule == "" {
		c.rule = e.Rule
	}
	if len(c.assumptions) == 0 {
		c.assumptions = e.Assume
	}
}

// Fork runs the check in n child processes and merges their results. It
// returns true in the parent (which must then return) and false in a child.
// bin == "" uses the running binary. timeout is a generous wall-clock watchdog:
// its firing makes the shard inconclusive, never a violation by itself.
func (c *Ctx) Fork(n int, bin string, timeout time.Duration, extraEnv ...string) bool {
	if c.NShards > 0 {
		return false
	}
	raceDone := make(chan struct{})
	if bin == "" {
		bin, _ = os.Executable()
		raceDone = c.startRaceLane(timeout)
	} else {
		close(raceDone)
	}
	defer func() { <-raceDone }()
	dir := mkScratch("shards-" + c.Prop)
	defer os.RemoveAll(dir)
	var wg sync.WaitGroup
	for i := 0; i < n; i++ {
		wg.Add(1)
		go func(i int) {
			defer wg.Done()
			out := filepath.Join(dir, fmt.Sprintf("shard%d.json", i))
			errf := filepath.Join(dir, fmt.Sprintf("shard%d.err", i))
			ef, _ := os.Create(errf)
			cmd := exec.Command("timeout", "-s", "QUIT", strconv.Itoa(int(timeout.Seconds())), bin, "worker",
				"-prop", c.Prop, "-tier", c.Tier, "-seed", strconv.FormatInt(c.Seed, 10),
				"-shard", strconv.Itoa(i), "-n", strconv.Itoa(n), "-out", out)
			cmd.Env = append(os.Environ(), extraEnv...)
			cmd.Stdout = ef
			cmd.Stderr = ef
			err := cmd.Run()
			ef.Close()
			if ee, ok := err.(*exec.ExitError); ok && ee.ExitCode() == 124 {
				// the watchdog fired: run the shard once more in a fresh process; a second firing at the same
				// place is reported as a hang, a single one is inconclusive
				firstCur, _ := os.ReadFile(out + ".current")
				saveArtefact(c.Prop, fmt.Sprintf("shard%d-watchdog-1", i), "current case: "+string(firstCur)+"\n"+tailFile(errf, 12000))
				ef2, _ := os.Create(errf)
				cmd2 := exec.Command("timeout", "-s", "QUIT", strconv.Itoa(int(timeout.Seconds())), bin, "worker",
					"-prop", c.Prop, "-tier", c.Tier, "-seed", strconv.FormatInt(c.Seed, 10),
					"-shard", strconv.Itoa(i), "-n", strconv.Itoa(n), "-out", out)
				cmd2.Env = append(os.Environ(), extraEnv...)
				cmd2.Stdout, cmd2.Stderr = ef2, ef2
				err = cmd2.Run()
				ef2.Close()
				if ee2, ok := err.(*exec.ExitError); ok && ee2.ExitCode() == 124 {
					cur, _ := os.ReadFile(out + ".current")
					p := saveArtefact(c.Prop, fmt.Sprintf("shard%d-hang", i), "current case: "+string(cur)+"\n"+tailFile(errf, 16000))
					c.Violate(Violation{Kind: "hang", Lane: "worker",
						What: fmt.Sprintf("the worker made no progress within the %v watchdog twice in a row (fresh processes); first time while running %q, second time %q; goroutine dump saved", timeout, trunc(string(firstCur), 200), trunc(string(cur), 200)),
						Case: map[string]interface{}{"dump": p, "current": string(cur)}, Key: "worker-hang|" + trunc(string(cur), 40)})
					if b, rerr := os.ReadFile(out); rerr == nil {
						var e ctxExport
						if json.Unmarshal(b, &e) == nil {
							c.merge(e)
						}
					}
					return
				}
				c.Inconclusive("shard watchdog fired once, not on the rerun")
			}
			b, rerr := os.ReadFile(out)
			if rerr == nil {
				var e ctxExport
				if json.Unmarshal(b, &e) == nil {
					c.merge(e)
				}
			}
			if err != nil {
				code := -1
				if ee, ok := err.(*exec.ExitError); ok {
					code = ee.ExitCode()
				}
				tail := tailFile(errf, 12000)
				cur := ""
				if cb, e2 := os.ReadFile(out + ".current"); e2 == nil {
					cur = string(cb)
				}
				if code == 124 {
					// watchdog: inconclusive, keep the dump for inspection
					c.Inconclusive("shard watchdog")
					saveArtefact(c.Prop, fmt.Sprintf("shard%d-watchdog", i), "current case: "+cur+"\n"+tail)
					return
				}
				fatal := fatalSection(errf, 8000)
				p := saveArtefact(c.Prop, fmt.Sprintf("shard%d-crash", i), "exit status "+strconv.Itoa(code)+"\ncurrent case: "+cur+"\n"+fatal+"\n[...]\n"+tail)
				shown := trunc(fatal, 1500)
				if shown == "" {
					shown = trunc(lastLines(tail, 12), 1500)
				}
				c.Violate(Violation{Kind: "crash", Lane: "worker", What: fmt.Sprintf("worker process died (exit %d) while running case %s; stderr: %s", code, trunc(cur, 300), shown),
					Case: map[string]interface{}{"stderr": p, "current": cur}, Key: "worker-died|" + firstFatalLine(fatal+tail)})
			}
		}(i)
	}
	wg.Wait()
	return true
}

func tailFile(p string, n int) string {
	b, err := os.ReadFile(p)
	if err != nil {
		return ""
	}
	if len(b) > n {
		b = b[len(b)-n:]
	}
	return string(b)
}

// fatalSection returns up to n bytes of the file starting at the first line that announces the
// death of the process (a panic, a runtime fatal error, a log.Fatal of the code under test).
func fatalSection(p string, n int) string {
	b, err := os.ReadFile(p)
	if err != nil {
		return ""
	}
	best := -1
	for _, pre := range []string{"\npanic: ", "\nfatal error: ", "\nunexpected fault address"} {
		if i := strings.Index(string(b), pre); i >= 0 && (best < 0 || i < best) {
			best = i + 1
		}
	}
	if best < 0 {
		return ""
	}
	b = b[best:]
	if len(b) > n {
		b = b[:n]
	}
	return string(b)
}

func lastLines(s string, n int) string {
	cnt := 0
	for i := len(s) - 1; i >= 0; i-- {
		if s[i] == '\n' {
			cnt++
			if cnt > n {
				return s[i+1:]
			}
		}
	}
	return s
}

func firstFatalLine(s string) string {
	for _, pre := range []string{"fatal error: ", "panic: "} {
		for i := 0; i+len(pre) < len(s); i++ {
			if s[i:i+len(pre)] == pre {
				j := i
				for j < len(s) && s[j] != '\n' {
					j++
				}
				return s[i:j]
			}
		}
	}
	return "unknown"
}

func saveArtefact(prop, name, content string) string {
	dir := filepath.Join(verifDir(), "replays", prop)
	_ = os.MkdirAll(dir, 0o755)
	p := filepath.Join(dir, fmt.Sprintf("%s.%d.log", name, time.Now().UnixNano()))
	_ = os.WriteFile(p, []byte(content), 0o644)
	return p
}

// SetCurrent records the case a worker is about to run, so that a fatal error
// can be attributed to it.
func (c *Ctx) SetCurrent(desc string) {
	if c.curFile != "" {
		_ = os.WriteFile(c.curFile, []byte(desc), 0o644)
	}
}

// Mine reports whether case i belongs to this shard.
func (c *Ctx) Mine(i int) bool {
	if c.NShards <= 0 {
		return true
	}
	return i%c.NShards == c.Shard
}

func workerMain(args []string) int {
	fs := flag.NewFlagSet("worker", flag.ExitOnError)
	prop := fs.String("prop", "", "")
	tier := fs.String("tier", "quick", "")
	seed := fs.Int64("seed", 1, "")
	shard := fs.Int("shard", 0, "")
	n := fs.Int("n", 1, "")
	out := fs.String("out", "", "")
	_ = fs.Parse(args)
	def, ok := checks[*prop]
	if !ok {
		fmt.Fprintln(os.Stderr, "unknown property", *prop)
		return 2
	}
	ctx := NewCtx(*prop, *tier, *seed, def.level)
	ctx.Shard, ctx.NShards = *shard, *n
	ctx.curFile = *out + ".current"
	def.run(ctx)
	b, _ := json.Marshal(ctx.export())
	if err := os.WriteFile(*out, b, 0o644); err != nil {
		fmt.Fprintln(os.Stderr, err)
		return 2
	}
	return 0
}
