package main

import (
	"fmt"
	"math/rand"
	"os"
	"path/filepath"
	"strings"
	"sync"
	"sync/atomic"
	"time"

	"verif/harness/model"
)

func init() {
	registerCheck("C02", "fault_enumeration", checkC02)

	// C02-KF1: relative expiries are re-based at replay time.
	registerPred("C02-KF1", func(_ *model.State, _ model.Env, argv []string) bool {
		if len(argv) == 0 {
			return false
		}
		switch strings.ToLower(argv[0]) {
		case "expire", "pexpire":
			return true
		case "set", "getex":
			for _, a := range argv[2:] {
				if isKWany(a, "ex", "px") {
					return true
				}
			}
		}
		return false
	})
	// C02-KF2: randomised removals are logged as commands.
	registerPred("C02-KF2", func(_ *model.State, _ model.Env, argv []string) bool {
		return len(argv) > 0 && strings.EqualFold(argv[0], "spop")
	})
}

func isKWany(s string, kws ...string) bool {
	for _, k := range kws {
		if strings.EqualFold(s, k) {
			return true
		}
	}
	return false
}

var c02Points = map[string]bool{
	"cmd.after_handler": true, "cmd.after_log": true,
	"aof.write.begin": true, "aof.write.after_select": true, "aof.write.after_cmd": true, "aof.write.after_sync": true,
	// the points of a log rewrite at which the files on disk are, on their own, a complete description of the
	// dataset (the windows in between are C09's, with its listed findings)
	"rewrite.begin": true, "preamble.after_state": true, "aof.trunc.after_truncate": true, "aof.trunc.after_select": true,
	"aof.trunc.after_sync": true, "rewrite.end": true,
}

// pRecord is what one instrumented run of a workload produced.
type pRecord struct {
	States []map[int]map[string]string // S_i after op i
	Images []pImage
	Root   string
	Err    string
	Hits   map[string]int
}

// runInstrumented runs the workload on a fresh directory, recording the state
// after every acknowledged op and a directory image at every hit of every
// point in points, plus one after every ack.
func runInstrumented(w pWorkload, clk *VClock, points map[string]bool, ackImages bool, extra ...func(*InstOpts)) *pRecord {
	rec := &pRecord{Root: mkScratch("c02"), Hits: map[string]int{}}
	dir := filepath.Join(rec.Root, "data")
	_ = os.MkdirAll(dir, 0o755)
	run, err := newPRunner(dir, spellPolicy(w.Policy, len(w.Ops)), false, false, clk, extra...)
	if err != nil {
		rec.Err = err.Error()
		return rec
	}
	var cur atomic.Int64
	var mu sync.Mutex
	var synced int64 = 0
	snap := func(point string) {
		mu.Lock()
		defer mu.Unlock()
		rec.Hits[point]++
		img := pImage{Point: point, Op: int(cur.Load()), Hit: rec.Hits[point], Synced: synced,
			Dir: filepath.Join(rec.Root, fmt.Sprintf("img%05d", len(rec.Images)))}
		if err := copyDir(dir, img.Dir); err != nil {
			rec.Err = "image copy: " + err.Error()
			return
		}
		img.LogSize = fileSize(logPath(img.Dir))
		img.PreSize = fileSize(preamblePath(img.Dir))
		rec.Images = append(rec.Images, img)
	}
	setHook(func(name string, args ...interface{}) {
		if name == "aof.sync" {
			mu.Lock()
			synced = fileSize(logPath(dir))
			mu.Unlock()
			return
		}
		if points[name] {
			snap(name)
		}
	})
	defer setHook(nil)
	for i, op := range w.Ops {
		cur.Store(int64(i))
		if _, err := run.exec(op); err != nil {
			rec.Err = fmt.Sprintf("op %d %s: %v", i, op, err)
			break
		}
		rec.States = append(rec.States, run.canon())
		if ackImages {
			snap("ack")
		}
	}
	setHook(nil)
	run.close()
	return rec
}

func (r *pRecord) cleanup() { _ = os.RemoveAll(r.Root) }

func checkC02(ctx *Ctx) {
	ctx.Rule("one evaluation = one data-directory image (taken at a failpoint between two file operations of a logged write, after an acknowledgement, " +
		"or derived from such an image by cutting the last record at a byte offset / cutting the log back to its last fsync) restored into a fresh instance " +
		"and compared, as a whole canonical dump (all databases, types, values, deadlines), with the dumps recorded from the live instance after each acknowledged operation. " +
		"distinct_nontrivial = distinct (image kind, failpoint, sync policy, caller, command, database) tuples whose restored state was decided")
	ctx.Assume("process death at an instant leaves exactly what another process can read at that instant (POSIX), so a directory image taken inside the failpoint stands for a SIGKILL there",
		"power loss = the log cut back to the size it had at the last fsync (unsynced suffix lost)",
		"virtual clock; the clock is advanced between stop and restart")
	if ctx.Fork(8, "", ctx.Watchdog()) {
		return
	}
	quietLogs()
	if ctx.Shard == 0 {
		c02Witnesses(ctx)
	}
	if ctx.Shard == 1 {
		ctx.SetCurrent("C02 strace lane")
		c02Strace(ctx)
	}
	if ctx.Shard == 2 || ctx.NShards == 1 {
		ctx.SetCurrent("C02 log-order lane")
		c02LogOrder(ctx)
	}
	if ctx.Shard == 3 || ctx.NShards == 1 {
		ctx.SetCurrent("C02 database-change lane")
		c02DBChange(ctx)
	}
	nw := ctx.N(18, 96)
	policies := []string{"always", "everysec", "no"}
	for wi := 0; wi < nw; wi++ {
		if !ctx.Mine(wi) {
			continue
		}
		r := rand.New(rand.NewSource(ctx.Seed*7_000_003 + int64(wi)))
		policy := policies[wi%3]
		nops := 30 + r.Intn(15)
		if !ctx.Quick() {
			nops = 40 + r.Intn(60)
		}
		w := genWorkload(r, fmt.Sprintf("w%d", wi), policy, nops, BaseTimeNs)
		if policy == "always" && (wi/3)%2 == 0 {
			// a log rewrite in the middle of the history: the writes after it must survive like the others
			at := len(w.Ops)/3 + r.Intn(len(w.Ops)/3)
			rw := pOp{Caller: pick(r, []string{"emb", "t1"}), Argv: []string{"REWRITEAOF"}}
			// the last write before the rewrite and the first ones after it are in the same, non-zero database
			db := pDBs[1+r.Intn(len(pDBs)-1)]
			block := []pOp{{Caller: "emb", SelDB: &db}, {Caller: "emb", Argv: []string{"SET", "k1", "before-rewrite"}}, rw,
				{Caller: "emb", Argv: []string{"SET", "k2", "after-rewrite"}}, {Caller: "emb", Argv: []string{"RPUSH", "k3", "after-rewrite"}}}
			w.Ops = append(w.Ops[:at], append(block, w.Ops[at:]...)...)
			if (wi/6)%2 == 0 {
				// and a second rewrite by the same process, later on (the preamble file is rewritten in place)
				at2 := at + len(block) + r.Intn(len(w.Ops)-at-len(block)+1)
				block2 := []pOp{{Caller: "emb", Argv: []string{"RPUSH", "k3", "between-rewrites"}}, {Caller: "emb", Argv: []string{"REWRITEAOF"}},
					{Caller: "emb", Argv: []string{"RPUSH", "k3", "after-second-rewrite"}}}
				w.Ops = append(w.Ops[:at2], append(block2, w.Ops[at2:]...)...)
			}
		}
		ctx.SetCurrent(fmt.Sprintf("C02 workload %s policy %s seed %d", w.Name, policy, ctx.Seed))
		c02Workload(ctx, w, wi)
	}
}

func c02Workload(ctx *Ctx, w pWorkload, wi int) {
	clk := NewVClock()
	rec := runInstrumented(w, clk, c02Points, true)
	defer rec.cleanup()
	if rec.Err != "" {
		ctx.Violate(Violation{Kind: "crash", Lane: "aof-run", What: "workload did not complete: " + rec.Err,
			Case: map[string]interface{}{"workload": w}, Key: "aof-run|" + trunc(rec.Err, 80)})
		return
	}
	for p, n := range rec.Hits {
		ctx.Count("hits:"+p, int64(n))
	}
	// the clock moves between the crash and the restart
	clk.Advance(500e6)
	state := func(i int) map[int]map[string]string {
		if i < 0 {
			return map[int]map[string]string{}
		}
		// states were rendered at the old clock; keys may have expired since: re-render is not
		// possible from the canonical form, so workloads only use deadlines >= 1 s in the future
		return rec.States[i]
	}
	opDesc := func(i int) string {
		if i < 0 || i >= len(w.Ops) {
			return "-"
		}
		return w.Ops[i].String()
	}
	report := func(kind string, img pImage, what string, extra map[string]interface{}) {
		c := map[string]interface{}{"workload": w, "failpoint": img.Point, "op_index": img.Op, "op": opDesc(img.Op), "hit": img.Hit, "image_kind": kind}
		for k, v := range extra {
			c[k] = v
		}
		cmd := "-"
		if img.Op >= 0 && img.Op < len(w.Ops) && len(w.Ops[img.Op].Argv) > 0 {
			cmd = strings.ToLower(w.Ops[img.Op].Argv[0])
		}
		ctx.Violate(Violation{Kind: kind, Lane: "aof-" + kind, What: what, Case: c,
			Key: fmt.Sprintf("aof|%s|%s|%s|%s", kind, img.Point, w.Policy, cmd)})
	}
	class := func(kind string, img pImage) {
		cmd, caller := "-", "-"
		if img.Op < len(w.Ops) {
			caller = w.Ops[img.Op].Caller
			if len(w.Ops[img.Op].Argv) > 0 {
				cmd = strings.ToLower(w.Ops[img.Op].Argv[0])
			}
		}
		ctx.Class(fmt.Sprintf("%s|%s|%s|%s|%s", kind, img.Point, w.Policy, caller, cmd))
	}
	var lastBegin = map[int]int64{} // op -> log size at aof.write.begin
	redurable := 0
	for ii, img := range rec.Images {
		k := img.Op
		if img.Point == "aof.write.begin" {
			lastBegin[k] = img.LogSize
		}
		// 1. process death at this point
		d, dir, err := restoreDump(img.Dir, w.Policy, clk, true, false, nil)
		ctx.Eval(1)
		if err != nil {
			report("process_death", img, "restore failed: "+err.Error(), nil)
			os.RemoveAll(dir)
			continue
		}
		lo, hi := k-1, k
		if img.Point == "ack" {
			lo = k // acknowledged: must be there (the OS has the bytes whatever the sync policy)
		}
		got := whichState(d, rec.States, lo, hi)
		class("process_death", img)
		if got == -2 {
			any := whichState(d, rec.States, -1, len(rec.States)-1)
			report("process_death", img, fmt.Sprintf("image at %s of op %d (%s), policy %s: restored dataset is neither S_%d nor S_%d (equals S_%d; -2 = no prefix state at all): %s",
				img.Point, k, opDesc(k), w.Policy, lo, hi, any, model.DiffCanon(state(hi), d)), nil)
		}
		// 2. durable again after recovery: more writes, clean stop, restart
		if got != -2 && (img.Point == "ack" && ii%7 == 0 || img.Point == "aof.write.after_select" || ii%23 == 0) {
			if what := reDurable(dir, w.Policy, clk, int64(wi*1000+ii)); what != "" {
				report("redurable", img, what, nil)
			}
			redurable++
			ctx.Eval(1)
			class("redurable", img)
		}
		os.RemoveAll(dir)
		// 3. power loss right after the acknowledgement
		if img.Point == "ack" && img.Synced >= 0 && img.Synced <= img.LogSize {
			d2, dir2, err := restoreDump(img.Dir, w.Policy, clk, true, false, func(dir string) error {
				return truncateFile(logPath(dir), img.Synced)
			})
			os.RemoveAll(dir2)
			ctx.Eval(1)
			if err == nil {
				lo2 := -1
				if w.Policy == "always" {
					lo2 = k
				}
				g := whichState(d2, rec.States, lo2, k)
				class("power_loss", img)
				if g == -2 {
					report("power_loss", img, fmt.Sprintf("power loss after the acknowledgement of op %d (%s), policy %s, log cut back from %d to the %d bytes that had been fsynced: restored dataset is not S_%d..S_%d: %s",
						k, opDesc(k), w.Policy, img.LogSize, img.Synced, lo2, k, model.DiffCanon(state(k), d2)), map[string]interface{}{"synced": img.Synced, "size": img.LogSize})
				}
			}
		}
		// 4. torn last record: every byte offset of the record(s) written by op k
		if img.Point == "aof.write.after_cmd" {
			b0, ok := lastBegin[k]
			if ok && b0 >= 0 && img.LogSize > b0 {
				step := int64(1)
				if ctx.Quick() && img.LogSize-b0 > 24 && ii%3 != 0 {
					step = 5
				}
				for cut := b0 + 1; cut < img.LogSize; cut += step {
					cut := cut
					d3, dir3, err := restoreDump(img.Dir, w.Policy, clk, true, false, func(dir string) error {
						return truncateFile(logPath(dir), cut)
					})
					ctx.Eval(1)
					ctx.Count("torn_images", 1)
					if err != nil {
						os.RemoveAll(dir3)
						report("torn", img, "restore failed: "+err.Error(), map[string]interface{}{"cut": cut})
						continue
					}
					if g := whichState(d3, rec.States, k-1, k-1); g == -2 {
						report("torn", img, fmt.Sprintf("log cut at byte %d inside the record of op %d (%s) [record spans %d..%d]: restored dataset is not S_%d: %s",
							cut, k, opDesc(k), b0, img.LogSize, k-1, model.DiffCanon(state(k-1), d3)), map[string]interface{}{"cut": cut})
					} else if (cut-b0)%9 == 1 {
						if what := reDurable(dir3, w.Policy, clk, cut); what != "" {
							report("torn_redurable", img, what, map[string]interface{}{"cut": cut})
						}
						ctx.Eval(1)
						ctx.Count("torn_redurable", 1)
					}
					os.RemoveAll(dir3)
				}
				class("torn", img)
			}
		}
	}
	ctx.Count("redurable_histories", int64(redurable))
	ctx.Count("images", int64(len(rec.Images)))
	if wi == 0 {
		ops := make([]string, 0, len(w.Ops))
		for _, o := range w.Ops {
			ops = append(ops, o.String())
		}
		ctx.Sample("aof-workload", map[string]interface{}{"policy": w.Policy, "ops": ops, "images": len(rec.Images)})
	}
	// 5. clean restart: stop after everything, restart, compare
	if len(rec.Images) > 0 {
		last := rec.Images[len(rec.Images)-1]
		d, dir, err := restoreDump(last.Dir, w.Policy, clk, true, false, nil)
		os.RemoveAll(dir)
		ctx.Eval(1)
		if err != nil || !canonEq(d, state(len(rec.States)-1)) {
			report("restart", last, "clean restart does not reproduce the dataset: "+model.DiffCanon(state(len(rec.States)-1), d), nil)
		}
	}
}

// reDurable: on an already recovered directory, start, write, stop cleanly,
// restart and compare. Returns "" or a description of the failure.
func reDurable(dir, policy string, clk *VClock, seed int64) string {
	in, err := NewInst(InstOpts{DataDir: dir, AOFStrategy: policy, RestoreAOF: true, Clock: clk})
	if err != nil {
		return "restart failed: " + err.Error()
	}
	r := rand.New(rand.NewSource(seed))
	db := pDBs[r.Intn(len(pDBs))]
	_ = in.S.SelectDB(db)
	var cmds []string
	for i := 0; i < 3; i++ {
		argv := genWriteOp(r, clk.NowNs(), false, false)
		if matchPersistFinding(argv) != "" {
			continue
		}
		_, _, crash := in.Do(argv...)
		if crash != "" {
			in.Close()
			return "crash after recovery: " + crash
		}
		cmds = append(cmds, Step{Argv: argv}.String())
		if i == 0 && seed%3 == 0 {
			// a log rewrite by the recovered process (it restored a log, and possibly a preamble, first)
			if why := rewriteAndWait(in); why != "" {
				in.Close()
				return "REWRITEAOF after recovery: " + why
			}
			cmds = append(cmds, "REWRITEAOF")
		}
	}
	want := CanonDump(in.S.VerifDump(), clk.NowNs())
	in.Close()
	in2, err := NewInst(InstOpts{DataDir: dir, AOFStrategy: policy, RestoreAOF: true, Clock: clk})
	if err != nil {
		return "second restart failed: " + err.Error()
	}
	got := CanonDump(in2.S.VerifDump(), clk.NowNs())
	in2.Close()
	if d := model.DiffCanon(want, got); d != "" {
		return fmt.Sprintf("after recovery, writes %v in db %d were acknowledged, the server was stopped cleanly and restarted: dataset differs: %s", cmds, db, d)
	}
	return ""
}

// c02Witnesses replays the witnesses of the listed C02 findings.
func c02Witnesses(ctx *Ctx) {
	for _, f := range findingsFor("C02") {
		if f.Status != "open" || len(f.Witness) == 0 {
			continue
		}
		clk := NewVClock()
		w := pWorkload{Name: "witness-" + f.ID, Policy: "always"}
		for _, s := range f.Witness {
			w.Ops = append(w.Ops, pOp{Caller: "emb", Argv: s.Argv})
		}
		rec := runInstrumented(w, clk, map[string]bool{}, true)
		if rec.Err == "" && len(rec.Images) > 0 {
			clk.Advance(500e6)
			// a randomised command needs several attempts to show a different replay
			for try := 0; try < 8; try++ {
				d, dir, err := restoreDump(rec.Images[len(rec.Images)-1].Dir, "always", clk, true, false, nil)
				os.RemoveAll(dir)
				if err == nil && !canonEq(d, rec.States[len(rec.States)-1]) {
					ctx.KnownReproduced(f.ID)
					break
				}
			}
		}
		ctx.Eval(1)
		rec.cleanup()
	}
}

// c02LogOrder: the log must record conflicting writes in the order in which they were executed. Client A
// is held (delay injection at the cmd.after_handler hook point, i.e. after its handler has run and before
// its record is appended) while client B writes the same key; whatever the server does with B meanwhile,
// the dataset restored from the log must be the live dataset at the stop.
func c02LogOrder(ctx *Ctx) {
	pairs := [][2][]string{
		{{"SET", "k", "from-A"}, {"SET", "k", "from-B"}},
		{{"RPUSH", "l", "a"}, {"RPUSH", "l", "b"}},
		{{"SET", "n", "5"}, {"INCR", "n"}},
		{{"HSET", "h", "f", "A"}, {"HSET", "h", "f", "B"}},
		{{"SADD", "s", "x"}, {"DEL", "s"}},
		{{"APPEND", "t", "A"}, {"APPEND", "t", "B"}},
	}
	for pi, pr := range pairs {
		for _, policy := range []string{"always", "no"} {
			root := mkScratch("c02order")
			dir := filepath.Join(root, "data")
			_ = os.MkdirAll(dir, 0o755)
			clk := NewVClock()
			in, err := NewInst(InstOpts{DataDir: dir, AOFStrategy: policy, Clock: clk})
			if err != nil {
				ctx.Broken("C02 log order: " + err.Error())
				os.RemoveAll(root)
				return
			}
			in.Do("SET", "n", "1") // so that INCR has something to work on
			var armed, held atomic.Bool
			release := make(chan struct{})
			armed.Store(true)
			setHook(func(name string, args ...interface{}) {
				if name == "cmd.after_handler" && armed.CompareAndSwap(true, false) {
					held.Store(true)
					select {
					case <-release:
					case <-time.After(10 * time.Second):
					}
				}
			})
			aDone := make(chan struct{})
			go func() {
				in.Do(pr[0]...)
				close(aDone)
			}()
			ok := waitFor(10*time.Second, func() bool { return held.Load() })
			bDone := make(chan struct{})
			go func() {
				in.Do(pr[1]...)
				close(bDone)
			}()
			// B either completes (no exclusion between A's handler and A's record) or blocks until A is released
			bFirst := false
			select {
			case <-bDone:
				bFirst = true
			case <-time.After(150 * time.Millisecond):
			}
			close(release)
			<-aDone
			<-bDone
			setHook(nil)
			ctx.Eval(1)
			ctx.Class(fmt.Sprintf("log-order|%s|%s|b-overtook=%v", strings.ToLower(pr[0][0]), policy, bFirst))
			live := CanonDump(in.S.VerifDump(), clk.NowNs())
			in.Close()
			if !ok {
				ctx.Inconclusive("C02 log order: the hook point was not reached")
				os.RemoveAll(root)
				continue
			}
			d, rdir, rerr := restoreDump(dir, policy, clk, true, false, nil)
			os.RemoveAll(rdir)
			os.RemoveAll(root)
			if rerr != nil || !canonEq(live, d) {
				ctx.Violate(Violation{Kind: "log_order", Lane: "aof-order",
					What: fmt.Sprintf("A = %s was held between its handler and its log record while B = %s ran (B finished before A was released: %v); after a clean stop the dataset restored from the log differs from the live dataset: %v %s",
						Step{Argv: pr[0]}.String(), Step{Argv: pr[1]}.String(), bFirst, rerr, model.DiffCanon(live, d)),
					Case: map[string]interface{}{"a": pr[0], "b": pr[1], "policy": policy}, Key: fmt.Sprintf("c02|log-order|%d", pi)})
			}
		}
	}
}

// c02DBChange: a write is held between its handler and its log record while another actor changes the
// database its caller has selected (SWAPDB from another connection moves the writer's connection; another
// goroutine calls SelectDB on the shared embedded instance). The write went into the database the caller
// had selected when the command ran, and that is where a restart must find it.
func c02DBChange(ctx *Ctx) {
	for vi, variant := range []string{"tcp-swapdb", "embedded-selectdb", "tcp-swapdb-back"} {
		for _, policy := range []string{"always", "no"} {
			root := mkScratch("c02db")
			dir := filepath.Join(root, "data")
			_ = os.MkdirAll(dir, 0o755)
			clk := NewVClock()
			run, err := newPRunner(dir, policy, false, false, clk)
			if err != nil {
				ctx.Broken("C02 database change: " + err.Error())
				os.RemoveAll(root)
				return
			}
			in := run.in
			var armed, held atomic.Bool
			release := make(chan struct{})
			var writerG atomic.Int64
			setHook(func(name string, args ...interface{}) {
				if name == "cmd.after_handler" && armed.Load() && (writerG.Load() == 0 || goid() == writerG.Load()) && armed.CompareAndSwap(true, false) {
					held.Store(true)
					select {
					case <-release:
					case <-time.After(10 * time.Second):
					}
				}
			})
			aDone := make(chan struct{})
			var what string
			if variant == "embedded-selectdb" {
				_ = in.S.SelectDB(3)
				in.Do("SET", "before", "v")
				armed.Store(true)
				go func() {
					writerG.Store(goid())
					in.Do("RPUSH", "held-write", "x")
					close(aDone)
				}()
				waitFor(10*time.Second, func() bool { return held.Load() })
				_ = in.S.SelectDB(7)
				what = "another goroutine called SelectDB(7) on the embedded instance"
			} else {
				if _, err := run.exec(pOp{Caller: "t1", Argv: []string{"SELECT", "3"}}); err != nil {
					ctx.Inconclusive("C02 database change: " + err.Error())
					run.close()
					os.RemoveAll(root)
					continue
				}
				run.exec(pOp{Caller: "t1", Argv: []string{"SET", "before", "v"}})
				run.exec(pOp{Caller: "t2", Argv: []string{"PING"}})
				armed.Store(true)
				go func() {
					run.exec(pOp{Caller: "t1", Argv: []string{"RPUSH", "held-write", "x"}})
					close(aDone)
				}()
				waitFor(10*time.Second, func() bool { return held.Load() })
				run.exec(pOp{Caller: "t2", Argv: []string{"SWAPDB", "3", "7"}})
				what = "another connection ran SWAPDB 3 7"
				if variant == "tcp-swapdb-back" {
					run.exec(pOp{Caller: "t2", Argv: []string{"SWAPDB", "7", "12"}})
					what = "another connection ran SWAPDB 3 7 and SWAPDB 7 12"
				}
			}
			ok := held.Load()
			close(release)
			<-aDone
			setHook(nil)
			// one more acknowledged write by the same caller, in whatever database it has selected now
			if variant == "embedded-selectdb" {
				in.Do("SET", "after", "v")
			} else {
				run.exec(pOp{Caller: "t1", Argv: []string{"SET", "after", "v"}})
			}
			ctx.Eval(1)
			ctx.Class(fmt.Sprintf("db-change|%s|%s", variant, policy))
			live := run.canon()
			run.close()
			if !ok {
				ctx.Inconclusive("C02 database change: the hook point was not reached")
				os.RemoveAll(root)
				continue
			}
			d, rdir, rerr := restoreDump(dir, policy, clk, true, false, nil)
			os.RemoveAll(rdir)
			os.RemoveAll(root)
			if rerr != nil || !canonEq(live, d) {
				ctx.Violate(Violation{Kind: "placement", Lane: "aof-db-change",
					What: fmt.Sprintf("RPUSH held-write x (caller on database 3) was held between its handler and its log record while %s; after a clean stop the dataset restored from the log differs from the live dataset: %v %s", what, rerr, model.DiffCanon(live, d)),
					Case: map[string]interface{}{"variant": variant, "policy": policy}, Key: fmt.Sprintf("c02|db-change|%d", vi)})
			}
		}
	}
}

// rewriteAndWait compacts the log (the command is synchronous) and reports a failure as text.
func rewriteAndWait(in *Inst) string {
	v, _, crash := in.Do("REWRITEAOF")
	if crash != "" {
		return crash
	}
	if v.IsError() {
		return v.String()
	}
	return ""
}

// spellPolicy: the sync policy is accepted in any letter case (the configuration loader, the embedded
// API and the log store all compare case-insensitively), so "Always" must sync like "always".
func spellPolicy(policy string, salt int) string {
	if policy != "always" {
		return policy
	}
	return []string{"always", "Always", "ALWAYS"}[salt%3]
}
