package main

import (
	"fmt"
	"math/rand"
	"strings"
	"sync"
	"time"

	"github.com/echovault/sugardb/sugardb"
)

func init() {
	registerCheck("C08", "exploration", checkC08)

	// C08-KF1: the LRU heap is ordered most-recently-used first (pinned by internal/eviction Test_CacheLRU), so
	// the LRU policies evict the most recently used candidate. Recognised per eviction event.
}

type evictEvent struct {
	Policy   string
	DB       int
	Key      string
	MemUsed  int64
	Max      uint64
	Deadline time.Time
	Seq      int
}

var c08Policies = []string{"noeviction", "allkeys-lru", "allkeys-lfu", "volatile-lru", "volatile-lfu", "allkeys-random", "volatile-random"}

func checkC08(ctx *Ctx) {
	ctx.Rule("one evaluation = one access history (SET of keys with and without deadlines, GET, overwrites, DEL, EXPIREAT/PERSIST, FLUSHDB, in databases 0 and 1) on an instance with a memory limit a little above a few keys, under each of the seven policies. " +
		"Monitors: at the eviction hook every event is asserted with the values the server itself used (usage at or above the limit, policy allows eviction, volatile policies only evict keys with a deadline, LFU evicts a least-frequently-accessed candidate and LRU a least-recently-accessed one according to the harness's own access log); " +
		"at quiescent points (asynchronous cache goroutines awaited through hooks) an evicted key must be gone from the store, the volatile index and the heaps, every surviving key must hold the value last written, eviction must have stopped once usage was under the limit, " +
		"and under noeviction a write is refused exactly while usage is at or above the limit and nothing is ever removed. distinct_nontrivial = distinct (policy, event/assertion class, candidate-set class) observed")
	ctx.Assume("recency stamps in the heaps are real time (milliseconds): the harness spaces accesses by 3 ms and awaits the asynchronous cache-update goroutines before the next access",
		"frequency = number of client commands (SET, GET, EXPIREAT) that touched the key since it entered the cache; under a volatile policy a key enters the cache when it gets a deadline")
	if ctx.Fork(14, "", ctx.Watchdog()) {
		return
	}
	quietLogs()
	for bi, pol := range []string{"volatile-lfu", "volatile-lru", "allkeys-lfu", "allkeys-lru"} {
		for rep := 0; rep < ctx.N(2, 8); rep++ {
			if ctx.Mine(bi*3 + rep) {
				ctx.SetCurrent(fmt.Sprintf("C08 big batch %s %d", pol, rep))
				c08BigBatch(ctx, pol, rep)
			}
		}
	}
	for pi, pol := range c08Policies {
		for rep := 0; rep < ctx.N(2, 10); rep++ {
			if ctx.Mine(pi*2 + rep + 1) {
				ctx.SetCurrent(fmt.Sprintf("C08 sampler against writers %s %d", pol, rep))
				c08SamplerWriters(ctx, pol, rep)
			}
		}
	}
	n := ctx.N(100, 400)
	for pi, pol := range c08Policies {
		for h := 0; h < n; h++ {
			if !ctx.Mine(pi*2 + h%2) {
				continue
			}
			ctx.SetCurrent(fmt.Sprintf("C08 policy %s history %d seed %d", pol, h, ctx.Seed))
			if !c08History(ctx, pol, h) {
				break
			}
			if ctx.NViolations() >= 6 {
				break
			}
		}
	}
}

// c08PerKey measures what one key of the history's shape costs in the server's own accounting.
func c08PerKey() int64 {
	in, err := NewInst(InstOpts{})
	if err != nil {
		return 100
	}
	defer in.Close()
	in.Do("SET", "key00", strings.Repeat("v", 40))
	time.Sleep(2 * time.Millisecond)
	return memUsed(in)
}

func c08History(ctx *Ctx, pol string, h int) bool {
	r := rand.New(rand.NewSource(ctx.Seed*17_000_023 + int64(h)*31 + int64(len(pol))))
	per := c08PerKey()
	capKeys := 4 + r.Intn(6)
	limit := uint64(per*int64(capKeys) + per/2)
	ac := &asyncCounter{}
	var mu sync.Mutex
	var events []evictEvent
	// In every third history the asynchronous cache update (and the eviction it may start) that a write's
	// setValues step spawns is let run to completion before the same command's setExpiry step begins: a
	// schedule the code allows at any time, since that goroutine takes the store lock only.
	holdExpiry := h%3 == 1
	setHook(func(name string, args ...interface{}) {
		ac.hook(name, args...)
		if holdExpiry && name == "ks.setExpiry" {
			ac.wait(2 * time.Second)
		}
		if name == "evict.mem" && len(args) >= 6 {
			e := evictEvent{}
			e.Policy, _ = args[0].(string)
			e.DB, _ = args[1].(int)
			e.Key, _ = args[2].(string)
			e.MemUsed, _ = args[3].(int64)
			e.Max, _ = args[4].(uint64)
			e.Deadline, _ = args[5].(time.Time)
			mu.Lock()
			e.Seq = len(events)
			events = append(events, e)
			mu.Unlock()
		}
	})
	defer setHook(nil)
	in, err := NewInst(InstOpts{MaxMemory: limit, Policy: pol, EvictionInterval: time.Hour})
	if err != nil {
		ctx.Broken(err.Error())
		return false
	}
	defer func() {
		// let every background goroutine of this instance finish before the next history installs its counter
		ac.wait(10 * time.Second)
		time.Sleep(5 * time.Millisecond)
		in.Close()
	}()
	type keyState struct {
		val      string
		volatile bool
		lastUse  int // access sequence number
		uses     int
		db       int
	}
	live := map[string]*keyState{} // reference: keys the harness believes may exist (db:key)
	var trace []string
	seq := 0
	db := 0
	lruOrderKnown := findingOpen("C08-KF1")
	fail := func(kind, what string) bool {
		ctx.Violate(Violation{Kind: kind, Lane: "eviction-" + pol, What: fmt.Sprintf("policy %s, limit %d bytes (about %d keys): %s", pol, limit, capKeys, what),
			Case: map[string]interface{}{"policy": pol, "limit": limit, "history": trace}, Key: "c08|" + pol + "|" + kind})
		return false
	}
	quiesce := func() bool {
		if !ac.wait(10 * time.Second) {
			ctx.Inconclusive("async cache goroutines did not quiesce")
			return false
		}
		return true
	}
	steps := 25 + r.Intn(25)
	for k := 0; k < steps; k++ {
		time.Sleep(3 * time.Millisecond)
		seq++
		key := fmt.Sprintf("key%02d", r.Intn(capKeys*2))
		id := fmt.Sprintf("%d:%s", db, key)
		usedBefore := memUsed(in)
		mu.Lock()
		evBefore := len(events)
		mu.Unlock()
		var argv []string
		switch x := r.Intn(12); {
		case x < 5:
			val := fmt.Sprintf("%s-%03d-%s", key, k, strings.Repeat("v", 30))[:40]
			argv = []string{"SET", key, val}
			vol := r.Intn(3) == 0 || strings.HasPrefix(pol, "volatile") && r.Intn(2) == 0
			if vol {
				argv = append(argv, "EXAT", "1999999999")
			}
			v, _, crash := in.Do(argv...)
			trace = append(trace, fmt.Sprintf("[db%d used=%d] %s -> %s", db, usedBefore, Step{Argv: argv}.String(), trunc(v.String(), 40)))
			if crash != "" {
				return fail("crash", "SET crashed: "+crash)
			}
			refusedExpected := pol == "noeviction" && uint64(usedBefore) >= limit
			ctx.Class(fmt.Sprintf("%s|write|at-limit=%v|refused=%v|eviction-before-setExpiry=%v", pol, uint64(usedBefore) >= limit, v.IsError(), holdExpiry && vol))
			if pol == "noeviction" {
				if refusedExpected != v.IsError() {
					return fail("admission", fmt.Sprintf("with usage %d and limit %d, %s replied %s (a write must be refused exactly while usage is at or above the limit)", usedBefore, limit, Step{Argv: argv}.String(), trunc(v.String(), 60)))
				}
			} else if v.IsError() {
				return fail("admission", fmt.Sprintf("an eviction policy refused a write: %s -> %s", Step{Argv: argv}.String(), v.String()))
			}
			if !v.IsError() {
				st := live[id]
				if st == nil {
					st = &keyState{db: db}
					live[id] = st
				}
				st.val, st.lastUse = val, seq
				st.uses++
				if strings.HasPrefix(pol, "volatile") && vol && !st.volatile {
					st.uses = 1 // the key enters the candidate cache now: its frequency starts here
				}
				// a plain SET on an existing key keeps or clears the deadline (silent): track what the dump says later
				st.volatile = vol || st.volatile
			}
		case x < 8:
			argv = []string{"GET", key}
			v, _, _ := in.Do(argv...)
			trace = append(trace, fmt.Sprintf("[db%d] GET %s -> %s", db, key, trunc(v.String(), 30)))
			if st := live[id]; st != nil && !v.IsNull() && !v.IsError() {
				st.lastUse = seq
				st.uses++
				if t, _ := v.Text(); t != st.val {
					return fail("survivor", fmt.Sprintf("GET %s returned %q, the value last written is %q", key, t, st.val))
				}
			}
		case x == 8:
			argv = []string{"DEL", key}
			in.Do(argv...)
			delete(live, id)
			trace = append(trace, fmt.Sprintf("[db%d] DEL %s", db, key))
		case x == 9:
			if st := live[id]; st != nil {
				if r.Intn(2) == 0 {
					in.Do("EXPIREAT", key, "1999999999")
					// setting an expiry touches the key (it counts as an access in the eviction caches)
					st.uses++
					if strings.HasPrefix(pol, "volatile") && !st.volatile {
						st.uses = 1 // the key enters the candidate cache now: its frequency starts here
					}
					st.volatile = true
					st.lastUse = seq
					trace = append(trace, fmt.Sprintf("[db%d] EXPIREAT %s", db, key))
				} else {
					in.Do("PERSIST", key)
					st.volatile = false
					trace = append(trace, fmt.Sprintf("[db%d] PERSIST %s", db, key))
				}
			}
		case x == 10:
			db = 1 - db
			_ = in.S.SelectDB(db)
			trace = append(trace, fmt.Sprintf("SelectDB %d", db))
		case x == 11 && r.Intn(3) == 0:
			all := r.Intn(3) == 0
			argv = []string{map[bool]string{false: "FLUSHDB", true: "FLUSHALL"}[all]}
			in.Do(argv...)
			for i, st := range live {
				if st.db == db || all {
					delete(live, i)
				}
			}
			trace = append(trace, fmt.Sprintf("[db%d] %s", db, argv[0]))
		}
		if !quiesce() {
			return true
		}
		// ---- monitors
		mu.Lock()
		newEvents := append([]evictEvent{}, events[evBefore:]...)
		mu.Unlock()
		d := in.S.VerifDump()
		for _, e := range newEvents {
			ctx.Eval(1)
			eid := fmt.Sprintf("%d:%s", e.DB, e.Key)
			cls := "evict"
			if pol == "noeviction" {
				return fail("noeviction", fmt.Sprintf("key %s was evicted under noeviction", eid))
			}
			if uint64(e.MemUsed) < e.Max {
				return fail("below_limit", fmt.Sprintf("key %s was evicted while usage %d was below the limit %d", eid, e.MemUsed, e.Max))
			}
			if strings.HasPrefix(pol, "volatile") && e.Deadline.IsZero() {
				return fail("candidate", fmt.Sprintf("volatile policy evicted %s, which has no deadline", eid))
			}
			// order: among the keys of that database the harness knows to be candidates
			if st := live[eid]; st != nil {
				var better []string
				for oid, o := range live {
					if oid == eid || o.db != e.DB {
						continue
					}
					if strings.HasPrefix(pol, "volatile") && !o.volatile {
						continue
					}
					if strings.HasPrefix(pol, "volatile") && oid == id {
						// the key this very command is writing: the eviction its setValues step starts may run
						// before its setExpiry step has given the key its deadline, and until then the key is
						// not a candidate under a volatile policy
						continue
					}
					// what counts as one "use" is the server's business within +-1 (a SET with an expiry option may
					// be counted once or twice): only a candidate used at least two times less often is "better"
					if strings.HasSuffix(pol, "lfu") && o.uses+1 < st.uses {
						better = append(better, fmt.Sprintf("%s(uses %d)", oid, o.uses))
					}
					if strings.HasSuffix(pol, "lru") && o.lastUse < st.lastUse {
						better = append(better, fmt.Sprintf("%s(last use #%d)", oid, o.lastUse))
					}
				}
				if len(better) > 0 {
					if strings.HasSuffix(pol, "lru") && lruOrderKnown {
						ctx.Filtered("C08-KF1")
						ctx.KnownReproduced("C08-KF1")
						cls = "evict-lru-order-known"
					} else {
						what := "used"
						if strings.HasSuffix(pol, "lfu") {
							what = fmt.Sprintf("accessed %d times", st.uses)
						} else {
							what = fmt.Sprintf("last accessed at step #%d", st.lastUse)
						}
						return fail("order", fmt.Sprintf("evicted %s (%s) although %v were better candidates in the same database", eid, what, better))
					}
				}
			}
			delete(live, eid)
			ctx.Class(fmt.Sprintf("%s|%s|volatile=%v", pol, cls, !e.Deadline.IsZero()))
			// the evicted key is gone completely
			if _, still := d.DBs[e.DB][e.Key]; still {
				if _, rewritten := live[eid]; !rewritten {
					return fail("incomplete", fmt.Sprintf("evicted key %s is still in the store", eid))
				}
			}
			for _, vk := range d.Volatile[e.DB] {
				if vk == e.Key {
					return fail("incomplete", fmt.Sprintf("evicted key %s is still in the volatile-key index", eid))
				}
			}
			for _, hk := range append(append([]string{}, d.LRU[e.DB]...), d.LFU[e.DB]...) {
				if hk == e.Key {
					return fail("incomplete", fmt.Sprintf("evicted key %s is still in an eviction heap", eid))
				}
			}
		}
		// eviction stops as soon as usage is back under the limit: the last event must have been needed
		if len(newEvents) > 0 {
			last := newEvents[len(newEvents)-1]
			if uint64(last.MemUsed) < last.Max {
				return fail("overshoot", "an eviction happened after usage was already back under the limit")
			}
		}
		// under an all-keys policy usage ends under the limit whenever there was something to evict
		used := uint64(memUsed(in))
		if strings.HasPrefix(pol, "allkeys") && used >= limit && countKeysDump(d) > 1 {
			return fail("not_enforced", fmt.Sprintf("after %s usage is %d, at or above the limit %d, with %d keys stored and an all-keys policy", Step{Argv: argv}.String(), used, limit, countKeysDump(d)))
		}
		// the usage the limit is compared with is the usage of the keys stored: every key of these histories has
		// the same shape, so it is the per-key figure times the number of keys
		if want := uint64(per) * uint64(countKeysDump(d)); used != want {
			return fail("usage", fmt.Sprintf("after %s the usage figure that the limit is compared with is %d, but %d keys of %d bytes each are stored (%d)", Step{Argv: argv}.String(), int64(used), countKeysDump(d), per, want))
		}
		// survivors are unchanged, nothing the harness never wrote exists, and unknown disappearances are evictions
		for dbi, keys := range d.DBs {
			for kname, v := range keys {
				st := live[fmt.Sprintf("%d:%s", dbi, kname)]
				if st == nil {
					return fail("survivor", fmt.Sprintf("key %d:%s exists although it was deleted, flushed or evicted", dbi, kname))
				}
				if v.Type != "string" || v.Str != st.val {
					return fail("survivor", fmt.Sprintf("surviving key %d:%s holds %q, the value last written is %q", dbi, kname, trunc(v.Str, 50), st.val))
				}
				st.volatile = v.ExpireAt != 0
			}
		}
		// bookkeeping is consistent with the store: the volatile-key index holds exactly the keys with a deadline
		// (once each), and under a volatile policy only such keys are eviction candidates
		for dbi, keys := range d.DBs {
			want := map[string]bool{}
			for kname, v := range keys {
				if v.ExpireAt != 0 {
					want[kname] = true
				}
			}
			seen := map[string]bool{}
			for _, vk := range d.Volatile[dbi] {
				if !want[vk] || seen[vk] {
					return fail("bookkeeping", fmt.Sprintf("the volatile-key index of database %d is %q but the keys with a deadline are %v", dbi, d.Volatile[dbi], keysOfSet(want)))
				}
				seen[vk] = true
			}
			if len(seen) != len(want) {
				return fail("bookkeeping", fmt.Sprintf("the volatile-key index of database %d is %q but the keys with a deadline are %v", dbi, d.Volatile[dbi], keysOfSet(want)))
			}
			if strings.HasPrefix(pol, "volatile") {
				for _, hk := range append(append([]string{}, d.LRU[dbi]...), d.LFU[dbi]...) {
					if !want[hk] {
						return fail("bookkeeping", fmt.Sprintf("under %s the eviction heap of database %d holds %q, which has no deadline", pol, dbi, hk))
					}
				}
			}
		}
		// structural invariant of the eviction heaps at the quiescent point: no entry precedes its parent in
		// the heap's own order (LFU: fewer uses first; LRU: the order the heap itself defines, by access time),
		// each key at most once, no nil entries
		for dbi, hk := range d.LFU {
			seenK := map[string]bool{}
			for idx, k := range hk {
				if k == "<nil>" || seenK[k] {
					return fail("heap", fmt.Sprintf("the LFU heap of database %d holds a nil or duplicate entry at position %d: %q", dbi, idx, hk))
				}
				seenK[k] = true
				if idx > 0 {
					par := hk[(idx-1)/2]
					if d.LFUCount[dbi][k] < d.LFUCount[dbi][par] {
						return fail("heap", fmt.Sprintf("the LFU heap of database %d is not a heap: %q (count %d) at position %d is below its parent %q (count %d) although it was used less often; heap %q", dbi, k, d.LFUCount[dbi][k], idx, par, d.LFUCount[dbi][par], hk))
					}
				}
			}
		}
		for dbi, hk := range d.LRU {
			seenK := map[string]bool{}
			for idx, k := range hk {
				if k == "<nil>" || seenK[k] {
					return fail("heap", fmt.Sprintf("the LRU heap of database %d holds a nil or duplicate entry at position %d: %q", dbi, idx, hk))
				}
				seenK[k] = true
				if idx > 0 {
					par := hk[(idx-1)/2]
					if d.LRUTime[dbi][k] > d.LRUTime[dbi][par] {
						return fail("heap", fmt.Sprintf("the LRU heap of database %d is not a heap in its own order: %q (time %d) at position %d is below its parent %q (time %d); heap %q", dbi, k, d.LRUTime[dbi][k], idx, par, d.LRUTime[dbi][par], hk))
					}
				}
			}
		}
		ctx.Class(pol + "|bookkeeping-consistent")
		for lid, st := range live {
			if _, ok := d.DBs[st.db][strings.SplitN(lid, ":", 2)[1]]; !ok {
				if pol == "noeviction" {
					return fail("noeviction", fmt.Sprintf("key %s disappeared under noeviction", lid))
				}
				// removed without an eviction event?
				return fail("silent_removal", fmt.Sprintf("key %s disappeared without an eviction event", lid))
			}
		}
	}
	if h == 0 {
		ctx.Sample("eviction-"+pol, map[string]interface{}{"limit": limit, "per_key": per, "history": trace})
	}
	mu.Lock()
	ctx.Count("eviction_events_"+pol, int64(len(events)))
	mu.Unlock()
	return true
}

func countKeysDump(d sugardb.VerifDumpResult) int {
	n := 0
	for _, db := range d.DBs {
		n += len(db)
	}
	return n
}

// c08BigBatch: the bookkeeping of a large multi-key read (MGET of thousands of keys: the asynchronous cache
// update that follows it touches every one of them) overlaps a PERSIST of one of those keys and a DEL of
// another, issued right behind it. At the next quiescent point the eviction heaps must hold no key that is
// not stored and, under a volatile policy, no key without a deadline - otherwise the next eviction removes a
// key that is not a candidate, or counts a key that is gone.
func c08BigBatch(ctx *Ctx, pol string, i int) {
	ac := &asyncCounter{}
	setHook(ac.hook)
	defer setHook(nil)
	in, err := NewInst(InstOpts{MaxMemory: 1 << 40, Policy: pol, EvictionInterval: time.Hour})
	if err != nil {
		ctx.Broken(err.Error())
		return
	}
	defer func() {
		ac.wait(20 * time.Second)
		time.Sleep(5 * time.Millisecond)
		in.Close()
	}()
	const n = 3000
	keys := make([]string, n)
	for k := range keys {
		keys[k] = fmt.Sprintf("bb%04d", k)
		in.Do("SET", keys[k], "v", "EXAT", "1999999999")
	}
	if !ac.wait(60 * time.Second) {
		ctx.Inconclusive("big-batch: async cache goroutines did not quiesce")
		return
	}
	for attempt := 0; attempt < 3; attempt++ {
		victim, gone := keys[n-1-2*attempt], keys[n-2-2*attempt]
		// the victim and the key to delete come last, so that the batch's bookkeeping reaches them late
		batch := append([]string{"MGET"}, keys[:n-6]...)
		batch = append(batch, gone, victim)
		in.Do(batch...)
		time.Sleep(time.Duration(1+i%3) * time.Millisecond)
		in.Do("PERSIST", victim)
		in.Do("DEL", gone)
		if !ac.wait(60 * time.Second) {
			ctx.Inconclusive("big-batch: async cache goroutines did not quiesce")
			return
		}
		d := in.S.VerifDump()
		ctx.Eval(1)
		ctx.Class(pol + "|big-batch|bookkeeping")
		for dbi, stored := range d.DBs {
			for _, hk := range append(append([]string{}, d.LRU[dbi]...), d.LFU[dbi]...) {
				v, ok := stored[hk]
				what := ""
				if !ok {
					what = fmt.Sprintf("holds %q, which is not stored (it was deleted right after a %d-key MGET that named it)", hk, n-4)
				} else if strings.HasPrefix(pol, "volatile") && v.ExpireAt == 0 {
					what = fmt.Sprintf("holds %q, which has no deadline (it was persisted right after a %d-key MGET that named it): the next eviction may remove a key that is not a candidate", hk, n-4)
				}
				if what != "" {
					ctx.Violate(Violation{Kind: "bookkeeping", Lane: "big-batch-" + pol, What: fmt.Sprintf("policy %s: at rest the eviction heap of database %d %s", pol, dbi, what),
						Case: map[string]interface{}{"policy": pol, "keys": n, "attempt": attempt}, Key: "c08|big-batch|" + pol})
					return
				}
			}
		}
	}
}

// c08SamplerWriters: a memory limit that is never reached, the background expiry sampler running every
// millisecond, and writers that give their keys a deadline in the past (the entry stays stored until something
// collects it) and write them again without a deadline. With usage far below the limit nothing may remove a
// key that has no deadline, whatever the policy; and at rest the usage figure the limit is compared with must
// equal the accounted size of what is stored.
func c08SamplerWriters(ctx *Ctx, pol string, i int) {
	ac := &asyncCounter{}
	setHook(ac.hook)
	defer setHook(nil)
	in, err := NewInst(InstOpts{MaxMemory: 1 << 40, Policy: pol, EvictionInterval: time.Millisecond, EvictionSample: 40})
	if err != nil {
		ctx.Broken(err.Error())
		return
	}
	defer func() {
		ac.wait(20 * time.Second)
		time.Sleep(5 * time.Millisecond)
		in.Close()
	}()
	const nW, nKeys, rounds = 6, 30, 25
	var wg sync.WaitGroup
	finals := make([]map[string]string, nW)
	for w := 0; w < nW; w++ {
		finals[w] = map[string]string{}
		wg.Add(1)
		go func(w int) {
			defer wg.Done()
			for r := 0; r < rounds; r++ {
				for k := 0; k < nKeys; k++ {
					key := fmt.Sprintf("sw%d:%d", w, k)
					val := fmt.Sprintf("fresh-%d-%d-%s", r, k, strings.Repeat("x", (k*7+r)%40))
					in.Do("SET", key, "old")
					in.Do("PEXPIREAT", key, "1")
					if v, _, crash := in.Do("SET", key, val); crash == "" && !v.IsError() {
						finals[w][key] = val
					}
				}
			}
		}(w)
	}
	wg.Wait()
	if !ac.wait(30 * time.Second) {
		ctx.Inconclusive("sampler-writers: async cache goroutines did not quiesce")
		return
	}
	time.Sleep(20 * time.Millisecond) // a few more sampler rounds; nothing has a deadline any more
	d := in.S.VerifDump()
	used := memUsed(in)
	acc, aerr := in.S.VerifAccountedSize()
	used2 := memUsed(in)
	ctx.Eval(1)
	ctx.Class(pol + "|sampler-writers")
	lost, first, total := 0, "", 0
	for w := range finals {
		for key, val := range finals[w] {
			total++
			if v, ok := d.DBs[0][key]; !ok || v.Str != val {
				lost++
				if first == "" {
					first = fmt.Sprintf("%s (present=%v, holds %q, last acknowledged value %q)", key, ok, trunc(v.Str, 30), trunc(val, 30))
				}
			}
		}
	}
	if lost > 0 {
		ctx.Violate(Violation{Kind: "removed_below_limit", Lane: "sampler-writers-" + pol,
			What: fmt.Sprintf("policy %s, usage %d far below the limit: %d of %d keys without a deadline (written over an expired, still stored entry while the 1 ms expiry sampler was running) are gone or changed at rest; first: %s", pol, used, lost, total, first),
			Case: map[string]interface{}{"policy": pol, "index": i}, Key: "c08|sampler-writers|lost|" + pol})
		return
	}
	if aerr == nil && used == used2 && used != acc {
		ctx.Violate(Violation{Kind: "usage", Lane: "sampler-writers-" + pol,
			What: fmt.Sprintf("policy %s: at rest the usage figure that the limit is compared with is %d, the %d keys stored account for %d (difference %+d)", pol, used, countKeysDump(d), acc, used-acc),
			Case: map[string]interface{}{"policy": pol, "index": i}, Key: "c08|sampler-writers|usage|" + pol})
	}
}
