package main

import (
	"fmt"
	"math/rand"
	"os"
	"path/filepath"
	"runtime"
	"strings"
	"sync/atomic"
	"time"
)

func init() {
	registerCheck("C19", "exploration", checkC19)
	registerCheck("C13", "exploration", checkC13)
}

// allGens is the union of the command generators of every data type, over one
// shared key universe so that keys change type and wrong-type paths are hit.
func allGens() []cmdGen {
	var g []cmdGen
	g = append(g, genericGens()...)
	g = append(g, expiryGens()...)
	hg, _ := c14Gens()
	g = append(g, hg...)
	lg, _ := listGens()
	g = append(g, lg...)
	g = append(g, c16Gens()...)
	g = append(g, zsetGensOrNil()...)
	return g
}

func allUniverse() Universe {
	u := defaultUniverse()
	u.Keys = []string{"a", "b", "c", "d", "e", "f"}
	return u
}

// asyncQuiesce waits until the asynchronous cache-update goroutines spawned by
// the keyspace functions have finished (observed through the async.* hooks).
type asyncCounter struct{ n atomic.Int64 }

func (a *asyncCounter) hook(name string, args ...interface{}) {
	switch name {
	case "async.spawn":
		a.n.Add(1)
	case "async.done":
		// never below zero: a goroutine spawned before this counter was installed may still finish
		for {
			v := a.n.Load()
			if v <= 0 || a.n.CompareAndSwap(v, v-1) {
				break
			}
		}
	}
}

func (a *asyncCounter) wait(timeout time.Duration) bool {
	deadline := time.Now().Add(timeout)
	for a.n.Load() > 0 {
		if time.Now().After(deadline) {
			return false
		}
		runtime.Gosched()
		time.Sleep(50 * time.Microsecond)
	}
	return true
}

func memUsed(in *Inst) int64 { return in.S.GetServerInfo().MemoryUsed }

// checkC19: reported memory usage == accounted size of the current dataset.
func checkC19(ctx *Ctx) {
	ctx.Rule("one evaluation = one quiescent point of a seeded random command history (all value types, databases 0/1, overwrites, in-place growth, deletes, expiry through the virtual clock and the sampler, flushes, renames, restores) " +
		"at which the MemoryUsed figure reported by the server must equal the sum, over the keys currently stored, of the server's own per-key size function; zero for an empty dataset; equal again after a snapshot/AOF restore. " +
		"distinct_nontrivial = distinct (command, pre-state kind, outcome) classes of the step that preceded a checked point")
	ctx.Assume("the per-key size function (KeyData.GetMem + key overhead) is the definition of 'accounted size'; only its agreement with the running counter is checked",
		"asynchronous cache-update goroutines are awaited through the async.* hooks before every comparison")
	if ctx.Fork(8, "", ctx.Watchdog()) {
		return
	}
	quietLogs()
	n := ctx.N(1600, 12000)
	every := 1
	if !ctx.Quick() {
		every = 3
	}
	gens := allGens()
	for i := 0; i < n; i++ {
		if !ctx.Mine(i) {
			continue
		}
		ctx.SetCurrent(fmt.Sprintf("C19 program %d seed %d", i, ctx.Seed))
		c19Program(ctx, i, gens, every)
	}
	for i := 0; i < ctx.N(8, 80); i++ {
		if ctx.Mine(i) {
			c19Restore(ctx, i)
		}
	}
}

func c19Program(ctx *Ctx, i int, gens []cmdGen, every int) {
	r := rand.New(rand.NewSource(ctx.Seed*2_000_003 + int64(i)))
	ac := &asyncCounter{}
	setHook(ac.hook)
	defer setHook(nil)
	in, err := NewInst(InstOpts{})
	if err != nil {
		ctx.Broken(err.Error())
		return
	}
	defer in.Close()
	u := allUniverse()
	var trace []Step
	db := 0
	steps := 40 + r.Intn(40)
	for k := 0; k < steps; k++ {
		st := Step{}
		switch {
		case r.Intn(12) == 0:
			db = r.Intn(2)
			d := db
			st.DB = &d
			_ = in.S.SelectDB(db)
		case r.Intn(15) == 0:
			st.Adv = []int64{1e6, 1e9, 10e9, 100e9, 3600e9}[r.Intn(5)]
			in.Clk.Advance(st.Adv)
		case r.Intn(25) == 0:
			st.Tick = true
			for _, d := range []int{0, 1} {
				func() {
					defer func() { _ = recover() }()
					_ = in.S.VerifTickExpiry(d)
				}()
			}
		}
		argv := gens[r.Intn(len(gens))](r, &u, in.Clk.NowNs())
		if r.Intn(30) == 0 {
			argv = []string{pick(r, []string{"FLUSHDB", "FLUSHALL"})}
		}
		if id := matchFindingAny([]string{"C19"}, argv); id != "" {
			ctx.Filtered(id)
			continue
		}
		st.Argv = argv
		trace = append(trace, st)
		v, _, crash := in.Do(argv...)
		if crash != "" {
			// crashes are C01/C12..C17's business; stop this program
			ctx.Count("programs_stopped_by_crash", 1)
			return
		}
		if k%every != 0 {
			continue
		}
		if !ac.wait(5 * time.Second) {
			ctx.Inconclusive("async cache goroutines did not quiesce")
			return
		}
		got := memUsed(in)
		want, aerr := in.S.VerifAccountedSize()
		ctx.Eval(1)
		ctx.Class(fmt.Sprintf("%s|%s", argShape(argv), outcomeClass(v)))
		if aerr != nil {
			ctx.Violate(Violation{Kind: "memory", Lane: "history", What: "size function failed: " + aerr.Error(),
				Case: map[string]interface{}{"program": trace}, Key: "c19|sizefn"})
			return
		}
		if got != want {
			ctx.Violate(Violation{Kind: "memory", Lane: "history",
				What: fmt.Sprintf("after %s the server reports MemoryUsed=%d but the keys currently stored account for %d (difference %+d)", Step{Argv: argv}.String(), got, want, got-want),
				Case: map[string]interface{}{"program": trace, "program_text": progStrings(trace)}, Key: "c19|drift|" + strings.ToLower(argv[0])})
			return
		}
	}
	// empty dataset => zero
	in.Do("FLUSHALL")
	ac.wait(5 * time.Second)
	ctx.Eval(1)
	if got := memUsed(in); got != 0 {
		ctx.Violate(Violation{Kind: "memory", Lane: "history", What: fmt.Sprintf("after FLUSHALL (empty dataset) the server reports MemoryUsed=%d", got),
			Case: map[string]interface{}{"program": trace, "program_text": progStrings(trace)}, Key: "c19|nonzero-empty"})
	}
	if i == 0 {
		ctx.Sample("history", progStrings(trace))
	}
}

// matchFindingAny matches state-independent predicates of open findings of the given properties.
func matchFindingAny(props []string, argv []string) string {
	for _, f := range loadFindings() {
		if f.Status != "open" {
			continue
		}
		for _, p := range props {
			if f.Property == p {
				if pr, ok := stepPreds[f.ID]; ok && pr(nil, modelEnvZero, argv) {
					return f.ID
				}
			}
		}
	}
	return ""
}

// c19Restore: after a snapshot restore and after an AOF restore, the reported
// figure must again equal the accounted size of the restored dataset.
func c19Restore(ctx *Ctx, i int) {
	r := rand.New(rand.NewSource(ctx.Seed*31 + int64(i)))
	root := mkScratch("c19")
	defer os.RemoveAll(root)
	dir := filepath.Join(root, "data")
	_ = os.MkdirAll(dir, 0o755)
	clk := NewVClock()
	run, err := newPRunner(dir, "always", false, false, clk)
	if err != nil {
		ctx.Broken(err.Error())
		return
	}
	populate(run, r, 30+r.Intn(30), false)
	_, _ = run.exec(pOp{Caller: "emb", Argv: []string{"@SNAP"}})
	run.close()
	for _, mode := range []string{"snapshot", "aof"} {
		in, err := NewInst(InstOpts{DataDir: dir, AOFStrategy: "always", RestoreAOF: mode == "aof", RestoreSnapshot: mode == "snapshot", Clock: clk})
		if err != nil {
			continue
		}
		time.Sleep(2 * time.Millisecond)
		got := memUsed(in)
		want, _ := in.S.VerifAccountedSize()
		in.Close()
		ctx.Eval(1)
		ctx.Class("restore|" + mode)
		if got != want {
			ctx.Violate(Violation{Kind: "memory", Lane: "restore", What: fmt.Sprintf("after a %s restore the server reports MemoryUsed=%d but the restored keys account for %d", mode, got, want),
				Case: map[string]interface{}{"mode": mode, "seed": i}, Key: "c19|restore|" + mode})
		}
	}
}
