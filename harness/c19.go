package main

import (
	"fmt"
	"math/rand"
	"os"
	"path/filepath"
	"reflect"
	"runtime"
	"strconv"
	"strings"
	"sync"
	"sync/atomic"
	"time"

	"github.com/echovault/sugardb/sugardb"
)

func init() {
	registerCheck("C19", "exploration", checkC19)
	registerCheck("C13", "exploration", checkC13)
}

// allGens is the union of the command generators of every data type, over one
// shared key universe so that keys change type and wrong-type paths are hit.
func allGens() []cmdGen {
	var g []cmdGen
	g = append(g, genericGens()...)
	g = append(g, expiryGens()...)
	hg, _ := c14Gens()
	g = append(g, hg...)
	lg, _ := listGens()
	g = append(g, lg...)
	g = append(g, c16Gens()...)
	g = append(g, zsetGensOrNil()...)
	return g
}

func allUniverse() Universe {
	u := defaultUniverse()
	u.Keys = []string{"a", "b", "c", "d", "e", "f"}
	return u
}

// asyncQuiesce waits until the asynchronous cache-update goroutines spawned by
// the keyspace functions have finished (observed through the async.* hooks).
type asyncCounter struct{ n atomic.Int64 }

func (a *asyncCounter) hook(name string, args ...interface{}) {
	switch name {
	case "async.spawn":
		a.n.Add(1)
	case "async.done":
		// never below zero: a goroutine spawned before this counter was installed may still finish
		for {
			v := a.n.Load()
			if v <= 0 || a.n.CompareAndSwap(v, v-1) {
				break
			}
		}
	}
}

func (a *asyncCounter) wait(timeout time.Duration) bool {
	deadline := time.Now().Add(timeout)
	for a.n.Load() > 0 {
		if time.Now().After(deadline) {
			return false
		}
		runtime.Gosched()
		time.Sleep(50 * time.Microsecond)
	}
	return true
}

func memUsed(in *Inst) int64 { return in.S.GetServerInfo().MemoryUsed }

// checkC19: reported memory usage == accounted size of the current dataset.
func checkC19(ctx *Ctx) {
	ctx.Rule("one evaluation = one quiescent point of a seeded random command history (all value types, databases 0/1, overwrites, in-place growth, deletes, expiry through the virtual clock and the sampler, flushes, renames, restores) " +
		"at which the MemoryUsed figure reported by the server must equal the sum, over the keys currently stored, of the server's own per-key size function; zero for an empty dataset; equal again after a snapshot/AOF restore. " +
		"distinct_nontrivial = distinct (command, pre-state kind, outcome) classes of the step that preceded a checked point")
	ctx.Assume("the per-key size function (KeyData.GetMem + key overhead) is the definition of 'accounted size'; only its agreement with the running counter is checked",
		"asynchronous cache-update goroutines are awaited through the async.* hooks before every comparison")
	if ctx.Fork(8, "", ctx.Watchdog()) {
		return
	}
	quietLogs()
	n := ctx.N(1600, 12000)
	every := 1
	if !ctx.Quick() {
		every = 3
	}
	gens := allGens()
	for i := 0; i < n; i++ {
		if !ctx.Mine(i) {
			continue
		}
		ctx.SetCurrent(fmt.Sprintf("C19 program %d seed %d", i, ctx.Seed))
		c19Program(ctx, i, gens, every)
	}
	for i := 0; i < ctx.N(8, 80); i++ {
		if ctx.Mine(i) {
			c19Restore(ctx, i)
		}
	}
	for pi, pol := range []string{"allkeys-lru", "allkeys-lfu", "allkeys-random", "volatile-lfu"} {
		if ctx.Mine(pi + 4) {
			ctx.SetCurrent("C19 eviction before setExpiry " + pol)
			c19EvictBeforeExpiry(ctx, pol)
		}
	}
	for i := 0; i < ctx.N(32, 320); i++ {
		if ctx.Mine(i) {
			ctx.SetCurrent(fmt.Sprintf("C19 concurrent history %d seed %d", i, ctx.Seed))
			c19Concurrent(ctx, i)
		}
	}
}

func c19Program(ctx *Ctx, i int, gens []cmdGen, every int) {
	r := rand.New(rand.NewSource(ctx.Seed*2_000_003 + int64(i)))
	ac := &asyncCounter{}
	setHook(ac.hook)
	defer setHook(nil)
	root := mkScratch("c19p")
	defer os.RemoveAll(root)
	in, err := NewInst(InstOpts{DataDir: filepath.Join(root, "data")})
	if err != nil {
		ctx.Broken(err.Error())
		return
	}
	defer in.Close()
	u := allUniverse()
	var trace []Step
	db := 0
	steps := 40 + r.Intn(40)
	freshAt := steps/3 + r.Intn(steps/3)
	for k := 0; k < steps; k++ {
		if k == freshAt && !c19FreshCompare(ctx, in, ac, root, trace, "mid-history") {
			return
		}
		st := Step{}
		switch {
		case r.Intn(12) == 0:
			db = r.Intn(2)
			d := db
			st.DB = &d
			_ = in.S.SelectDB(db)
		case r.Intn(15) == 0:
			st.Adv = []int64{1e6, 1e9, 10e9, 100e9, 3600e9}[r.Intn(5)]
			in.Clk.Advance(st.Adv)
		case r.Intn(25) == 0:
			st.Tick = true
			for _, d := range []int{0, 1} {
				func() {
					defer func() { _ = recover() }()
					_ = in.S.VerifTickExpiry(d)
				}()
			}
		}
		argv := gens[r.Intn(len(gens))](r, &u, in.Clk.NowNs())
		if r.Intn(30) == 0 {
			argv = []string{pick(r, []string{"FLUSHDB", "FLUSHALL"})}
		}
		if id := matchFindingAny([]string{"C19"}, argv); id != "" {
			ctx.Filtered(id)
			continue
		}
		st.Argv = argv
		trace = append(trace, st)
		v, _, crash := in.Do(argv...)
		if crash != "" {
			// crashes are C01/C12..C17's business; stop this program
			ctx.Count("programs_stopped_by_crash", 1)
			return
		}
		if k%every != 0 {
			continue
		}
		if !ac.wait(5 * time.Second) {
			ctx.Inconclusive("async cache goroutines did not quiesce")
			return
		}
		got := memUsed(in)
		want, aerr := in.S.VerifAccountedSize()
		ctx.Eval(1)
		ctx.Class(fmt.Sprintf("%s|%s", argShape(argv), outcomeClass(v)))
		if aerr != nil {
			ctx.Violate(Violation{Kind: "memory", Lane: "history", What: "size function failed: " + aerr.Error(),
				Case: map[string]interface{}{"program": trace}, Key: "c19|sizefn"})
			return
		}
		if got != want {
			ctx.Violate(Violation{Kind: "memory", Lane: "history",
				What: fmt.Sprintf("after %s the server reports MemoryUsed=%d but the keys currently stored account for %d (difference %+d)", Step{Argv: argv}.String(), got, want, got-want),
				Case: map[string]interface{}{"program": trace, "program_text": progStrings(trace)}, Key: "c19|drift|" + strings.ToLower(argv[0])})
			return
		}
	}
	if !c19FreshCompare(ctx, in, ac, root, trace, "end-of-history") {
		return
	}
	// empty dataset => zero
	in.Do("FLUSHALL")
	ac.wait(5 * time.Second)
	ctx.Eval(1)
	if got := memUsed(in); got != 0 {
		ctx.Violate(Violation{Kind: "memory", Lane: "history", What: fmt.Sprintf("after FLUSHALL (empty dataset) the server reports MemoryUsed=%d", got),
			Case: map[string]interface{}{"program": trace, "program_text": progStrings(trace)}, Key: "c19|nonzero-empty"})
	}
	if i == 0 {
		ctx.Sample("history", progStrings(trace))
	}
}

// c19FreshCompare: the figure depends on the current dataset only, so a fresh server given the same
// dataset directly must report the same figure. The dataset is handed over through a snapshot (the
// restore path stores every key once, with nothing of the history); the comparison is made only when the
// fresh server's dump equals the original's exactly (keys, types, values, deadlines) - a round trip that
// changes the dataset is C03's business - and when no expired-but-uncollected entry is left (the restore
// drops those; they are collected with the server's own sampler first). Returns false after a violation.
func c19FreshCompare(ctx *Ctx, in *Inst, ac *asyncCounter, root string, trace []Step, point string) bool {
	now := in.Clk.NowNs()
	expiredPresent := func(d sugardb.VerifDumpResult) []int {
		var dbs []int
		for db, keys := range d.DBs {
			for _, v := range keys {
				if v.ExpireAt != 0 && v.ExpireAt < now {
					dbs = append(dbs, db)
					break
				}
			}
		}
		return dbs
	}
	var d sugardb.VerifDumpResult
	for tries := 0; ; tries++ {
		ac.wait(5 * time.Second)
		d = in.S.VerifDump()
		dbs := expiredPresent(d)
		if len(dbs) == 0 {
			break
		}
		if tries > 40 {
			ctx.Count("fresh_compare_skipped:expired_entries_left", 1)
			return true
		}
		for _, db := range dbs {
			func() {
				defer func() { _ = recover() }()
				_ = in.S.VerifTickExpiry(db)
			}()
		}
	}
	if !ac.wait(5 * time.Second) {
		return true
	}
	orig := memUsed(in)
	d = in.S.VerifDump()
	if len(expiredPresent(d)) > 0 {
		ctx.Count("fresh_compare_skipped:expired_entries_left", 1)
		return true
	}
	if err := in.S.VerifSnapshotSync(); err != nil {
		ctx.Count("fresh_compare_skipped:no_snapshot", 1)
		return true
	}
	fdir := filepath.Join(root, "fresh-"+point)
	if err := copyDir(in.Dir, fdir); err != nil {
		ctx.Count("fresh_compare_skipped:copy", 1)
		return true
	}
	defer os.RemoveAll(fdir)
	fresh, err := NewInst(InstOpts{DataDir: fdir, RestoreSnapshot: true, Clock: in.Clk})
	if err != nil {
		ctx.Count("fresh_compare_skipped:restore_failed", 1)
		return true
	}
	fd := fresh.S.VerifDump()
	fm := memUsed(fresh)
	fa, _ := fresh.S.VerifAccountedSize()
	fresh.Close()
	if !dumpDBsEqual(d, fd) {
		ctx.Count("fresh_compare_skipped:round_trip_differs", 1)
		if os.Getenv("VERIF_DEBUG_C19") != "" {
			for db, keys := range d.DBs {
				for k, v := range keys {
					if fv, ok := fd.DBs[db][k]; !ok || !reflect.DeepEqual(v, fv) {
						fmt.Fprintf(os.Stderr, "DIFF db%d %q: %+v  VS  %+v (present=%v)\n", db, k, v, fv, ok)
					}
				}
			}
		}
		return true
	}
	ctx.Eval(1)
	ctx.Count("fresh_compares", 1)
	ctx.Class(fmt.Sprintf("fresh-compare|%s|keys>%d", point, countKeysDump(d)/4*4))
	if fm != orig {
		ctx.Violate(Violation{Kind: "memory", Lane: "fresh-instance",
			What: fmt.Sprintf("%s: the server reports MemoryUsed=%d; a fresh server restored from a snapshot of exactly the same dataset (%d keys; dumps equal) reports %d (and accounts %d): the figure depends on the history, not on the dataset only", point, orig, countKeysDump(d), fm, fa),
			Case: map[string]interface{}{"program": trace, "program_text": progStrings(trace)}, Key: "c19|history-dependent"})
		return false
	}
	return true
}

// dumpDBsEqual: the same keys with the same types, values and deadlines in every database (a database
// without keys is the same as no database).
func dumpDBsEqual(a, b sugardb.VerifDumpResult) bool {
	if countKeysDump(a) != countKeysDump(b) {
		return false
	}
	for db, keys := range a.DBs {
		for k, v := range keys {
			if bv, ok := b.DBs[db][k]; !ok || !reflect.DeepEqual(v, bv) {
				return false
			}
		}
	}
	return true
}

// matchFindingAny matches state-independent predicates of open findings of the given properties.
func matchFindingAny(props []string, argv []string) string {
	for _, f := range loadFindings() {
		if f.Status != "open" {
			continue
		}
		for _, p := range props {
			if f.Property == p {
				if pr, ok := stepPreds[f.ID]; ok && pr(nil, modelEnvZero, argv) {
					return f.ID
				}
			}
		}
	}
	return ""
}

// c19Restore: after a snapshot restore and after an AOF restore, the reported
// figure must again equal the accounted size of the restored dataset.
func c19Restore(ctx *Ctx, i int) {
	r := rand.New(rand.NewSource(ctx.Seed*31 + int64(i)))
	root := mkScratch("c19")
	defer os.RemoveAll(root)
	dir := filepath.Join(root, "data")
	_ = os.MkdirAll(dir, 0o755)
	clk := NewVClock()
	run, err := newPRunner(dir, "always", false, false, clk)
	if err != nil {
		ctx.Broken(err.Error())
		return
	}
	populate(run, r, 30+r.Intn(30), false)
	_, _ = run.exec(pOp{Caller: "emb", Argv: []string{"@SNAP"}})
	run.close()
	for _, mode := range []string{"snapshot", "aof"} {
		in, err := NewInst(InstOpts{DataDir: dir, AOFStrategy: "always", RestoreAOF: mode == "aof", RestoreSnapshot: mode == "snapshot", Clock: clk})
		if err != nil {
			continue
		}
		time.Sleep(2 * time.Millisecond)
		got := memUsed(in)
		want, _ := in.S.VerifAccountedSize()
		in.Close()
		ctx.Eval(1)
		ctx.Class("restore|" + mode)
		if got != want {
			ctx.Violate(Violation{Kind: "memory", Lane: "restore", What: fmt.Sprintf("after a %s restore the server reports MemoryUsed=%d but the restored keys account for %d", mode, got, want),
				Case: map[string]interface{}{"mode": mode, "seed": i}, Key: "c19|restore|" + mode})
		}
	}
}

// c19Concurrent: the figure must still be a function of the dataset after a history in which writers
// overwrite, expire and delete shared keys from several goroutines while the background expiry sampler
// (1 ms period) or the asynchronous max-memory eviction removes keys underneath them (those two take the
// store lock only, not the command lock). Values are large collections, so the sizing inside a write takes
// long enough for a removal to arrive in the middle of it. Checked at quiescence, after the sampler has
// collected every expired entry: reported figure == accounted size == figure of a fresh server.
func c19Concurrent(ctx *Ctx, i int) {
	r := rand.New(rand.NewSource(ctx.Seed*7_000_003 + int64(i)))
	ac := &asyncCounter{}
	// in the eviction variants every second history lets the asynchronous cache update (and the eviction it
	// may start) of a write finish before the same command's setExpiry step begins
	holdExpiry := i%4 != 0 && (i/4)%2 == 0
	setHook(func(name string, args ...interface{}) {
		ac.hook(name, args...)
		if holdExpiry && name == "ks.setExpiry" {
			ac.wait(200 * time.Millisecond)
		}
	})
	defer setHook(nil)
	root := mkScratch("c19c")
	defer os.RemoveAll(root)
	variant := []string{"sampler", "eviction-lfu", "eviction-random", "sampler+eviction-lru"}[i%4]
	opts := InstOpts{DataDir: filepath.Join(root, "data"), Policy: "allkeys-lru", EvictionInterval: time.Millisecond, EvictionSample: 40}
	switch variant {
	case "eviction-lfu":
		opts.Policy, opts.MaxMemory, opts.EvictionInterval = "allkeys-lfu", 60_000, time.Hour
	case "eviction-random":
		opts.Policy, opts.MaxMemory, opts.EvictionInterval = "allkeys-random", 60_000, time.Hour
	case "sampler+eviction-lru":
		opts.MaxMemory = 90_000
	}
	in, err := NewInst(opts)
	if err != nil {
		ctx.Broken(err.Error())
		return
	}
	defer in.Close()
	nW, nOps, nKeys := 6, 120, 10
	var wg sync.WaitGroup
	var ops atomic.Int64
	for w := 0; w < nW; w++ {
		wg.Add(1)
		go func(w int, seed int64) {
			defer wg.Done()
			rr := rand.New(rand.NewSource(seed))
			for k := 0; k < nOps; k++ {
				key := fmt.Sprintf("ck%d", rr.Intn(nKeys))
				var argv []string
				switch rr.Intn(8) {
				case 7:
					argv = []string{"SET", key, strings.Repeat("t", 50+rr.Intn(3000)), "EXAT", "1999999999"}
				case 0:
					argv = []string{"SET", key, strings.Repeat("s", 50+rr.Intn(3000))}
				case 1, 2:
					argv = []string{"PEXPIREAT", key, "1"} // the entry stays stored until something collects it
				case 3:
					argv = []string{"RPUSH", key}
					for e := 0; e < 300+rr.Intn(1500); e++ {
						argv = append(argv, fmt.Sprintf("e%d-%d", w, e))
					}
				case 4:
					argv = []string{"HSET", key}
					for e := 0; e < 200+rr.Intn(600); e++ {
						argv = append(argv, fmt.Sprintf("f%d", e), fmt.Sprintf("v%d-%d", w, e))
					}
				case 5:
					argv = []string{"ZADD", key}
					for e := 0; e < 200+rr.Intn(600); e++ {
						argv = append(argv, strconv.Itoa(e), fmt.Sprintf("m%d-%d", w, e))
					}
				case 6:
					argv = []string{"DEL", key}
				}
				in.Do(argv...)
				ops.Add(1)
			}
		}(w, r.Int63())
	}
	wg.Wait()
	ctx.Count("concurrent_ops", ops.Load())
	// every expired entry collected, every asynchronous goroutine finished: nothing changes the dataset any more
	now := in.Clk.NowNs()
	for tries := 0; ; tries++ {
		ac.wait(5 * time.Second)
		d := in.S.VerifDump()
		left := 0
		for db, keys := range d.DBs {
			n := 0
			for _, v := range keys {
				if v.ExpireAt != 0 && v.ExpireAt < now {
					n++
				}
			}
			if n > 0 {
				left += n
				func() {
					defer func() { _ = recover() }()
					_ = in.S.VerifTickExpiry(db)
				}()
			}
		}
		if left == 0 {
			break
		}
		if tries > 200 {
			ctx.Inconclusive("concurrent lane: expired entries were not collected")
			return
		}
	}
	if !ac.wait(5 * time.Second) {
		ctx.Inconclusive("async cache goroutines did not quiesce")
		return
	}
	got := memUsed(in)
	want, aerr := in.S.VerifAccountedSize()
	got2 := memUsed(in)
	ctx.Eval(1)
	ctx.Class("concurrent|" + variant)
	if aerr != nil {
		ctx.Violate(Violation{Kind: "memory", Lane: "concurrent-" + variant,
			What: fmt.Sprintf("after %d operations from %d goroutines (%s) the store holds an entry the server's own size function cannot account for: %v; reported MemoryUsed=%d", ops.Load(), nW, variant, aerr, got),
			Case: map[string]interface{}{"variant": variant, "index": i, "seed": ctx.Seed}, Key: "c19|concurrent-unaccountable"})
		return
	}
	if aerr == nil && got == got2 && got != want {
		ctx.Violate(Violation{Kind: "memory", Lane: "concurrent-" + variant,
			What: fmt.Sprintf("after %d operations from %d goroutines on %d shared keys (large collections written over expired and evicted entries; %s) the server at rest reports MemoryUsed=%d but the %d keys stored account for %d (difference %+d)", ops.Load(), nW, nKeys, variant, got, countKeysDump(in.S.VerifDump()), want, got-want),
			Case: map[string]interface{}{"variant": variant, "index": i, "seed": ctx.Seed}, Key: "c19|concurrent-drift"})
		return
	}
	c19FreshCompare(ctx, in, ac, root, nil, "after-concurrent-"+variant)
}

// c19EvictBeforeExpiry: a small memory limit, and every SET with an expiry is held at its setExpiry step until
// the asynchronous cache update (and the eviction it starts) of its setValues step has finished - so the key
// just written may be gone when its deadline is set. After every command, at rest, the reported figure must
// equal the accounted size of what is stored, and everything stored must be accountable.
func c19EvictBeforeExpiry(ctx *Ctx, pol string) {
	ac := &asyncCounter{}
	setHook(func(name string, args ...interface{}) {
		ac.hook(name, args...)
		if name == "ks.setExpiry" {
			ac.wait(2 * time.Second)
		}
	})
	defer setHook(nil)
	in, err := NewInst(InstOpts{MaxMemory: 900, Policy: pol, EvictionInterval: time.Hour})
	if err != nil {
		ctx.Broken(err.Error())
		return
	}
	defer func() { ac.wait(10 * time.Second); time.Sleep(3 * time.Millisecond); in.Close() }()
	for k := 0; k < 40; k++ {
		argv := []string{"SET", fmt.Sprintf("eb%02d", k%12), strings.Repeat("v", 150+k), "EXAT", "1999999999"}
		if k%5 == 4 {
			argv = []string{"SET", fmt.Sprintf("eb%02d", k%12), strings.Repeat("w", 100)}
		}
		in.Do(argv...)
		if !ac.wait(10 * time.Second) {
			ctx.Inconclusive("evict-before-expiry: async cache goroutines did not quiesce")
			return
		}
		got := memUsed(in)
		want, aerr := in.S.VerifAccountedSize()
		ctx.Eval(1)
		ctx.Class("evict-before-expiry|" + pol)
		if aerr != nil || got != want {
			ctx.Violate(Violation{Kind: "memory", Lane: "evict-before-expiry-" + pol,
				What: fmt.Sprintf("policy %s, limit 900 bytes, the asynchronous eviction let run between the two steps of %s: at rest the server reports MemoryUsed=%d, the %d keys stored account for %d (size function error: %v)", pol, trunc(Step{Argv: argv}.String(), 60), got, countKeysDump(in.S.VerifDump()), want, aerr),
				Case: map[string]interface{}{"policy": pol, "step": k}, Key: "c19|evict-before-expiry"})
			return
		}
	}
}
