// Package resp is a strict, independent RESP2/RESP3 reply parser. It never
// uses the server's own (lenient) parser. Any deviation from the grammar —
// missing CRLF, wrong bulk length, trailing bytes, short arrays — is an error.
package resp

import (
	"errors"
	"fmt"
	"math"
	"strconv"
	"strings"
)

type Kind int

const (
	Simple Kind = iota
	Error
	Int
	Bulk
	Null // RESP2 $-1 / *-1 and RESP3 _
	Array
	Double
	Bool
	Map
	Set
	Push
	BigNum
	Verbatim
)

func (k Kind) String() string {
	return [...]string{"simple", "error", "int", "bulk", "null", "array", "double", "bool", "map", "set", "push", "bignum", "verbatim"}[k]
}

type Value struct {
	Kind     Kind
	Str      string // Simple, Error, Bulk, BigNum, Verbatim
	Int      int64
	Float    float64
	Bool     bool
	Elems    []Value // Array, Set, Push; Map as k,v,k,v
	NullKind byte    // '$', '*' or '_' for Null
}

var ErrIncomplete = errors.New("incomplete frame")

// Parse parses exactly one value from the start of b and returns it with the
// number of bytes consumed. ErrIncomplete means b is a proper prefix of a frame.
func Parse(b []byte) (Value, int, error) {
	return parse(b, 0)
}

// ParseAll parses b as a sequence of complete values with nothing left over.
func ParseAll(b []byte) ([]Value, error) {
	var out []Value
	for len(b) > 0 {
		v, n, err := Parse(b)
		if err != nil {
			return out, fmt.Errorf("after %d values: %w (next bytes %q)", len(out), err, trunc(b, 40))
		}
		out = append(out, v)
		b = b[n:]
	}
	return out, nil
}

// ParseOne parses b as exactly one value with no trailing bytes.
func ParseOne(b []byte) (Value, error) {
	v, n, err := Parse(b)
	if err != nil {
		return v, err
	}
	if n != len(b) {
		return v, fmt.Errorf("trailing bytes after reply: %q", trunc(b[n:], 40))
	}
	return v, nil
}

func trunc(b []byte, n int) []byte {
	if len(b) > n {
		return b[:n]
	}
	return b
}

func line(b []byte) (string, int, error) {
	for i := 0; i < len(b); i++ {
		if b[i] == '\r' {
			if i+1 >= len(b) {
				return "", 0, ErrIncomplete
			}
			if b[i+1] != '\n' {
				return "", 0, fmt.Errorf("CR not followed by LF in line %q", trunc(b, 40))
			}
			return string(b[:i]), i + 2, nil
		}
		if b[i] == '\n' {
			return "", 0, fmt.Errorf("bare LF in line %q", trunc(b, 40))
		}
	}
	return "", 0, ErrIncomplete
}

func parseLen(s string) (int64, error) {
	if s == "" {
		return 0, errors.New("empty length")
	}
	if s == "-1" {
		return -1, nil
	}
	for _, c := range s {
		if c < '0' || c > '9' {
			return 0, fmt.Errorf("bad length %q", s)
		}
	}
	return strconv.ParseInt(s, 10, 64)
}

func parse(b []byte, depth int) (Value, int, error) {
	if depth > 64 {
		return Value{}, 0, errors.New("nesting too deep")
	}
	if len(b) == 0 {
		return Value{}, 0, ErrIncomplete
	}
	t := b[0]
	l, n, err := line(b[1:])
	if err != nil {
		return Value{}, 0, err
	}
	n++ // type byte
	switch t {
	case '+':
		return Value{Kind: Simple, Str: l}, n, nil
	case '-':
		return Value{Kind: Error, Str: l}, n, nil
	case ':':
		i, err := strconv.ParseInt(l, 10, 64)
		if err != nil {
			return Value{}, 0, fmt.Errorf("bad integer %q", l)
		}
		return Value{Kind: Int, Int: i}, n, nil
	case '_':
		if l != "" {
			return Value{}, 0, fmt.Errorf("bad null %q", l)
		}
		return Value{Kind: Null, NullKind: '_'}, n, nil
	case '#':
		if l == "t" {
			return Value{Kind: Bool, Bool: true}, n, nil
		}
		if l == "f" {
			return Value{Kind: Bool, Bool: false}, n, nil
		}
		return Value{}, 0, fmt.Errorf("bad boolean %q", l)
	case ',':
		var f float64
		switch strings.ToLower(l) {
		case "inf", "+inf":
			f = math.Inf(1)
		case "-inf":
			f = math.Inf(-1)
		case "nan":
			f = math.NaN()
		default:
			f, err = strconv.ParseFloat(l, 64)
			if err != nil {
				return Value{}, 0, fmt.Errorf("bad double %q", l)
			}
		}
		return Value{Kind: Double, Float: f}, n, nil
	case '(':
		if l == "" {
			return Value{}, 0, errors.New("empty bignum")
		}
		return Value{Kind: BigNum, Str: l}, n, nil
	case '$', '=':
		ln, err := parseLen(l)
		if err != nil {
			return Value{}, 0, err
		}
		if ln == -1 {
			if t == '=' {
				return Value{}, 0, errors.New("null verbatim string")
			}
			return Value{Kind: Null, NullKind: '$'}, n, nil
		}
		if int64(len(b)-n) < ln+2 {
			return Value{}, 0, ErrIncomplete
		}
		s := string(b[n : n+int(ln)])
		if b[n+int(ln)] != '\r' || b[n+int(ln)+1] != '\n' {
			return Value{}, 0, fmt.Errorf("bulk of declared length %d not terminated by CRLF (got %q)", ln, trunc(b[n+int(ln):], 8))
		}
		k := Bulk
		if t == '=' {
			k = Verbatim
		}
		return Value{Kind: k, Str: s}, n + int(ln) + 2, nil
	case '*', '~', '>', '%':
		ln, err := parseLen(l)
		if err != nil {
			return Value{}, 0, err
		}
		if ln == -1 {
			if t != '*' {
				return Value{}, 0, errors.New("null aggregate")
			}
			return Value{Kind: Null, NullKind: '*'}, n, nil
		}
		cnt := ln
		if t == '%' {
			cnt = ln * 2
		}
		elems := make([]Value, 0, minInt(int(cnt), 1024))
		for i := int64(0); i < cnt; i++ {
			v, m, err := parse(b[n:], depth+1)
			if err != nil {
				return Value{}, 0, err
			}
			elems = append(elems, v)
			n += m
		}
		k := Array
		switch t {
		case '~':
			k = Set
		case '>':
			k = Push
		case '%':
			k = Map
		}
		return Value{Kind: k, Elems: elems}, n, nil
	}
	return Value{}, 0, fmt.Errorf("unknown type byte %q", t)
}

func minInt(a, b int) int {
	if a < b {
		return a
	}
	return b
}

// Text returns the textual payload of a scalar reply (simple, bulk, int,
// double, bignum, verbatim) and whether v is such a scalar.
func (v Value) Text() (string, bool) {
	switch v.Kind {
	case Simple, Bulk, BigNum, Verbatim:
		return v.Str, true
	case Int:
		return strconv.FormatInt(v.Int, 10), true
	case Double:
		return strconv.FormatFloat(v.Float, 'g', -1, 64), true
	case Bool:
		if v.Bool {
			return "1", true
		}
		return "0", true
	}
	return "", false
}

func (v Value) IsNull() bool  { return v.Kind == Null }
func (v Value) IsError() bool { return v.Kind == Error }

// IsSeq reports whether v is an array-like aggregate.
func (v Value) IsSeq() bool { return v.Kind == Array || v.Kind == Set || v.Kind == Push }

func (v Value) String() string {
	switch v.Kind {
	case Simple:
		return "+" + strconv.Quote(v.Str)
	case Error:
		return "-" + strconv.Quote(v.Str)
	case Int:
		return ":" + strconv.FormatInt(v.Int, 10)
	case Bulk:
		return "$" + strconv.Quote(v.Str)
	case Null:
		return "nil" + string(v.NullKind)
	case Double:
		return "," + strconv.FormatFloat(v.Float, 'g', -1, 64)
	case Bool:
		return fmt.Sprintf("#%v", v.Bool)
	case BigNum:
		return "(" + v.Str
	case Verbatim:
		return "=" + strconv.Quote(v.Str)
	}
	var sb strings.Builder
	switch v.Kind {
	case Array:
		sb.WriteString("[")
	case Set:
		sb.WriteString("~[")
	case Push:
		sb.WriteString(">[")
	case Map:
		sb.WriteString("%[")
	}
	for i, e := range v.Elems {
		if i > 0 {
			sb.WriteString(" ")
		}
		sb.WriteString(e.String())
	}
	sb.WriteString("]")
	return sb.String()
}

// Encode encodes a command as a RESP array of bulk strings.
func Encode(argv ...string) []byte {
	var sb strings.Builder
	sb.WriteString("*" + strconv.Itoa(len(argv)) + "\r\n")
	for _, a := range argv {
		sb.WriteString("$" + strconv.Itoa(len(a)) + "\r\n" + a + "\r\n")
	}
	return []byte(sb.String())
}
