package main

import (
	"encoding/json"
	"fmt"
	"os"
	"os/exec"
	"path/filepath"
	"strconv"
	"sync"
	"time"
)

// Race lane: for the properties below, a part of the check's own case list (the same cases the main
// lane runs: case i belongs to the race lane when i mod div < procs) is run a second time in child
// processes built with the Go race detector (`-race`, which also enables checkptr). The children run
// the same oracles; in addition every report of the race detector that names repository code is a
// violation (deduplicated by the innermost repository frames of the two accesses), and so is a child
// that dies. The race detector's own exit status (66) is not a crash. A watchdog firing is inconclusive.
type raceLaneCfg struct{ procs, div int }

var raceLaneConf = map[string]raceLaneCfg{
	"C02": {2, 16}, "C03": {2, 4}, "C04": {1, 1}, "C06": {2, 16}, "C08": {2, 7}, "C09": {2, 16},
	"C11": {2, 8}, "C12": {2, 16}, "C18": {2, 8}, "C19": {2, 16}, "C20": {2, 16},
}

// properties whose cases are cheap enough under the detector to double the share in the thorough tier
var raceLaneCheap = map[string]bool{"C03": true, "C08": true, "C11": true, "C18": true, "C19": true}

func inRaceLane() bool { return os.Getenv("VERIF_RACE_LANE") == "1" }

func (c *Ctx) startRaceLane(timeout time.Duration) chan struct{} {
	done := make(chan struct{})
	cfg, ok := raceLaneConf[c.Prop]
	bin := os.Getenv("VERIFD_RACE_BIN")
	if !ok || inRaceLane() || os.Getenv("VERIF_NO_RACE_LANE") != "" {
		close(done)
		return done
	}
	if bin == "" {
		c.Count("race_lane_skipped_no_race_build", 1)
		close(done)
		return done
	}
	if !c.Quick() && cfg.div > 2*cfg.procs && raceLaneCheap[c.Prop] {
		cfg.div /= 2 // the thorough tier runs a larger share under the detector where that stays within minutes
	}
	go func() {
		defer close(done)
		root := mkScratch("racelane-" + c.Prop)
		defer os.RemoveAll(root)
		raceLog := filepath.Join(root, "race")
		var wg sync.WaitGroup
		for i := 0; i < cfg.procs; i++ {
			wg.Add(1)
			go func(i int) {
				defer wg.Done()
				out := filepath.Join(root, fmt.Sprintf("race%d.json", i))
				errf := filepath.Join(root, fmt.Sprintf("race%d.err", i))
				ef, _ := os.Create(errf)
				cmd := exec.Command("timeout", "-s", "QUIT", strconv.Itoa(int(timeout.Seconds())), bin, "worker",
					"-prop", c.Prop, "-tier", c.Tier, "-seed", strconv.FormatInt(c.Seed, 10),
					"-shard", strconv.Itoa(i), "-n", strconv.Itoa(cfg.div), "-out", out)
				cmd.Env = append(os.Environ(), "VERIF_RACE_LANE=1", "GORACE=halt_on_error=0 log_path="+raceLog)
				cmd.Stdout, cmd.Stderr = ef, ef
				err := cmd.Run()
				ef.Close()
				if b, rerr := os.ReadFile(out); rerr == nil {
					var e ctxExport
					if json.Unmarshal(b, &e) == nil {
						c.mergeRaceLane(e)
					}
				}
				if err != nil {
					code := -1
					if ee, ok := err.(*exec.ExitError); ok {
						code = ee.ExitCode()
					}
					switch {
					case code == 66:
						// the race detector's exit status after reports: read from its log below
					case code == 124:
						c.Inconclusive("race lane: watchdog")
						cur, _ := os.ReadFile(out + ".current")
						saveArtefact(c.Prop, fmt.Sprintf("race-lane%d-watchdog", i), "current case: "+string(cur)+"\n"+tailFile(errf, 12000))
					default:
						cur, _ := os.ReadFile(out + ".current")
						fatal := fatalSection(errf, 6000)
						p := saveArtefact(c.Prop, "race-lane-crash", "exit status "+strconv.Itoa(code)+"\ncurrent case: "+string(cur)+"\n"+fatal+"\n[...]\n"+tailFile(errf, 8000))
						c.Violate(Violation{Kind: "crash", Lane: "race-detector", What: fmt.Sprintf("the race-build worker died (exit %d) while running case %s: %s", code, trunc(string(cur), 200), trunc(fatal, 1200)),
							Case: map[string]interface{}{"stderr": p, "current": string(cur)}, Key: "race-lane-crash|" + firstFatalLine(fatal)})
					}
				}
				c.Count("race_lane_runs", 1)
			}(i)
		}
		wg.Wait()
		n := collectRaceReports(c, raceLog, "race-lane", map[string]interface{}{"lane": "the check's own cases under -race"})
		c.Count("race_reports", int64(n))
	}()
	return done
}

// mergeRaceLane merges what a race-build child observed: its verdicts count, its volume is reported
// separately (the cases are a subset of the main lane's).
func (c *Ctx) mergeRaceLane(e ctxExport) {
	c.mu.Lock()
	defer c.mu.Unlock()
	c.counters["race_lane_evaluations"] += e.Evals
	for _, k := range e.Classes {
		c.classes[k] = struct{}{}
	}
	for k, v := range e.Counters {
		c.counters["race_lane:"+k] += v
	}
	for _, v := range e.Violations {
		if c.vioKeys[v.Key] {
			c.counters["violations_duplicate"]++
			continue
		}
		c.vioKeys[v.Key] = true
		v.Lane += " (race build)"
		if len(c.violations) < 40 {
			c.violations = append(c.violations, v)
		}
	}
	c.inconcl += e.Inconcl
	c.broken = append(c.broken, e.Broken...)
}
