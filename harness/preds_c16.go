package main

import (
	"strings"

	"verif/harness/model"
)

// Predicates of the listed findings of property C16 (see known_findings.json).

func init() {
	// C16-KF1: SDIFF / SDIFFSTORE with a well-formed argument list whose base
	// (first operand) key is absent reply with an error instead of the empty
	// difference.
	registerPred("C16-KF1", func(st *model.State, env model.Env, argv []string) bool {
		base := 0
		switch strings.ToLower(argv[0]) {
		case "sdiff":
			base = 1
		case "sdiffstore":
			base = 2
		default:
			return false
		}
		if len(argv) <= base {
			return false
		}
		return st.DBs[env.DB][argv[base]] == nil
	})
}
