package main

import (
	"bytes"
	"fmt"
	"math/rand"
	"os"
	"runtime"
	"sort"
	"strconv"
	"strings"
	"sync"
	"sync/atomic"
	"time"

	"verif/harness/model"
)

func init() {
	registerCheck("C05", "exploration", checkC05)
}

// goid returns the id of the calling goroutine (used only to tell which command goroutine hit a hook).
func goid() int64 {
	var buf [64]byte
	n := runtime.Stack(buf[:], false)
	// "goroutine 123 [running]:"
	f := bytes.Fields(buf[:n])
	if len(f) < 2 {
		return -1
	}
	id, _ := strconv.ParseInt(string(f[1]), 10, 64)
	return id
}

// c05Setup is the initial dataset of the interleaving lanes.
var c05Setup = [][]string{
	{"SET", "c", "10"}, {"SET", "s", "ab"}, {"SET", "t", "cd"},
	{"RPUSH", "l", "a", "b", "c"}, {"RPUSH", "m", "m1"},
	{"HSET", "h", "f", "1", "n", "5"},
	{"SADD", "s1", "a", "b"}, {"SADD", "s2", "c"},
	{"ZADD", "z", "1", "a", "2", "b"}, {"ZADD", "z2", "3", "b"},
}

// c05Commands: one or more instances of every write family (and the readers that observe them) on the shared keys.
func c05Commands() [][]string {
	return [][]string{
		{"INCR", "c"}, {"INCRBY", "c", "5"}, {"DECR", "c"}, {"INCRBYFLOAT", "c", "0.5"}, {"GET", "c"}, {"SET", "c", "100"}, {"SET", "c", "7", "XX"}, {"GETDEL", "c"},
		{"APPEND", "s", "x"}, {"APPEND", "s", "y"}, {"SETRANGE", "s", "0", "Z"}, {"SET", "s", "v"}, {"SET", "s", "w", "NX"}, {"STRLEN", "s"}, {"GETRANGE", "s", "0", "-1"},
		{"RENAME", "s", "t"}, {"DEL", "s", "t"}, {"MSET", "s", "1", "t", "2"}, {"MGET", "s", "t"}, {"EXPIREAT", "s", "1893459600"}, {"PERSIST", "s"}, {"TYPE", "s"},
		{"LPUSH", "l", "p"}, {"RPUSH", "l", "q"}, {"LPOP", "l"}, {"RPOP", "l"}, {"LSET", "l", "0", "z"}, {"LREM", "l", "0", "a"}, {"LTRIM", "l", "0", "0"},
		{"LMOVE", "l", "m", "LEFT", "RIGHT"}, {"LMOVE", "m", "l", "RIGHT", "LEFT"}, {"LLEN", "l"}, {"LRANGE", "l", "0", "-1"}, {"LINDEX", "l", "0"},
		{"HSET", "h", "f", "2"}, {"HSET", "h", "g", "3"}, {"HINCRBY", "h", "n", "1"}, {"HINCRBY", "h", "n", "10"}, {"HDEL", "h", "f"}, {"HSETNX", "h", "k", "9"}, {"HGETALL", "h"}, {"HLEN", "h"}, {"HGET", "h", "n"},
		{"SADD", "s1", "x"}, {"SADD", "s1", "y", "a"}, {"SREM", "s1", "a"}, {"SMOVE", "s1", "s2", "a"}, {"SMOVE", "s2", "s1", "c"}, {"SUNIONSTORE", "s3", "s1", "s2"}, {"SINTERSTORE", "s3", "s1", "s2"},
		{"SDIFFSTORE", "s1", "s1", "s2"}, {"SCARD", "s1"}, {"SMEMBERS", "s1"}, {"SISMEMBER", "s1", "a"}, {"SUNION", "s1", "s2"},
		{"ZADD", "z", "5", "x"}, {"ZADD", "z", "9", "a"}, {"ZINCRBY", "z", "2", "a"}, {"ZREM", "z", "a"}, {"ZPOPMIN", "z"}, {"ZPOPMAX", "z"}, {"ZUNIONSTORE", "z3", "z", "z2"}, {"ZINTERSTORE", "z", "z", "z2"},
		{"ZCARD", "z"}, {"ZSCORE", "z", "a"}, {"ZRANK", "z", "b"}, {"ZREMRANGEBYSCORE", "z", "0", "1"},
		{"FLUSHDB"},
	}
}

func keysOf(argv []string) map[string]bool {
	ks := map[string]bool{}
	switch strings.ToUpper(argv[0]) {
	case "FLUSHDB":
		for _, k := range []string{"c", "s", "t", "l", "m", "h", "s1", "s2", "s3", "z", "z2", "z3"} {
			ks[k] = true
		}
	case "MSET":
		for i := 1; i < len(argv); i += 2 {
			ks[argv[i]] = true
		}
	case "DEL", "MGET", "SUNION", "SUNIONSTORE", "SINTERSTORE", "SDIFFSTORE", "ZUNIONSTORE", "ZINTERSTORE":
		for _, a := range argv[1:] {
			ks[a] = true
		}
	case "RENAME", "LMOVE", "SMOVE":
		ks[argv[1]], ks[argv[2]] = true, true
	default:
		if len(argv) > 1 {
			ks[argv[1]] = true
		}
	}
	return ks
}

func overlap(a, b []string) bool {
	ka, kb := keysOf(a), keysOf(b)
	for k := range ka {
		if kb[k] {
			return true
		}
	}
	return false
}

type c05Outcome struct {
	ReplyA, ReplyB string
	State          string
}

func canonString(m map[int]map[string]string) string {
	return fmt.Sprintf("%v", m) // fmt prints maps with sorted keys
}

// c05SetupCmds is the initial dataset the interleaving helpers start from (another check may install its own).
var c05SetupCmds = c05Setup

func c05Fresh() *Inst {
	in := lightInst()
	for _, c := range c05SetupCmds {
		in.Do(c...)
	}
	return in
}

func c05Serial(first, second []string) c05Outcome {
	in := c05Fresh()
	defer in.Close()
	v1, _, c1 := in.Do(first...)
	v2, _, c2 := in.Do(second...)
	return c05Outcome{ReplyA: normOrder(first, v1.String()) + c1, ReplyB: normOrder(second, v2.String()) + c2, State: canonString(CanonDump(in.S.VerifDump(), in.Clk.NowNs()))}
}

func normReply(s string) string {
	// error texts are not compared
	if strings.HasPrefix(s, "-") {
		return "-ERR"
	}
	return s
}

// unorderedReply: commands whose reply order is not specified (hash and set iteration order).
var unorderedReply = map[string]int{"hgetall": 2, "hkeys": 1, "hvals": 1, "smembers": 1, "sunion": 1, "sinter": 1, "sdiff": 1, "mget": 0}

// normOrder renders an array reply of an unordered command with its elements (or pairs) sorted.
func normOrder(argv []string, rendered string) string {
	group := unorderedReply[strings.ToLower(argv[0])]
	if group == 0 || !strings.HasPrefix(rendered, "[") || !strings.HasSuffix(rendered, "]") {
		return rendered
	}
	parts := strings.Fields(rendered[1 : len(rendered)-1])
	var items []string
	for i := 0; i < len(parts); i += group {
		j := i + group
		if j > len(parts) {
			j = len(parts)
		}
		items = append(items, strings.Join(parts[i:j], " "))
	}
	sort.Strings(items)
	return "[" + strings.Join(items, " ") + "]"
}

// c05Paused runs A, parks it at its k-th keyspace yield point, runs B (to completion, or until it is
// observed waiting for the command lock), releases A, and returns the outcome. points = number of
// yield points A hit in total (so the caller can enumerate k).
func c05Paused(a, b []string, k int) (out c05Outcome, points int, bBlocked bool, note string) {
	in := c05Fresh()
	defer in.Close()
	var aID atomic.Int64
	var bID atomic.Int64
	var nA atomic.Int64
	parked := make(chan struct{})
	release := make(chan struct{})
	var bWaiting, bHeld atomic.Bool
	var once sync.Once
	setHook(func(name string, args ...interface{}) {
		if !strings.HasPrefix(name, "ks.") && !strings.HasPrefix(name, "cmd.lock.") {
			return
		}
		g := goid()
		if g == aID.Load() && strings.HasPrefix(name, "ks.") {
			n := int(nA.Add(1))
			if n == k {
				once.Do(func() { close(parked) })
				<-release
			}
			return
		}
		if g == bID.Load() {
			switch name {
			case "cmd.lock.wait":
				bWaiting.Store(true)
			case "cmd.lock.held":
				bHeld.Store(true)
			}
		}
	})
	defer setHook(nil)
	doneA := make(chan string, 1)
	go func() {
		aID.Store(goid())
		v, _, crash := in.Do(a...)
		doneA <- normOrder(a, v.String()) + crash
	}()
	var ra, rb string
	select {
	case <-parked:
	case ra = <-doneA:
		// A finished before reaching point k (k > number of points)
		points = int(nA.Load())
		return out, points, false, "A has fewer yield points"
	case <-time.After(20 * time.Second):
		return out, 0, false, "watchdog: A never parked"
	}
	doneB := make(chan string, 1)
	go func() {
		bID.Store(goid())
		v, _, crash := in.Do(b...)
		doneB <- normOrder(b, v.String()) + crash
	}()
	// B either completes, or is observed waiting for the command lock without getting it
	deadline := time.Now().Add(2 * time.Second)
	gotB := false
	for !gotB {
		select {
		case rb = <-doneB:
			gotB = true
		default:
			if bWaiting.Load() && !bHeld.Load() {
				// give it a moment: a lock that is free is acquired at once
				time.Sleep(300 * time.Microsecond)
				if !bHeld.Load() {
					bBlocked = true
				}
			}
			if bBlocked || time.Now().After(deadline) {
				gotB = true
				rb = ""
			} else {
				runtime.Gosched()
			}
		}
	}
	if rb == "" && !bBlocked {
		bBlocked = true // blocked somewhere else (store lock): same treatment, decided by the outcome
	}
	close(release)
	select {
	case ra = <-doneA:
	case <-time.After(20 * time.Second):
		return out, 0, bBlocked, "watchdog: A did not finish"
	}
	if rb == "" {
		select {
		case rb = <-doneB:
		case <-time.After(20 * time.Second):
			return out, 0, bBlocked, "watchdog: B did not finish"
		}
	}
	points = int(nA.Load())
	out = c05Outcome{ReplyA: ra, ReplyB: rb, State: canonString(CanonDump(in.S.VerifDump(), in.Clk.NowNs()))}
	return out, points, bBlocked, ""
}

func sameOutcome(x, y c05Outcome) bool {
	return normReply(x.ReplyA) == normReply(y.ReplyA) && normReply(x.ReplyB) == normReply(y.ReplyB) && x.State == y.State
}

func checkC05(ctx *Ctx) {
	ctx.Rule("interleaving lane: one evaluation = one execution in which command A is parked by the hook handler at its k-th keyspace step (keysExist/getExpiry/getValues/setValues/setExpiry/deleteKey/flush) while command B is started " +
		"(B completes, or is observed waiting for the command lock), for every ordered pair of command instances with overlapping keys and every k; replies and final whole-store dump must equal those of the serial order A;B or B;A run on the same build. " +
		"stress lane: free-running clients (TCP and embedded) with unique values plus SAVE/REWRITEAOF/expiry actors under the Go race detector; histories checked by porcupine (per-key register and counter models) and by conservation counts; race reports are counted from the detector's log. " +
		"distinct_nontrivial = distinct (A family, B family, k, B-blocked) interleaving classes executed plus distinct race-report / checker classes")
	ctx.Assume("interleavings inside one keyspace call are not enumerated (the race detector covers those on the executions the stress produces)",
		"'B is blocked' is an observation used to choose when to release A, never a verdict; every watchdog firing is inconclusive")
	if ctx.Fork(8, "", ctx.Watchdog()) {
		c05Stress(ctx)
		return
	}
	quietLogs()
	cmds := c05Commands()
	type pair struct{ a, b int }
	var pairs []pair
	for i := range cmds {
		for j := range cmds {
			if overlap(cmds[i], cmds[j]) {
				pairs = append(pairs, pair{i, j})
			}
		}
	}
	ctx.Extra("command_instances", len(cmds))
	ctx.Extra("overlapping_ordered_pairs", len(pairs))
	for pi, p := range pairs {
		if !ctx.Mine(pi) {
			continue
		}
		a, b := cmds[p.a], cmds[p.b]
		// quick explores every pair of two instances of the same command family (the classic lost update /
		// double delivery) and a seed-dependent third of the other pairs
		if ctx.Quick() && !strings.EqualFold(a[0], b[0]) && (pi/ctx.NShards)%3 != int(ctx.Seed)%3 {
			continue
		}
		ctx.SetCurrent(fmt.Sprintf("C05 pair A=%v B=%v", a, b))
		ab := c05Serial(a, b)
		baRaw := c05Serial(b, a)
		ba := c05Outcome{ReplyA: baRaw.ReplyB, ReplyB: baRaw.ReplyA, State: baRaw.State}
		for k := 1; k <= 12; k++ {
			out, points, blocked, note := c05Paused(a, b, k)
			if strings.HasPrefix(note, "watchdog") {
				ctx.Inconclusive(note)
				break
			}
			if note != "" || k > points {
				break
			}
			ctx.Eval(1)
			ctx.Class(fmt.Sprintf("%s|%s|k=%d|blocked=%v", strings.ToLower(a[0]), strings.ToLower(b[0]), k, blocked))
			if !sameOutcome(out, ab) && !sameOutcome(out, ba) {
				ctx.Violate(Violation{Kind: "not_serializable", Lane: "interleaving",
					What: fmt.Sprintf("A=%s parked at its keyspace step %d of %d while B=%s ran (B blocked=%v): replies (%s, %s) and final dataset match neither A;B (%s, %s) nor B;A (%s, %s); dataset: %s | A;B: %s | B;A: %s",
						Step{Argv: a}.String(), k, points, Step{Argv: b}.String(), blocked, out.ReplyA, out.ReplyB, ab.ReplyA, ab.ReplyB, ba.ReplyA, ba.ReplyB, trunc(out.State, 300), trunc(ab.State, 300), trunc(ba.State, 300)),
					Case: map[string]interface{}{"setup": c05Setup, "A": a, "B": b, "park_A_at_step": k},
					Key:  fmt.Sprintf("c05|interleave|%s|%s", strings.ToLower(a[0]), strings.ToLower(b[0]))})
				break
			}
			if pi == 0 && k == 1 {
				ctx.Sample("interleaving", map[string]interface{}{"A": a, "B": b, "parked_at_step": k, "B_blocked": blocked, "replies": []string{out.ReplyA, out.ReplyB}})
			}
		}
	}
	// triples: A parked at a keyspace step, B and C started one after the other while it is parked, then A
	// released; replies and final dataset must equal those of one of the six serial orders (same build)
	c05Triples(ctx, cmds)
	_ = model.DiffCanon
	_ = os.Getpid
}

type c05OutcomeN struct {
	Replies []string
	State   string
}

func c05SerialN(cmds [][]string, order []int) c05OutcomeN {
	in := c05Fresh()
	defer in.Close()
	out := c05OutcomeN{Replies: make([]string, len(cmds))}
	for _, i := range order {
		v, _, crash := in.Do(cmds[i]...)
		out.Replies[i] = normReply(normOrder(cmds[i], v.String()) + crash)
	}
	out.State = canonString(CanonDump(in.S.VerifDump(), in.Clk.NowNs()))
	return out
}

func permutations(n int) [][]int {
	if n == 1 {
		return [][]int{{0}}
	}
	var out [][]int
	for _, p := range permutations(n - 1) {
		for pos := 0; pos <= len(p); pos++ {
			q := append(append(append([]int{}, p[:pos]...), n-1), p[pos:]...)
			out = append(out, q)
		}
	}
	return out
}

// c05PausedN parks cmds[0] at its k-th keyspace step, starts the other commands one after the other (each is
// given time to complete or to be observed waiting), releases cmds[0] and waits for all of them.
func c05PausedN(cmds [][]string, k int) (out c05OutcomeN, points int, note string) {
	in := c05Fresh()
	defer in.Close()
	var aID atomic.Int64
	var nA atomic.Int64
	parked := make(chan struct{})
	release := make(chan struct{})
	var once sync.Once
	var waiting sync.Map // goroutine id -> true once it was seen waiting for the command lock
	setHook(func(name string, args ...interface{}) {
		g := goid()
		if g == aID.Load() && strings.HasPrefix(name, "ks.") {
			if int(nA.Add(1)) == k {
				once.Do(func() { close(parked) })
				<-release
			}
			return
		}
		if name == "cmd.lock.wait" {
			waiting.Store(g, true)
		}
	})
	defer setHook(nil)
	done := make([]chan string, len(cmds))
	for i := range done {
		done[i] = make(chan string, 1)
	}
	go func() {
		aID.Store(goid())
		v, _, crash := in.Do(cmds[0]...)
		done[0] <- normReply(normOrder(cmds[0], v.String()) + crash)
	}()
	out.Replies = make([]string, len(cmds))
	select {
	case <-parked:
	case r := <-done[0]:
		out.Replies[0] = r
		return out, int(nA.Load()), "A has fewer yield points"
	case <-time.After(20 * time.Second):
		return out, 0, "watchdog: A never parked"
	}
	got := make([]bool, len(cmds))
	for i := 1; i < len(cmds); i++ {
		i := i
		var gid atomic.Int64
		go func() {
			gid.Store(goid())
			v, _, crash := in.Do(cmds[i]...)
			done[i] <- normReply(normOrder(cmds[i], v.String()) + crash)
		}()
		// the command completes, or is seen waiting for the command lock (then the next one is started)
		deadline := time.Now().Add(2 * time.Second)
		for {
			select {
			case r := <-done[i]:
				out.Replies[i], got[i] = r, true
			default:
			}
			if got[i] {
				break
			}
			if _, w := waiting.Load(gid.Load()); w && gid.Load() != 0 {
				time.Sleep(200 * time.Microsecond)
				break
			}
			if time.Now().After(deadline) {
				break
			}
			runtime.Gosched()
		}
	}
	close(release)
	for i := range cmds {
		if got[i] {
			continue
		}
		select {
		case out.Replies[i] = <-done[i]:
		case <-time.After(20 * time.Second):
			return out, 0, fmt.Sprintf("watchdog: command %d did not finish", i)
		}
	}
	out.State = canonString(CanonDump(in.S.VerifDump(), in.Clk.NowNs()))
	return out, int(nA.Load()), ""
}

func c05Triples(ctx *Ctx, cmds [][]string) {
	n := ctx.N(240, 6000)
	perms := permutations(3)
	for t := 0; t < n; t++ {
		if !ctx.Mine(t) {
			continue
		}
		r := newRand(ctx.Seed*9_000_011 + int64(t))
		// A, and two commands that each share a key with A
		var tri [][]string
		for tries := 0; tries < 200 && tri == nil; tries++ {
			a, b, c := cmds[r.Intn(len(cmds))], cmds[r.Intn(len(cmds))], cmds[r.Intn(len(cmds))]
			if overlap(a, b) && overlap(a, c) && !strings.EqualFold(a[0], "FLUSHDB") {
				tri = [][]string{a, b, c}
			}
		}
		if tri == nil {
			continue
		}
		ctx.SetCurrent(fmt.Sprintf("C05 triple %v", tri))
		var serial []c05OutcomeN
		for _, p := range perms {
			serial = append(serial, c05SerialN(tri, p))
		}
		// one park point per triple, chosen by the PRNG among A's steps (found by a first run with k=1)
		_, points, note := c05PausedN(tri, 1)
		if strings.HasPrefix(note, "watchdog") {
			ctx.Inconclusive(note)
			continue
		}
		if points < 1 {
			continue
		}
		k := 1 + r.Intn(points)
		out, _, note := c05PausedN(tri, k)
		if strings.HasPrefix(note, "watchdog") {
			ctx.Inconclusive(note)
			continue
		}
		if note != "" {
			continue
		}
		ctx.Eval(1)
		ctx.Count("triples", 1)
		ctx.Class(fmt.Sprintf("triple|%s|%s|%s|k=%d", strings.ToLower(tri[0][0]), strings.ToLower(tri[1][0]), strings.ToLower(tri[2][0]), k))
		ok := false
		for _, s := range serial {
			if s.State == out.State && fmt.Sprint(s.Replies) == fmt.Sprint(out.Replies) {
				ok = true
				break
			}
		}
		if !ok {
			ctx.Violate(Violation{Kind: "not_serializable", Lane: "interleaving-triples",
				What: fmt.Sprintf("A=%s parked at its keyspace step %d while B=%s and then C=%s were started: replies %v and final dataset %s equal none of the six serial orders (A;B;C gives %v, %s)",
					Step{Argv: tri[0]}.String(), k, Step{Argv: tri[1]}.String(), Step{Argv: tri[2]}.String(), out.Replies, trunc(out.State, 300), serial[0].Replies, trunc(serial[0].State, 300)),
				Case: map[string]interface{}{"setup": c05Setup, "A": tri[0], "B": tri[1], "C": tri[2], "park_A_at_step": k},
				Key:  fmt.Sprintf("c05|triple|%s|%s|%s", strings.ToLower(tri[0][0]), strings.ToLower(tri[1][0]), strings.ToLower(tri[2][0]))})
		}
	}
}

func newRand(seed int64) *rand.Rand { return rand.New(rand.NewSource(seed)) }
