package main

import (
	"crypto/sha1"
	"encoding/hex"
	"encoding/json"
	"fmt"
	"os"
	"path/filepath"
	"sort"
	"strconv"
	"sync"
	"time"
)

// ---------------------------------------------------------------------------
// Check context, evidence and violations

type Violation struct {
	Property string      `json:"property"`
	Kind     string      `json:"kind"`   // short class, e.g. "reply", "state", "crash"
	Lane     string      `json:"lane"`   // which lane found it
	What     string      `json:"what"`   // human readable
	Case     interface{} `json:"case"`   // the replayable input
	Seed     int64       `json:"seed"`   // VERIF_SEED of the run
	Tier     string      `json:"tier"`   //
	Key      string      `json:"dedupe"` // dedupe key
}

type Ctx struct {
	Prop  string
	Tier  string
	Seed  int64
	Level string
	Start time.Time

	Shard, NShards int    // set in worker processes
	curFile        string // where a worker records the case it is about to run

	mu          sync.Mutex
	evals       int64
	classes     map[string]struct{}
	counters    map[string]int64
	samples     []interface{}
	sampleKeys  map[string]bool
	violations  []Violation
	vioKeys     map[string]bool
	known       map[string]int64 // finding id -> times its witness reproduced
	filtered    map[string]int64 // finding id -> candidate steps filtered
	inconcl     int64
	rule        string
	assumptions []string
	extra       map[string]interface{}
	exhaustive  bool
	broken      []string
}

func NewCtx(prop, tier string, seed int64, level string) *Ctx {
	return &Ctx{Prop: prop, Tier: tier, Seed: seed, Level: level, Start: time.Now(),
		classes: map[string]struct{}{}, counters: map[string]int64{}, sampleKeys: map[string]bool{},
		vioKeys: map[string]bool{}, known: map[string]int64{}, filtered: map[string]int64{},
		extra: map[string]interface{}{}}
}

func (c *Ctx) Quick() bool { return c.Tier != "thorough" }

// IsWorker: this process runs one shard of a check (started by Fork).
func (c *Ctx) IsWorker() bool { return c.NShards > 0 }

// Watchdog is the generous wall-clock limit of one worker process (quick runs take seconds to two
// minutes, thorough runs up to a quarter of an hour). It never decides a verdict by itself: a worker
// that exceeds it is run again, and only two firings in a row are reported, as a hang.
func (c *Ctx) Watchdog() time.Duration {
	if c.Quick() {
		return 8 * time.Minute
	}
	return 45 * time.Minute
}

// N picks the case count for the tier.
func (c *Ctx) N(quick, thorough int) int {
	if c.Quick() {
		return quick
	}
	return thorough
}

func (c *Ctx) Eval(n int64) {
	c.mu.Lock()
	c.evals += n
	c.mu.Unlock()
}

func (c *Ctx) Class(k string) {
	c.mu.Lock()
	c.classes[k] = struct{}{}
	c.mu.Unlock()
}

func (c *Ctx) Count(k string, n int64) {
	c.mu.Lock()
	c.counters[k] += n
	c.mu.Unlock()
}

func (c *Ctx) Counter(k string) int64 {
	c.mu.Lock()
	defer c.mu.Unlock()
	return c.counters[k]
}

func (c *Ctx) Filtered(id string) {
	c.mu.Lock()
	c.filtered[id]++
	c.mu.Unlock()
}

func (c *Ctx) Inconclusive(why string) {
	c.mu.Lock()
	c.inconcl++
	c.counters["inconclusive:"+why]++
	c.mu.Unlock()
}

// Sample keeps at most a few samples per sample class.
func (c *Ctx) Sample(class string, s interface{}) {
	c.mu.Lock()
	defer c.mu.Unlock()
	if c.sampleKeys[class] || len(c.samples) >= 12 {
		return
	}
	c.sampleKeys[class] = true
	c.samples = append(c.samples, map[string]interface{}{"lane": class, "case": s})
}

func (c *Ctx) Rule(r string)            { c.rule = r }
func (c *Ctx) Assume(a ...string)       { c.assumptions = append(c.assumptions, a...) }
func (c *Ctx) Extra(k string, v interface{}) {
	c.mu.Lock()
	c.extra[k] = v
	c.mu.Unlock()
}

// Broken marks the check itself as broken (a lane that observed nothing, a
// hook never reached): exit status 2.
func (c *Ctx) Broken(why string) {
	c.mu.Lock()
	c.broken = append(c.broken, why)
	c.mu.Unlock()
}

func (c *Ctx) Violate(v Violation) {
	v.Property = c.Prop
	v.Seed = c.Seed
	v.Tier = c.Tier
	if v.Key == "" {
		v.Key = v.Lane + "|" + v.Kind + "|" + v.What
	}
	c.mu.Lock()
	defer c.mu.Unlock()
	if c.vioKeys[v.Key] {
		c.counters["violations_duplicate"]++
		return
	}
	c.vioKeys[v.Key] = true
	if len(c.violations) < 40 {
		c.violations = append(c.violations, v)
	} else {
		c.counters["violations_dropped"]++
	}
}

func (c *Ctx) NViolations() int {
	c.mu.Lock()
	defer c.mu.Unlock()
	return len(c.violations)
}

// NReports counts every violation report, duplicates of an already recorded one included.
func (c *Ctx) NReports() int {
	c.mu.Lock()
	defer c.mu.Unlock()
	return len(c.violations) + int(c.counters["violations_duplicate"]) + int(c.counters["violations_dropped"])
}

func (c *Ctx) KnownReproduced(id string) {
	c.mu.Lock()
	c.known[id]++
	c.mu.Unlock()
}

func verifDir() string {
	if d := os.Getenv("VERIF_DIR"); d != "" {
		return d
	}
	return "/verif"
}

func scratchRoot() string {
	if d := os.Getenv("VERIF_SCRATCH"); d != "" {
		return d
	}
	return filepath.Join(verifDir(), ".scratch")
}

// Finish writes the evidence and replay files, prints the verdict lines and
// returns the exit status.
func (c *Ctx) Finish() int {
	c.mu.Lock()
	defer c.mu.Unlock()
	wall := time.Since(c.Start).Seconds()

	// replay files
	for i := range c.violations {
		v := c.violations[i]
		b, _ := json.MarshalIndent(v, "", " ")
		h := sha1.Sum(b)
		dir := filepath.Join(verifDir(), "replays", c.Prop)
		_ = os.MkdirAll(dir, 0o755)
		p := filepath.Join(dir, hex.EncodeToString(h[:6])+".json")
		_ = os.WriteFile(p, b, 0o644)
		fmt.Printf("VIOLATION property=%s replay=%s\n", c.Prop, p)
		fmt.Printf("  lane=%s kind=%s what=%s\n", v.Lane, v.Kind, trunc(v.What, 600))
	}

	// known findings
	for _, f := range findingsFor(c.Prop) {
		if f.Status != "open" {
			continue
		}
		if c.known[f.ID] > 0 {
			fmt.Printf("KNOWN-FINDING: property=%s %s: %s\n", c.Prop, f.ID, f.What)
		} else {
			fmt.Printf("note: listed finding %s (property %s) was not reproduced by its witness in this run\n", f.ID, c.Prop)
		}
	}

	classes := make([]string, 0, len(c.classes))
	for k := range c.classes {
		classes = append(classes, k)
	}
	sort.Strings(classes)
	cov := map[string]interface{}{
		"evaluations":               c.evals,
		"distinct_nontrivial":       len(c.classes),
		"rule":                      c.rule,
		"samples":                   c.samples,
		"counters":                  c.counters,
		"inconclusive":              c.inconcl,
		"filtered_by_known_finding": c.filtered,
		"known_findings_reproduced": c.known,
		"exhaustive":                c.exhaustive,
	}
	if len(classes) > 0 {
		n := len(classes)
		if n > 40 {
			n = 40
		}
		cov["class_examples"] = classes[:n]
	}
	for k, v := range c.extra {
		cov[k] = v
	}
	if c.samples == nil {
		cov["samples"] = []interface{}{}
	}
	ev := map[string]interface{}{
		"property_id": c.Prop,
		"tier":        c.Tier,
		"seed":        c.Seed,
		"level":       c.Level,
		"coverage":    cov,
		"assumptions": append([]string{}, c.assumptions...),
		"wall_s":      wall,
		"violations":  len(c.violations),
	}
	if len(c.broken) > 0 {
		ev["broken"] = c.broken
	}
	b, _ := json.MarshalIndent(ev, "", " ")
	_ = os.MkdirAll(filepath.Join(verifDir(), "evidence"), 0o755)
	_ = os.WriteFile(filepath.Join(verifDir(), "evidence", c.Prop+".json"), b, 0o644)

	fmt.Printf("%s %s seed=%d: evaluations=%d distinct=%d violations=%d inconclusive=%d wall=%.1fs\n",
		c.Prop, c.Tier, c.Seed, c.evals, len(c.classes), len(c.violations), c.inconcl, wall)
	if len(c.violations) > 0 {
		return 1
	}
	if len(c.broken) > 0 {
		for _, b := range c.broken {
			fmt.Printf("BROKEN-CHECK: %s\n", b)
		}
		return 2
	}
	return 0
}

func trunc(s string, n int) string {
	if len(s) > n {
		return s[:n] + "…(" + strconv.Itoa(len(s)) + " bytes)"
	}
	return s
}

// parallel runs f(i) for i in [0,n) on up to w goroutines.
func parallel(n, w int, f func(i int)) {
	if w > n {
		w = n
	}
	if w < 1 {
		w = 1
	}
	var wg sync.WaitGroup
	ch := make(chan int, 64)
	for g := 0; g < w; g++ {
		wg.Add(1)
		go func() {
			defer wg.Done()
			for i := range ch {
				f(i)
			}
		}()
	}
	for i := 0; i < n; i++ {
		ch <- i
	}
	close(ch)
	wg.Wait()
}
