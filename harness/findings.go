package main

import (
	"encoding/json"
	"os"
	"path/filepath"
	"sync"

	"verif/harness/model"
)

// A listed finding: a genuine defect of the code under test that was recorded
// rather than repaired. The JSON file /verif/known_findings.json (committed,
// never written at run time) says which findings are listed; the predicate that
// recognises the inputs exercising exactly that defect lives here, keyed by id.
type Finding struct {
	ID       string   `json:"id"`
	Property string   `json:"property"`
	Status   string   `json:"status"` // open | fixed
	What     string   `json:"what"`
	Witness  []Step   `json:"witness,omitempty"`
	FilterIn []string `json:"filter_in,omitempty"` // other properties whose generators must avoid it too
	Commit   string   `json:"commit,omitempty"`
	Commands []string `json:"commands,omitempty"` // the commands a call-site finding is reachable through
}

type findingsFile struct {
	Findings []Finding `json:"findings"`
	Fixed    []string  `json:"fixed"`
}

var (
	findingsOnce sync.Once
	findings     []Finding
)

func loadFindings() []Finding {
	findingsOnce.Do(func() {
		b, err := os.ReadFile(filepath.Join(verifDir(), "known_findings.json"))
		if err != nil {
			return
		}
		var f findingsFile
		if err := json.Unmarshal(b, &f); err != nil {
			panic("known_findings.json: " + err.Error())
		}
		findings = f.Findings
	})
	return findings
}

func findingsFor(prop string) []Finding {
	var out []Finding
	for _, f := range loadFindings() {
		if f.Property == prop {
			out = append(out, f)
		}
	}
	return out
}

// StepPred recognises the steps that exercise a listed defect, given the
// reference state before the step.
type StepPred func(st *model.State, env model.Env, argv []string) bool

var stepPreds = map[string]StepPred{}

func registerPred(id string, p StepPred) { stepPreds[id] = p }

// matchFinding returns the id of an open listed finding whose predicate
// matches the step, for lanes of property prop.
func matchFinding(prop string, st *model.State, env model.Env, argv []string) string {
	for _, f := range loadFindings() {
		if f.Status != "open" {
			continue
		}
		applies := f.Property == prop
		for _, p := range f.FilterIn {
			if p == prop || p == "*" {
				applies = true
			}
		}
		if !applies {
			continue
		}
		if p, ok := stepPreds[f.ID]; ok && p(st, env, argv) {
			return f.ID
		}
	}
	return ""
}

func findingOpen(id string) bool {
	for _, f := range loadFindings() {
		if f.ID == id {
			return f.Status == "open"
		}
	}
	return false
}

// runWitnesses replays the witness program of every open finding of the
// property: still failing -> KNOWN-FINDING line; otherwise a note.
func runWitnesses(ctx *Ctx, mk func() *Inst) {
	for _, f := range findingsFor(ctx.Prop) {
		if f.Status != "open" || len(f.Witness) == 0 {
			continue
		}
		v, _ := RunProgram(ctx, "witness:"+f.ID, mk, f.Witness, true)
		if v != nil {
			ctx.KnownReproduced(f.ID)
		}
		ctx.Eval(1)
	}
}
