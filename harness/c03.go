package main

import (
	"fmt"
	"math/rand"
	"os"
	"path/filepath"
	"sync"
	"sync/atomic"
	"time"

	"verif/harness/model"
)

func init() {
	registerCheck("C03", "exploration", checkC03)
}

func checkC03(ctx *Ctx) {
	ctx.Rule("one evaluation = one snapshot round trip (dataset built by a seeded random write history over all value types, databases and deadlines; snapshot by the synchronous engine call or by the asynchronous SAVE command; more writes; " +
		"restore into a fresh instance after a clock move) whose whole canonical dump must equal the dump taken at the snapshot instant minus the keys whose deadline has passed at restore time, with LASTSAVE equal to the snapshot time; " +
		"plus automatic-trigger cases decided on observed ticker fires. distinct_nontrivial = distinct (lane, snapshot mode, generation, clock move, value types present, databases present) tuples")
	ctx.Assume("virtual clock for deadlines and snapshot names", "the automatic trigger uses a real ticker: the verdict counts observed ticks (hook event), a watchdog firing is inconclusive")
	if ctx.Fork(8, "", ctx.Watchdog()) {
		return
	}
	quietLogs()
	n := ctx.N(240, 1600)
	for i := 0; i < n; i++ {
		if !ctx.Mine(i) {
			continue
		}
		ctx.SetCurrent(fmt.Sprintf("C03 round trip %d seed %d", i, ctx.Seed))
		c03RoundTrip(ctx, i)
	}
	cases := 0
	for _, thr := range []uint64{1, 5, 50} {
		for _, extra := range []int{0, 1, int(thr) + 3} {
			for _, spread := range []bool{false, true} {
				if spread && thr == 1 {
					continue
				}
				if ctx.Mine(cases) {
					ctx.SetCurrent(fmt.Sprintf("C03 auto trigger threshold %d extra %d spread %v", thr, extra, spread))
					c03Auto(ctx, thr, int(thr)+extra, spread)
				}
				cases++
			}
		}
	}
}

func typesPresent(d map[int]map[string]string) string {
	seen := map[byte]bool{}
	for _, db := range d {
		for _, v := range db {
			if len(v) > 0 {
				seen[v[0]] = true
			}
		}
	}
	s := ""
	for _, c := range []byte("slhSz") {
		if seen[c] {
			s += string(c)
		}
	}
	return fmt.Sprintf("%s/dbs=%d", s, len(d))
}

func c03RoundTrip(ctx *Ctx, i int) {
	r := rand.New(rand.NewSource(ctx.Seed*5_000_011 + int64(i)))
	root := mkScratch("c03")
	defer os.RemoveAll(root)
	dir := filepath.Join(root, "data")
	_ = os.MkdirAll(dir, 0o755)
	clk := NewVClock()
	run, err := newPRunner(dir, "no", false, false, clk)
	if err != nil {
		ctx.Broken("C03: cannot start instance: " + err.Error())
		return
	}
	var script []string
	gens := 1 + i%3
	async := i%4 == 1
	for g := 0; g < gens; g++ {
		script = append(script, populate(run, r, 8+r.Intn(30), true)...)
		clk.Advance(int64(1+r.Intn(2000)) * 1e6)
		snapMs := clk.NowNs() / 1e6
		// snapshot
		mode := "sync"
		var res string
		if async {
			mode = "SAVE"
			done := make(chan struct{}, 4)
			var once sync.Once
			setHook(func(name string, args ...interface{}) {
				if name == "snap.end" {
					once.Do(func() { done <- struct{}{} })
				}
			})
			v, _, crash := run.in.Do("SAVE")
			if crash != "" || v.IsError() {
				res = "err: " + v.String() + crash
			} else {
				select {
				case <-done:
					res = "ok"
				case <-time.After(20 * time.Second):
					setHook(nil)
					ctx.Inconclusive("SAVE did not finish within the watchdog")
					run.close()
					return
				}
			}
			setHook(nil)
			time.Sleep(2 * time.Millisecond) // finishSnapshot runs right after snap.end
		} else {
			res, _ = run.exec(pOp{Caller: "emb", Argv: []string{"@SNAP"}})
		}
		script = append(script, fmt.Sprintf("@%s at %d -> %s", mode, snapMs, res))
		atSnap := run.in.S.VerifDump()
		ls := lastSave(run.in)
		if res != "ok" {
			// nothing new / failure: not a round-trip case
			ctx.Count("snapshot_not_taken", 1)
			continue
		}
		ctx.Eval(1)
		if want := fmt.Sprintf(":%d", snapMs); ls != want {
			ctx.Violate(Violation{Kind: "lastsave", Lane: "roundtrip", What: fmt.Sprintf("LASTSAVE after a snapshot taken at %s reports %s", want, ls),
				Case: map[string]interface{}{"script": script}, Key: "c03|lastsave-after-save"})
		}
		// more writes that must not be in the restored dataset
		script = append(script, populate(run, r, 1+r.Intn(6), true)...)
		// restart after a clock move
		move := []int64{0, 1e6, 999e6, 1e9, 30e9, 101e9, 3600e9, 6000e9}[r.Intn(8)]
		rclk := NewVClock()
		rclk.Set(clk.NowNs() + move)
		d, rd, rerr := restoreSnapDump(dir, rclk, nil)
		os.RemoveAll(rd.dir)
		want := CanonDump(atSnap, rclk.NowNs())
		ctx.Class(fmt.Sprintf("roundtrip|%s|gen%d|move=%ds|%s", mode, g, move/1e9, typesPresent(want)))
		if rerr != nil {
			ctx.Violate(Violation{Kind: "restore", Lane: "roundtrip", What: "restore failed: " + rerr.Error(),
				Case: map[string]interface{}{"script": script}, Key: "c03|restore-failed"})
		} else {
			if diff := model.DiffCanon(want, d); diff != "" {
				ctx.Violate(Violation{Kind: "state", Lane: "roundtrip",
					What: fmt.Sprintf("restored dataset differs from the dataset at the snapshot (clock moved by %d ms before the restart): %s", move/1e6, diff),
					Case: map[string]interface{}{"script": script, "clock_move_ms": move / 1e6}, Key: "c03|state|" + firstDiffKind(diff)})
			}
			if wantLS := fmt.Sprintf(":%d", snapMs); rd.lastSave != wantLS {
				ctx.Violate(Violation{Kind: "lastsave", Lane: "roundtrip", What: fmt.Sprintf("LASTSAVE after restoring the snapshot taken at %s reports %s", wantLS, rd.lastSave),
					Case: map[string]interface{}{"script": script}, Key: "c03|lastsave-after-restore"})
			}
		}
		if i == 0 && g == 0 {
			ctx.Sample("roundtrip", map[string]interface{}{"script": script, "restored_keys": countKeys(d)})
		}
	}
	run.close()
}

func countKeys(d map[int]map[string]string) int {
	n := 0
	for _, db := range d {
		n += len(db)
	}
	return n
}

// firstDiffKind classifies a diff by the type letters involved, for deduplication.
func firstDiffKind(diff string) string {
	for _, t := range []string{"want S:", "want z:", "want l:", "want h:", "want s:", "want <absent>"} {
		if idx := indexOf(diff, t); idx >= 0 {
			return t
		}
	}
	return "other"
}

func indexOf(s, sub string) int {
	for i := 0; i+len(sub) <= len(s); i++ {
		if s[i:i+len(sub)] == sub {
			return i
		}
	}
	return -1
}

// c03Auto: with threshold thr and a 25 ms interval, after `writes` (>= thr)
// single-key writes an automatic snapshot must exist within a few ticker fires.
// With spread, the writes are issued in groups smaller than the threshold, each group followed by an
// observed ticker fire, so the threshold is reached by accumulation over several intervals.
func c03Auto(ctx *Ctx, thr uint64, writes int, spread bool) {
	root := mkScratch("c03auto")
	defer os.RemoveAll(root)
	dir := filepath.Join(root, "data")
	_ = os.MkdirAll(dir, 0o755)
	clk := NewVClock()
	var ticks, ends atomic.Int64
	var armed atomic.Bool
	setHook(func(name string, args ...interface{}) {
		if !armed.Load() {
			return
		}
		switch name {
		case "snap.tick":
			ticks.Add(1)
		case "snap.end":
			ends.Add(1)
		}
	})
	defer setHook(nil)
	in, err := NewInst(InstOpts{DataDir: dir, AOFStrategy: "no", Clock: clk, SnapshotInterval: 25 * time.Millisecond, SnapThreshold: thr})
	if err != nil {
		ctx.Broken("C03 auto: " + err.Error())
		return
	}
	group := writes
	if spread {
		group = int(thr) / 3
		if group < 1 {
			group = 1
		}
		armed.Store(true)
	}
	for w := 0; w < writes; w++ {
		in.Do("SET", fmt.Sprintf("k%d", w), "v")
		if spread && (w+1)%group == 0 && w+1 < writes {
			// wait for the next ticker fire before the next group
			t0 := ticks.Load()
			dl := time.Now().Add(20 * time.Second)
			for ticks.Load() == t0 && time.Now().Before(dl) {
				time.Sleep(2 * time.Millisecond)
			}
			if ticks.Load() == t0 {
				ctx.Inconclusive("auto-trigger: no ticker fire observed within the watchdog")
				in.Close()
				return
			}
		}
	}
	want := CanonDump(in.S.VerifDump(), clk.NowNs())
	ticks.Store(0)
	armed.Store(true)
	deadline := time.Now().Add(20 * time.Second)
	for ticks.Load() < 4 && time.Now().Before(deadline) {
		time.Sleep(5 * time.Millisecond)
	}
	armed.Store(false)
	ctx.Eval(1)
	ctx.Class(fmt.Sprintf("auto|threshold=%d|writes=%d|spread=%v", thr, writes, spread))
	if ticks.Load() < 4 {
		ctx.Inconclusive("auto-trigger: fewer than 4 ticks observed within the watchdog")
		in.Close()
		return
	}
	time.Sleep(30 * time.Millisecond) // let a snapshot started by the last observed tick finish
	ls := lastSave(in)
	in.Close()
	c := map[string]interface{}{"threshold": thr, "writes": writes, "ticks_observed": ticks.Load(), "interval_ms": 25, "writes_spread_over_intervals": spread}
	if ls == "none" {
		ctx.Violate(Violation{Kind: "auto_trigger", Lane: "auto", What: fmt.Sprintf("threshold %d, %d writes accumulated, %d ticker fires observed afterwards: no automatic snapshot was taken", thr, writes, ticks.Load()),
			Case: c, Key: fmt.Sprintf("c03|auto|none|%v|%v", uint64(writes) == thr, spread)})
		return
	}
	d, rd, rerr := restoreSnapDump(dir, clk, nil)
	os.RemoveAll(rd.dir)
	// A ticker fire in the middle of the writes may already have found the threshold reached: the latest
	// snapshot then holds a prefix k0..k(j-1) of the writes with j >= threshold, and fewer than
	// threshold writes came after it (or another snapshot was due).
	okPrefix := false
	if rerr == nil {
		j := countKeys(d)
		pre := map[int]map[string]string{}
		for k, v := range want[0] {
			var idx int
			fmt.Sscanf(k, "k%d", &idx)
			if idx < j {
				if pre[0] == nil {
					pre[0] = map[string]string{}
				}
				pre[0][k] = v
			}
		}
		okPrefix = uint64(j) >= thr && uint64(writes-j) < thr && canonEq(pre, d)
		c["restored_prefix_length"] = j
	}
	if rerr != nil || !okPrefix {
		ctx.Violate(Violation{Kind: "auto_trigger", Lane: "auto", What: fmt.Sprintf("the latest automatic snapshot does not restore a state of the dataset at which a snapshot was due and after which none was: %v %s", rerr, model.DiffCanon(want, d)),
			Case: c, Key: "c03|auto|restore"})
	}
	ctx.Sample("auto", c)
}
