package main

import (
	"fmt"
	"math/rand"
	"os"
	"path/filepath"
	"strings"
	"sync"
	"sync/atomic"
	"time"

	"verif/harness/model"
)

func init() {
	registerCheck("C03", "exploration", checkC03)
}

func checkC03(ctx *Ctx) {
	ctx.Rule("one evaluation = one snapshot round trip (dataset built by a seeded random write history over all value types, databases and deadlines; snapshot by the synchronous engine call or by the asynchronous SAVE command; more writes; " +
		"restore into a fresh instance after a clock move) whose whole canonical dump must equal the dump taken at the snapshot instant minus the keys whose deadline has passed at restore time, with LASTSAVE equal to the snapshot time; " +
		"plus automatic-trigger cases decided on observed ticker fires. distinct_nontrivial = distinct (lane, snapshot mode, generation, clock move, value types present, databases present) tuples")
	ctx.Assume("virtual clock for deadlines and snapshot names", "the automatic trigger uses a real ticker: the verdict counts observed ticks (hook event), a watchdog firing is inconclusive")
	if ctx.Fork(8, "", ctx.Watchdog()) {
		return
	}
	quietLogs()
	n := ctx.N(240, 1600)
	for i := 0; i < n; i++ {
		if !ctx.Mine(i) {
			continue
		}
		ctx.SetCurrent(fmt.Sprintf("C03 round trip %d seed %d", i, ctx.Seed))
		c03RoundTrip(ctx, i)
	}
	for i := 0; i < ctx.N(48, 480); i++ {
		if ctx.Mine(i) {
			ctx.SetCurrent(fmt.Sprintf("C03 one-instant %d seed %d", i, ctx.Seed))
			c03Instant(ctx, i)
		}
	}
	for ci, cmd := range c03MidCommands {
		if !ctx.Mine(ci + 2) {
			continue
		}
		for k := 1; k <= 10; k++ {
			ctx.SetCurrent(fmt.Sprintf("C03 snapshot in the middle of %v step %d", cmd, k))
			if points := c03MidCommand(ctx, ci, cmd, k); k >= points {
				break
			}
		}
	}
	cases := 0
	for _, thr := range []uint64{1, 5, 50} {
		for _, extra := range []int{0, 1, int(thr) + 3} {
			for _, spread := range []bool{false, true} {
				if spread && thr == 1 {
					continue
				}
				if ctx.Mine(cases) {
					ctx.SetCurrent(fmt.Sprintf("C03 auto trigger threshold %d extra %d spread %v", thr, extra, spread))
					c03Auto(ctx, thr, int(thr)+extra, spread, false)
				}
				cases++
			}
		}
	}
	// writes that arrive while an automatic snapshot is being written count towards the next one
	for _, thr := range []uint64{1, 5, 50} {
		if ctx.Mine(cases) {
			ctx.SetCurrent(fmt.Sprintf("C03 auto trigger threshold %d, threshold writes during the snapshot", thr))
			c03Auto(ctx, thr, int(thr), false, true)
		}
		cases++
	}
}

func typesPresent(d map[int]map[string]string) string {
	seen := map[byte]bool{}
	for _, db := range d {
		for _, v := range db {
			if len(v) > 0 {
				seen[v[0]] = true
			}
		}
	}
	s := ""
	for _, c := range []byte("slhSz") {
		if seen[c] {
			s += string(c)
		}
	}
	return fmt.Sprintf("%s/dbs=%d", s, len(d))
}

func c03RoundTrip(ctx *Ctx, i int) {
	r := rand.New(rand.NewSource(ctx.Seed*5_000_011 + int64(i)))
	root := mkScratch("c03")
	defer os.RemoveAll(root)
	dir := filepath.Join(root, "data")
	_ = os.MkdirAll(dir, 0o755)
	clk := NewVClock()
	run, err := newPRunner(dir, "no", false, false, clk)
	if err != nil {
		ctx.Broken("C03: cannot start instance: " + err.Error())
		return
	}
	var script []string
	gens := 1 + i%3
	async := i%4 == 1
	for g := 0; g < gens; g++ {
		script = append(script, populate(run, r, 8+r.Intn(30), true)...)
		clk.Advance(int64(1+r.Intn(2000)) * 1e6)
		snapMs := clk.NowNs() / 1e6
		// snapshot
		mode := "sync"
		var res string
		if async {
			mode = "SAVE"
			done := make(chan struct{}, 4)
			var once sync.Once
			setHook(func(name string, args ...interface{}) {
				if name == "snap.end" {
					once.Do(func() { done <- struct{}{} })
				}
			})
			v, _, crash := run.in.Do("SAVE")
			if crash != "" || v.IsError() {
				res = "err: " + v.String() + crash
			} else {
				select {
				case <-done:
					res = "ok"
				case <-time.After(20 * time.Second):
					setHook(nil)
					ctx.Inconclusive("SAVE did not finish within the watchdog")
					run.close()
					return
				}
			}
			setHook(nil)
			time.Sleep(2 * time.Millisecond) // finishSnapshot runs right after snap.end
		} else {
			res, _ = run.exec(pOp{Caller: "emb", Argv: []string{"@SNAP"}})
		}
		script = append(script, fmt.Sprintf("@%s at %d -> %s", mode, snapMs, res))
		atSnap := run.in.S.VerifDump()
		ls := lastSave(run.in)
		if res != "ok" {
			// nothing new / failure: not a round-trip case
			ctx.Count("snapshot_not_taken", 1)
			continue
		}
		ctx.Eval(1)
		if want := fmt.Sprintf(":%d", snapMs); ls != want {
			ctx.Violate(Violation{Kind: "lastsave", Lane: "roundtrip", What: fmt.Sprintf("LASTSAVE after a snapshot taken at %s reports %s", want, ls),
				Case: map[string]interface{}{"script": script}, Key: "c03|lastsave-after-save"})
		}
		// more writes that must not be in the restored dataset
		script = append(script, populate(run, r, 1+r.Intn(6), true)...)
		// restart after a clock move
		move := []int64{0, 1e6, 999e6, 1e9, 30e9, 101e9, 3600e9, 6000e9}[r.Intn(8)]
		rclk := NewVClock()
		rclk.Set(clk.NowNs() + move)
		d, rd, rerr := restoreSnapDump(dir, rclk, nil)
		os.RemoveAll(rd.dir)
		want := CanonDump(atSnap, rclk.NowNs())
		ctx.Class(fmt.Sprintf("roundtrip|%s|gen%d|move=%ds|%s", mode, g, move/1e9, typesPresent(want)))
		if rerr != nil {
			ctx.Violate(Violation{Kind: "restore", Lane: "roundtrip", What: "restore failed: " + rerr.Error(),
				Case: map[string]interface{}{"script": script}, Key: "c03|restore-failed"})
		} else {
			if diff := model.DiffCanon(want, d); diff != "" {
				ctx.Violate(Violation{Kind: "state", Lane: "roundtrip",
					What: fmt.Sprintf("restored dataset differs from the dataset at the snapshot (clock moved by %d ms before the restart): %s", move/1e6, diff),
					Case: map[string]interface{}{"script": script, "clock_move_ms": move / 1e6}, Key: "c03|state|" + firstDiffKind(diff)})
			}
			if wantLS := fmt.Sprintf(":%d", snapMs); rd.lastSave != wantLS {
				ctx.Violate(Violation{Kind: "lastsave", Lane: "roundtrip", What: fmt.Sprintf("LASTSAVE after restoring the snapshot taken at %s reports %s", wantLS, rd.lastSave),
					Case: map[string]interface{}{"script": script}, Key: "c03|lastsave-after-restore"})
			}
		}
		if i == 0 && g == 0 {
			ctx.Sample("roundtrip", map[string]interface{}{"script": script, "restored_keys": countKeys(d)})
		}
	}
	run.close()
}

func countKeys(d map[int]map[string]string) int {
	n := 0
	for _, db := range d {
		n += len(db)
	}
	return n
}

// firstDiffKind classifies a diff by the type letters involved, for deduplication.
func firstDiffKind(diff string) string {
	for _, t := range []string{"want S:", "want z:", "want l:", "want h:", "want s:", "want <absent>"} {
		if idx := indexOf(diff, t); idx >= 0 {
			return t
		}
	}
	return "other"
}

func indexOf(s, sub string) int {
	for i := 0; i+len(sub) <= len(s); i++ {
		if s[i:i+len(sub)] == sub {
			return i
		}
	}
	return -1
}

// c03Auto: with threshold thr and a 25 ms interval, after `writes` (>= thr)
// single-key writes an automatic snapshot must exist within a few ticker fires.
// With spread, the writes are issued in groups smaller than the threshold, each group followed by an
// observed ticker fire, so the threshold is reached by accumulation over several intervals.
func c03Auto(ctx *Ctx, thr uint64, writes int, spread bool, during bool) {
	root := mkScratch("c03auto")
	defer os.RemoveAll(root)
	dir := filepath.Join(root, "data")
	_ = os.MkdirAll(dir, 0o755)
	clk := NewVClock()
	// Only the ticks of THIS instance's engine count: the ticker goroutine of an engine is never stopped, so
	// the engines of earlier cases of this process keep ticking (the event carries the engine's directory).
	var ticks, ends, dueRun, restRun atomic.Int64
	var armed atomic.Bool
	var duringOnce sync.Once
	atCopy, copyGo := make(chan struct{}, 1), make(chan struct{})
	setHook(func(name string, args ...interface{}) {
		if !armed.Load() {
			return
		}
		switch name {
		case "snap.tick":
			if len(args) < 3 {
				return
			}
			if d, _ := args[2].(string); d != dir {
				return
			}
			cnt, _ := args[0].(uint64)
			th, _ := args[1].(uint64)
			if cnt >= th {
				dueRun.Add(1)
				restRun.Store(0)
			} else {
				restRun.Add(1)
				dueRun.Store(0)
			}
			ticks.Add(1)
		case "snap.end":
			ends.Add(1)
		case "snap.state_copied":
			if during {
				duringOnce.Do(func() { atCopy <- struct{}{}; <-copyGo })
			}
		}
	})
	defer setHook(nil)
	in, err := NewInst(InstOpts{DataDir: dir, AOFStrategy: "no", Clock: clk, SnapshotInterval: 25 * time.Millisecond, SnapThreshold: thr})
	if err != nil {
		ctx.Broken("C03 auto: " + err.Error())
		return
	}
	group := writes
	if spread {
		group = int(thr) / 3
		if group < 1 {
			group = 1
		}
		armed.Store(true)
	}
	// with spread, every third case reuses a few key names, so that most writes replace a value by one of
	// the same size (a write is a write, whether or not it changes the size of the dataset)
	distinct := writes
	if spread && (writes+int(thr))%3 == 0 {
		distinct = 3
	}
	var states []map[int]map[string]string // dataset after each write
	for w := 0; w < writes; w++ {
		in.Do("SET", fmt.Sprintf("k%d", w%distinct), fmt.Sprintf("v%04d", w))
		states = append(states, CanonDump(in.S.VerifDump(), clk.NowNs()))
		if spread && (w+1)%group == 0 && w+1 < writes {
			// wait for the next ticker fire before the next group
			t0 := ticks.Load()
			dl := time.Now().Add(20 * time.Second)
			for ticks.Load() == t0 && time.Now().Before(dl) {
				time.Sleep(2 * time.Millisecond)
			}
			if ticks.Load() == t0 {
				ctx.Inconclusive("auto-trigger: no ticker fire observed within the watchdog")
				in.Close()
				return
			}
		}
	}
	if during {
		// the first automatic snapshot is held right after its state copy while `thr` further writes are
		// acknowledged; they are not in that snapshot, so they are due for the next one
		armed.Store(true)
		select {
		case <-atCopy:
			for w := writes; w < writes+int(thr); w++ {
				in.Do("SET", fmt.Sprintf("k%d", w), fmt.Sprintf("v%04d", w))
				states = append(states, CanonDump(in.S.VerifDump(), clk.NowNs()))
			}
			writes += int(thr)
			close(copyGo)
		case <-time.After(60 * time.Second):
			close(copyGo)
			ctx.Inconclusive("auto-trigger: no automatic snapshot reached its state copy within the watchdog")
			in.Close()
			return
		}
	}
	want := CanonDump(in.S.VerifDump(), clk.NowNs())
	ticks.Store(0)
	dueRun.Store(0)
	restRun.Store(0)
	armed.Store(true)
	// The ticker goroutine takes a due snapshot synchronously, so a later tick of the same engine means the
	// earlier tick's snapshot is finished. The instance is at rest when two consecutive ticks found nothing
	// due; a snapshot that is due at twelve consecutive ticks and never taken is the failure. No elapsed
	// time decides anything; the watchdog makes the case inconclusive.
	deadline := time.Now().Add(90 * time.Second)
	for restRun.Load() < 2 && dueRun.Load() < 12 && time.Now().Before(deadline) {
		time.Sleep(5 * time.Millisecond)
	}
	armed.Store(false)
	ctx.Eval(1)
	ctx.Class(fmt.Sprintf("auto|threshold=%d|writes=%d|spread=%v|overwrites=%v|writes-during-snapshot=%v", thr, writes, spread, distinct < writes, during))
	if restRun.Load() < 2 && dueRun.Load() < 12 {
		ctx.Inconclusive("auto-trigger: the instance did not come to rest within the watchdog")
		in.Close()
		return
	}
	if dueRun.Load() >= 12 {
		ctx.Violate(Violation{Kind: "auto_trigger", Lane: "auto", What: fmt.Sprintf("threshold %d, %d writes: the write count was at or above the threshold at %d consecutive ticker fires of this server and the counter never came down (no snapshot was completed)", thr, writes, dueRun.Load()),
			Case: map[string]interface{}{"threshold": thr, "writes": writes, "interval_ms": 25, "last_save": lastSave(in)}, Key: "c03|auto|due-never-taken"})
		in.Close()
		return
	}
	ls := lastSave(in)
	in.Close()
	c := map[string]interface{}{"threshold": thr, "writes": writes, "ticks_observed": ticks.Load(), "interval_ms": 25, "writes_spread_over_intervals": spread}
	if ls == "none" {
		ctx.Violate(Violation{Kind: "auto_trigger", Lane: "auto", What: fmt.Sprintf("threshold %d, %d writes accumulated, %d ticker fires observed afterwards: no automatic snapshot was taken", thr, writes, ticks.Load()),
			Case: c, Key: fmt.Sprintf("c03|auto|none|%v|%v", uint64(writes) == thr, spread)})
		return
	}
	d, rd, rerr := restoreSnapDump(dir, clk, nil)
	os.RemoveAll(rd.dir)
	// A ticker fire in the middle of the writes may already have found the threshold reached: the latest
	// snapshot then holds the dataset after the first j writes with j >= threshold, and fewer than
	// threshold writes came after it (or another snapshot was due).
	okPrefix := false
	if rerr == nil {
		for j := len(states); j >= 1; j-- {
			if canonEq(states[j-1], d) {
				okPrefix = uint64(j) >= thr && uint64(writes-j) < thr
				c["restored_state_after_write"] = j
				break
			}
		}
	}
	c["distinct_keys"] = distinct
	c["threshold_writes_acknowledged_during_the_first_snapshot"] = during
	if rerr != nil || !okPrefix {
		ctx.Violate(Violation{Kind: "auto_trigger", Lane: "auto", What: fmt.Sprintf("the latest automatic snapshot does not restore a state of the dataset at which a snapshot was due and after which none was: %v %s", rerr, model.DiffCanon(want, d)),
			Case: c, Key: "c03|auto|restore"})
	}
	ctx.Sample("auto", c)
}


// c03Instant: a snapshot captures the dataset "as of one instant", also when clients write while it is
// being taken. The hook handler lets a client run in-place updates of every stored collection (LSET, LREM,
// RPUSH, HSET of an existing field, HDEL, SADD, SREM, ZADD of an existing member, ZREM, APPEND) and create a
// marker key at the point where the snapshot has copied the state but not yet written it (a schedule any
// client can produce: nothing is locked there). Restoring the snapshot must give the dataset as it was
// before those writes, or as it was after all of them - never a mixture.
func c03Instant(ctx *Ctx, i int) {
	r := rand.New(rand.NewSource(ctx.Seed*5_000_077 + int64(i)))
	root := mkScratch("c03i")
	defer os.RemoveAll(root)
	dir := filepath.Join(root, "data")
	_ = os.MkdirAll(dir, 0o755)
	clk := NewVClock()
	run, err := newPRunner(dir, "no", false, false, clk)
	if err != nil {
		ctx.Broken("C03: cannot start instance: " + err.Error())
		return
	}
	defer run.close()
	in := run.in
	script := populate(run, r, 10+r.Intn(25), false)
	// collections built element by element, so that their backing storage has spare room
	_ = in.S.SelectDB(0)
	for e := 0; e < 5; e++ {
		in.Do("RPUSH", "inst:l", fmt.Sprintf("e%d", e))
		in.Do("HSET", "inst:h", fmt.Sprintf("f%d", e), "v")
		in.Do("SADD", "inst:s", fmt.Sprintf("m%d", e))
		in.Do("ZADD", "inst:z", fmt.Sprint(e), fmt.Sprintf("m%d", e))
	}
	in.Do("RPOP", "inst:l")
	clk.Advance(int64(1+r.Intn(2000)) * 1e6)
	before := in.S.VerifDump()
	d0 := CanonDump(before, clk.NowNs())
	var writes []string
	var once sync.Once
	done := make(chan struct{}, 1)
	mutate := func() {
		for db, keys := range before.DBs {
			_ = in.S.SelectDB(db)
			for k, v := range keys {
				var cmds [][]string
				switch v.Type {
				case "list":
					if len(v.List) > 0 {
						cmds = [][]string{{"LSET", k, "0", "CHANGED"}, {"LREM", k, "0", v.List[len(v.List)-1]}}
					}
					cmds = append(cmds, []string{"RPUSH", k, "NEW"})
				case "hash":
					for f := range v.Hash {
						cmds = append(cmds, []string{"HSET", k, f, "CHANGED"})
						break
					}
					cmds = append(cmds, []string{"HSET", k, "NEWFIELD", "x"})
				case "set":
					if len(v.Set) > 0 {
						cmds = append(cmds, []string{"SREM", k, v.Set[0]})
					}
					cmds = append(cmds, []string{"SADD", k, "NEWMEMBER"})
				case "zset":
					if len(v.ZSet) > 0 {
						cmds = append(cmds, []string{"ZADD", k, "12345", v.ZSet[0].Member})
					}
					cmds = append(cmds, []string{"ZADD", k, "-7", "NEWMEMBER"})
				case "string":
					cmds = append(cmds, []string{"APPEND", k, "+changed"})
				case "int":
					cmds = append(cmds, []string{"INCR", k})
				}
				for _, c := range cmds {
					in.Do(c...)
					writes = append(writes, fmt.Sprintf("[db %d] %s", db, Step{Argv: c}.String()))
				}
			}
		}
		_ = in.S.SelectDB(0)
		in.Do("SET", "inst:marker", "1")
	}
	async := i%3 == 1
	setHook(func(name string, args ...interface{}) {
		switch name {
		case "snap.state_copied":
			once.Do(mutate)
		case "snap.end":
			select {
			case done <- struct{}{}:
			default:
			}
		}
	})
	mode := "sync"
	var res string
	if async {
		mode = "SAVE"
		v, _, crash := in.Do("SAVE")
		if crash != "" || v.IsError() {
			res = "err: " + v.String() + crash
		} else {
			select {
			case <-done:
				res = "ok"
			case <-time.After(60 * time.Second):
				setHook(nil)
				ctx.Inconclusive("one-instant lane: SAVE did not finish within the watchdog")
				return
			}
		}
	} else {
		res, _ = run.exec(pOp{Caller: "emb", Argv: []string{"@SNAP"}})
	}
	setHook(nil)
	if res != "ok" || len(writes) == 0 {
		ctx.Count("one_instant_not_taken", 1)
		return
	}
	time.Sleep(2 * time.Millisecond)
	d1 := CanonDump(in.S.VerifDump(), clk.NowNs())
	d, rd, rerr := restoreSnapDump(dir, clk, nil)
	os.RemoveAll(rd.dir)
	ctx.Eval(1)
	ctx.Count("one_instant_writes_during_snapshot", int64(len(writes)))
	ctx.Class(fmt.Sprintf("one-instant|%s|%s", mode, typesPresent(d0)))
	if rerr != nil {
		ctx.Violate(Violation{Kind: "restore", Lane: "one-instant", What: "restore of a snapshot taken while a client was writing failed: " + rerr.Error(),
			Case: map[string]interface{}{"script": script, "writes_during_snapshot": writes}, Key: "c03|instant|restore-failed"})
		return
	}
	if !canonEq(d0, d) && !canonEq(d1, d) {
		ctx.Violate(Violation{Kind: "mixture", Lane: "one-instant",
			What: fmt.Sprintf("a client ran %d in-place updates between the snapshot's state copy and its write-out (%s); the restored dataset is neither the dataset before them nor the dataset after all of them: against the dataset before: %s", len(writes), mode, trunc(model.DiffCanon(d0, d), 500)),
			Case: map[string]interface{}{"script": script, "writes_during_snapshot": writes}, Key: "c03|instant|mixture"})
	}
	if i == 1 {
		ctx.Sample("one-instant", map[string]interface{}{"mode": mode, "writes_during_snapshot": head(writes, 12)})
	}
}

// c03MidCommand: a snapshot is requested while a multi-step write command (RENAME, LMOVE, SMOVE, a STORE
// form, SET with an expiry, MSET, GETDEL ...) is parked at one of its keyspace steps. The snapshot either
// waits for the command (then the command is released first) or completes while it is parked; either way the
// restored dataset must be the dataset before the command or the dataset after it - a snapshot holding the
// source AND the destination of a RENAME, or a value without its deadline, is no instant of the dataset.
func c03MidCommand(ctx *Ctx, ci int, cmd []string, k int) (points int) {
	root := mkScratch("c03m")
	defer os.RemoveAll(root)
	dir := filepath.Join(root, "data")
	_ = os.MkdirAll(dir, 0o755)
	clk := NewVClock()
	in, err := NewInst(InstOpts{DataDir: dir, AOFStrategy: "no", Clock: clk})
	if err != nil {
		ctx.Broken("C03 mid-command: " + err.Error())
		return 0
	}
	defer in.Close()
	for _, c := range [][]string{{"RPUSH", "l", "a", "b", "c"}, {"EXPIREAT", "l", "1999999999"}, {"RPUSH", "m", "m1"}, {"SADD", "s1", "a", "b"}, {"SADD", "s2", "c"},
		{"SET", "c", "10"}, {"SET", "str", "v", "EXAT", "1999999998"}, {"ZADD", "z", "1", "a", "2", "b"}, {"ZADD", "z2", "3", "b"}, {"HSET", "h", "f", "1"}} {
		in.Do(c...)
	}
	in.Do("SET", "opener", "v")
	before := CanonDump(in.S.VerifDump(), clk.NowNs())
	var aID, openerID atomic.Int64
	var nA atomic.Int64
	parked, release := make(chan struct{}), make(chan struct{})
	openerParked, openerRelease, queued := make(chan struct{}), make(chan struct{}), make(chan struct{})
	var once, onceO, onceQ sync.Once
	setHook(func(name string, args ...interface{}) {
		g := goid()
		switch {
		case strings.HasPrefix(name, "ks.") && g == openerID.Load():
			onceO.Do(func() { close(openerParked); <-openerRelease })
		case name == "cmd.lock.wait" && g == aID.Load():
			onceQ.Do(func() { close(queued) })
		case strings.HasPrefix(name, "ks.") && g == aID.Load():
			if int(nA.Add(1)) == k {
				once.Do(func() { close(parked) })
				<-release
			}
		}
	})
	defer setHook(nil)
	// In every second case the command under test starts while another write command holds the command lock
	// (parked at its first keyspace step) and runs as soon as that one has finished: a command that had to
	// queue behind another one is as much in progress as one that did not.
	if ci%2 == 1 || k%2 == 0 {
		go func() {
			openerID.Store(goid())
			in.Do("SET", "opener", "v")
		}()
		select {
		case <-openerParked:
		case <-time.After(20 * time.Second):
			close(openerRelease)
			ctx.Inconclusive("mid-command: the opening command never reached its step")
			return 0
		}
	} else {
		close(openerRelease)
	}
	aDone := make(chan struct{})
	go func() {
		aID.Store(goid())
		in.Do(cmd...)
		close(aDone)
	}()
	select {
	case <-queued:
	case <-time.After(100 * time.Millisecond):
	}
	select {
	case <-openerRelease:
	default:
		time.Sleep(2 * time.Millisecond) // the queued command is at (or on its way to) the lock: steering only
		close(openerRelease)
	}
	select {
	case <-parked:
	case <-aDone:
		return int(nA.Load()) // fewer steps than k
	case <-time.After(20 * time.Second):
		close(release)
		ctx.Inconclusive("mid-command: the command never reached its step")
		return 0
	}
	sDone := make(chan error, 1)
	go func() { sDone <- in.S.VerifSnapshotSync() }()
	var serr error
	overtook := false
	select {
	case serr = <-sDone:
		overtook = true // the snapshot was taken while the command was parked
		close(release)
	case <-time.After(150 * time.Millisecond):
		close(release) // the snapshot is waiting for the command (steering only: decides nothing)
		select {
		case serr = <-sDone:
		case <-time.After(60 * time.Second):
			ctx.Inconclusive("mid-command: the snapshot did not finish within the watchdog")
			return int(nA.Load())
		}
	}
	select {
	case <-aDone:
	case <-time.After(60 * time.Second):
		ctx.Inconclusive("mid-command: the command did not finish within the watchdog")
		return int(nA.Load())
	}
	setHook(nil)
	after := CanonDump(in.S.VerifDump(), clk.NowNs())
	if serr != nil {
		ctx.Count("mid_command_snapshot_not_taken", 1)
		return int(nA.Load())
	}
	d, rd, rerr := restoreSnapDump(dir, clk, nil)
	os.RemoveAll(rd.dir)
	ctx.Eval(1)
	ctx.Class(fmt.Sprintf("mid-command|%s|step=%d|snapshot-overtook=%v", strings.ToLower(cmd[0]), k, overtook))
	if rerr != nil || (!canonEq(before, d) && !canonEq(after, d)) {
		ctx.Violate(Violation{Kind: "mixture", Lane: "mid-command",
			What: fmt.Sprintf("a snapshot was requested while %s was at its keyspace step %d (the snapshot completed before the command was released: %v); the restored dataset is neither the dataset before the command nor the dataset after it: %v against before: %s | against after: %s", Step{Argv: cmd}.String(), k, overtook, rerr, trunc(model.DiffCanon(before, d), 300), trunc(model.DiffCanon(after, d), 300)),
			Case: map[string]interface{}{"command": cmd, "parked_at_step": k}, Key: "c03|mid-command|" + strings.ToLower(cmd[0])})
	}
	return int(nA.Load())
}

var c03MidCommands = [][]string{
	{"RENAME", "l", "fresh"}, {"RENAME", "str", "c"}, {"LMOVE", "l", "m", "LEFT", "RIGHT"}, {"SMOVE", "s1", "s2", "a"}, {"SUNIONSTORE", "s3", "s1", "s2"},
	{"SET", "new", "v", "EX", "100"}, {"SET", "c", "11", "PX", "5000"}, {"MSET", "c", "1", "new2", "2"}, {"GETDEL", "c"}, {"ZUNIONSTORE", "z3", "z", "z2"},
	{"GETEX", "str", "PERSIST"}, {"EXPIRE", "c", "100"}, {"DEL", "l", "m", "c"}, {"FLUSHDB"},
}
