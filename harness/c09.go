package main

import (
	"fmt"
	"math/rand"
	"os"
	"path/filepath"
	"strings"
	"sync"
	"sync/atomic"
	"time"

	"verif/harness/model"
)

func init() {
	registerCheck("C09", "fault_enumeration", checkC09)
}

var c09Points = map[string]bool{
	"rewrite.begin": true, "rewrite.between": true, "rewrite.end": true,
	"preamble.after_state": true, "preamble.after_truncate": true, "preamble.after_write": true, "preamble.after_sync": true,
	"aof.trunc.begin": true, "aof.trunc.after_truncate": true, "aof.trunc.after_select": true, "aof.trunc.after_sync": true,
	"cmd.after_handler": true, "cmd.after_log": true, "aof.write.after_select": true, "aof.write.after_cmd": true,
}

// windows of the rewrite in which a crash is a listed finding
var c09W1 = map[string]bool{"preamble.after_truncate": true} // old preamble gone, new one not written
var c09W2 = map[string]bool{"preamble.after_write": true, "preamble.after_sync": true, "rewrite.between": true, "aof.trunc.begin": true}

func nonIdempotent(argv []string) bool {
	if len(argv) == 0 {
		return false
	}
	switch strings.ToLower(argv[0]) {
	case "incr", "decr", "incrby", "decrby", "incrbyfloat", "append", "rpush", "lpush", "rpushx", "lpushx", "lpop", "rpop",
		"hincrby", "hincrbyfloat", "zincrby", "getdel", "rename", "lmove", "smove", "spop", "zpopmin", "zpopmax", "zmpop",
		"setrange", "lrem", "ltrim", "lset", "zadd", "sunionstore", "sinterstore", "sdiffstore", "expire", "pexpire", "expireat",
		"pexpireat", "persist", "getex", "set", "mset", "del", "hset", "hsetnx", "hdel", "sadd", "srem", "zrem", "flushdb":
		// replaying a whole log segment on top of a state that already contains it is not a no-op as
		// soon as the segment is order-sensitive (SET a 1; DEL a; ... replays fine, but a segment with
		// a conditional or relative command does not); every write is conservatively treated as such
		return true
	}
	return false
}

func checkC09(ctx *Ctx) {
	ctx.Rule("one evaluation = one data-directory image (at a failpoint between the file operations of a log rewrite or of a logged write, or derived by cutting preamble.bin / the freshly truncated log at a byte offset) " +
		"restored with AOF restore into a fresh instance and compared with the dumps recorded after each acknowledged command: it must be the prefix state the statement allows " +
		"(everything acknowledged before the rewrite began, nothing duplicated or re-typed). distinct_nontrivial = distinct (image kind, failpoint, rewrite ordinal, policy, command in flight) tuples decided")
	ctx.Assume("process death = directory image at the failpoint", "virtual clock", "writer/rewrite interleavings are produced by parking the rewrite at a failpoint while a writer runs to completion")
	if ctx.Fork(8, "", ctx.Watchdog()) {
		return
	}
	quietLogs()
	if ctx.Shard == 0 {
		c09Witnesses(ctx)
	}
	nw := ctx.N(30, 120)
	for wi := 0; wi < nw; wi++ {
		if !ctx.Mine(wi) {
			continue
		}
		r := rand.New(rand.NewSource(ctx.Seed*3_000_017 + int64(wi)))
		policy := []string{"always", "everysec", "no"}[wi%3]
		n := 8 + r.Intn(10)
		if !ctx.Quick() {
			n = 10 + r.Intn(40)
		}
		w := genWorkload(r, fmt.Sprintf("rw%d", wi), policy, n, BaseTimeNs)
		// insert rewrites: first workload shapes are systematic (rewrite first, rewrite twice in a row, ...)
		var ops []pOp
		rw := pOp{Caller: "emb", Argv: []string{"REWRITEAOF"}}
		switch wi % 5 {
		case 0:
			ops = append([]pOp{rw}, w.Ops...) // rewrite on a fresh log
			ops = append(ops, rw)
		case 1:
			ops = append(ops, w.Ops[:len(w.Ops)/2]...)
			ops = append(ops, rw, rw) // twice in a row
			ops = append(ops, w.Ops[len(w.Ops)/2:]...)
		case 2:
			// compact a non-empty dataset, empty it completely, compact again (the second preamble must be empty)
			ops = append(ops, w.Ops[:len(w.Ops)/2]...)
			ops = append(ops, rw)
			if r.Intn(2) == 0 {
				ops = append(ops, pOp{Caller: "emb", Argv: []string{"FLUSHALL"}})
			} else {
				for _, db := range pDBs {
					db := db
					ops = append(ops, pOp{Caller: "emb", SelDB: &db}, pOp{Caller: "emb", Argv: []string{"DEL", "k1", "k2", "k3", "k4", "k5"}})
				}
			}
			ops = append(ops, rw)
			if r.Intn(2) == 0 {
				ops = append(ops, w.Ops[len(w.Ops)/2:]...)
				ops = append(ops, rw)
			}
		default:
			for _, o := range w.Ops {
				ops = append(ops, o)
				if r.Intn(5) == 0 {
					c := rw
					if r.Intn(2) == 0 {
						c.Caller = "t1"
					}
					ops = append(ops, c)
				}
			}
			ops = append(ops, rw)
		}
		w.Ops = ops
		ctx.SetCurrent(fmt.Sprintf("C09 workload %s policy %s seed %d", w.Name, policy, ctx.Seed))
		c09Workload(ctx, w, wi)
	}
	// rewrite at every position of short workloads (exhaustive positions)
	if ctx.Mine(1) {
		r := rand.New(rand.NewSource(ctx.Seed*11 + 5))
		base := genWorkload(r, "pos", "always", ctx.N(6, 12), BaseTimeNs)
		for pos := 0; pos <= len(base.Ops); pos++ {
			w := pWorkload{Name: fmt.Sprintf("pos%d", pos), Policy: "always"}
			w.Ops = append(w.Ops, base.Ops[:pos]...)
			w.Ops = append(w.Ops, pOp{Caller: "emb", Argv: []string{"REWRITEAOF"}})
			w.Ops = append(w.Ops, base.Ops[pos:]...)
			c09Workload(ctx, w, 1000+pos)
		}
	}
	for i := 0; i < ctx.N(24, 160); i++ {
		if ctx.Mine(i + 5) {
			ctx.SetCurrent(fmt.Sprintf("C09 generations case %d", i))
			c09Generations(ctx, i)
		}
	}
	for i := 0; i < ctx.N(16, 60); i++ {
		if ctx.Mine(i + 3) {
			ctx.SetCurrent(fmt.Sprintf("C09 concurrent writer case %d", i))
			c09Concurrent(ctx, i)
		}
	}
	for i := 0; i < ctx.N(12, 60); i++ {
		if ctx.Mine(i + 1) {
			ctx.SetCurrent(fmt.Sprintf("C09 cross-database writer case %d", i))
			c09CrossDatabase(ctx, i)
		}
	}
}

func isRewrite(op pOp) bool { return len(op.Argv) == 1 && strings.EqualFold(op.Argv[0], "rewriteaof") }

func c09Workload(ctx *Ctx, w pWorkload, wi int) {
	clk := NewVClock()
	rec := runInstrumented(w, clk, c09Points, true)
	defer rec.cleanup()
	if rec.Err != "" {
		ctx.Violate(Violation{Kind: "crash", Lane: "rewrite-run", What: "workload did not complete: " + rec.Err,
			Case: map[string]interface{}{"workload": w}, Key: "rewrite-run|" + trunc(rec.Err, 80)})
		return
	}
	for p, n := range rec.Hits {
		ctx.Count("hits:"+p, int64(n))
	}
	clk.Advance(500e6)
	// per op: ordinal of the rewrite, and whether the log segment since the previous rewrite holds writes
	rewriteOrd := make([]int, len(w.Ops))
	segWrites := make([]bool, len(w.Ops))
	prevNonEmpty := make([]bool, len(w.Ops)) // dataset at the previous rewrite was non-empty
	ord, seg, lastNonEmpty := 0, false, false
	for i, op := range w.Ops {
		if isRewrite(op) {
			ord++
			rewriteOrd[i] = ord
			segWrites[i] = seg
			prevNonEmpty[i] = lastNonEmpty
			seg = false
			if i < len(rec.States) {
				lastNonEmpty = len(rec.States[i]) > 0
			}
		} else if nonIdempotent(op.Argv) {
			seg = true
		}
	}
	lastBegin := map[int]int64{}
	for ii, img := range rec.Images {
		k := img.Op
		inRewrite := k < len(w.Ops) && isRewrite(w.Ops[k]) && img.Point != "ack"
		d, dir, err := restoreDump(img.Dir, w.Policy, clk, true, false, nil)
		ctx.Eval(1)
		lo, hi := k-1, k
		if img.Point == "ack" {
			lo = k
		}
		cmd := "-"
		if k < len(w.Ops) && len(w.Ops[k].Argv) > 0 {
			cmd = strings.ToLower(w.Ops[k].Argv[0])
		}
		kind := "process_death"
		ctx.Class(fmt.Sprintf("%s|%s|rewrite#%d|%s|%s", kind, img.Point, rewriteOrd[min(k, len(w.Ops)-1)], w.Policy, cmd))
		bad := ""
		if err != nil {
			bad = "restore failed: " + err.Error()
		} else if whichState(d, rec.States, lo, hi) == -2 {
			any := whichState(d, rec.States, -1, len(rec.States)-1)
			var want map[int]map[string]string
			if hi >= 0 && hi < len(rec.States) {
				want = rec.States[hi]
			}
			bad = fmt.Sprintf("restored dataset is neither S_%d nor S_%d (equals S_%d; -2 = no acknowledged prefix at all): %s", lo, hi, any, model.DiffCanon(want, d))
		}
		if bad != "" {
			known := ""
			if inRewrite && c09W1[img.Point] && prevNonEmpty[k] && findingOpen("C09-KF1") {
				known = "C09-KF1"
			}
			if inRewrite && c09W2[img.Point] && segWrites[k] && findingOpen("C09-KF2") {
				known = "C09-KF2"
			}
			if known != "" {
				ctx.Filtered(known)
			} else {
				ctx.Violate(Violation{Kind: kind, Lane: "rewrite-" + kind,
					What: fmt.Sprintf("image at %s of op %d (%s), policy %s, rewrite #%d: %s", img.Point, k, w.Ops[min(k, len(w.Ops)-1)].String(), w.Policy, rewriteOrd[min(k, len(w.Ops)-1)], bad),
					Case: map[string]interface{}{"workload": w, "failpoint": img.Point, "op_index": k, "hit": img.Hit},
					Key:  fmt.Sprintf("rewrite|%s|%s|%v|%v", kind, img.Point, inRewrite, cmd)})
			}
		} else if ii%11 == 0 || (inRewrite && img.Point != "rewrite.begin") {
			if what := reDurable(dir, w.Policy, clk, int64(wi*1000+ii)); what != "" {
				ctx.Violate(Violation{Kind: "redurable", Lane: "rewrite-redurable", What: fmt.Sprintf("after recovering from the image at %s: %s", img.Point, what),
					Case: map[string]interface{}{"workload": w, "failpoint": img.Point, "op_index": k}, Key: "rewrite|redurable|" + img.Point})
			}
			ctx.Eval(1)
			ctx.Count("redurable_histories", 1)
		}
		os.RemoveAll(dir)

		// torn families
		if inRewrite && img.Point == "preamble.after_write" && img.PreSize > 0 {
			// the preamble is rewritten in place: a crash while it is being written leaves a prefix of it.
			// With a previous non-empty preamble this is the listed finding C09-KF1; on the first rewrite
			// the log still holds everything, so any cut must restore S_{k-1}.
			step := int64(1)
			if ctx.Quick() {
				step = 1 + img.PreSize/24
			}
			for cut := int64(0); cut < img.PreSize; cut += step {
				cut := cut
				d2, dir2, err := restoreDump(img.Dir, w.Policy, clk, true, false, func(dir string) error { return truncateFile(preamblePath(dir), cut) })
				os.RemoveAll(dir2)
				ctx.Eval(1)
				ctx.Count("torn_preamble_images", 1)
				if err != nil || whichState(d2, rec.States, k-1, k) == -2 {
					// a non-empty proper prefix of the preamble does not parse: restore gives up before the log is replayed
					if (prevNonEmpty[k] || cut > 0) && findingOpen("C09-KF1") {
						ctx.Filtered("C09-KF1")
						continue
					}
					ctx.Violate(Violation{Kind: "torn", Lane: "rewrite-torn", What: fmt.Sprintf("preamble cut at byte %d of %d during rewrite #%d (op %d): restored dataset is not S_%d (err=%v)", cut, img.PreSize, rewriteOrd[k], k, k-1, err),
						Case: map[string]interface{}{"workload": w, "cut": cut, "op_index": k}, Key: "rewrite|torn-preamble"})
				}
			}
			ctx.Class(fmt.Sprintf("torn_preamble|rewrite#%d|%s", rewriteOrd[k], w.Policy))
		}
		if inRewrite && img.Point == "aof.trunc.after_truncate" {
			lastBegin[k] = img.LogSize
		}
		if inRewrite && img.Point == "aof.trunc.after_select" {
			b0 := lastBegin[k]
			for cut := b0; cut < img.LogSize; cut++ {
				cut := cut
				d3, dir3, err := restoreDump(img.Dir, w.Policy, clk, true, false, func(dir string) error { return truncateFile(logPath(dir), cut) })
				ctx.Eval(1)
				ctx.Count("torn_header_images", 1)
				if err != nil || whichState(d3, rec.States, k, k) == -2 {
					ctx.Violate(Violation{Kind: "torn", Lane: "rewrite-torn", What: fmt.Sprintf("database header of the truncated log cut at byte %d of %d during rewrite #%d (op %d): restored dataset is not S_%d (err=%v)", cut, img.LogSize, rewriteOrd[k], k, k, err),
						Case: map[string]interface{}{"workload": w, "cut": cut, "op_index": k}, Key: "rewrite|torn-header"})
				} else if cut%3 == 0 {
					if what := reDurable(dir3, w.Policy, clk, cut); what != "" {
						ctx.Violate(Violation{Kind: "redurable", Lane: "rewrite-redurable", What: fmt.Sprintf("after recovering from a log header cut at byte %d: %s", cut, what),
							Case: map[string]interface{}{"workload": w, "cut": cut, "op_index": k}, Key: "rewrite|redurable|torn-header"})
					}
					ctx.Eval(1)
				}
				os.RemoveAll(dir3)
			}
			ctx.Class(fmt.Sprintf("torn_header|rewrite#%d|%s", rewriteOrd[k], w.Policy))
		}
	}
	ctx.Count("images", int64(len(rec.Images)))
	if wi == 0 {
		ops := make([]string, 0, len(w.Ops))
		for _, o := range w.Ops {
			ops = append(ops, o.String())
		}
		ctx.Sample("rewrite-workload", map[string]interface{}{"policy": w.Policy, "ops": ops, "images": len(rec.Images)})
	}
}

// c09Concurrent parks the rewrite at each of its failpoints while a writer
// runs a non-idempotent command to completion, then lets the rewrite finish;
// images are taken when the writer has been acknowledged and at the end. The
// restored dataset must contain every acknowledged write exactly once.
func c09Concurrent(ctx *Ctx, i int) {
	parkPoints := []string{"rewrite.begin", "preamble.after_state", "preamble.after_truncate", "preamble.after_write", "preamble.after_sync",
		"rewrite.between", "aof.trunc.begin", "aof.trunc.after_sync"}
	point := parkPoints[i%len(parkPoints)]
	writers := [][]string{{"INCR", "cnt"}, {"RPUSH", "lst", "e"}, {"APPEND", "str", "x"}, {"SADD", "set", "new"}, {"SET", "fresh", "v"}}
	wcmd := writers[(i/len(parkPoints))%len(writers)]
	root := mkScratch("c09c")
	defer os.RemoveAll(root)
	dir := root + "/data"
	_ = os.MkdirAll(dir, 0o755)
	clk := NewVClock()
	run, err := newPRunner(dir, "always", false, false, clk)
	if err != nil {
		ctx.Broken("C09 concurrent: " + err.Error())
		return
	}
	defer run.close()
	for _, c := range [][]string{{"SET", "cnt", "10"}, {"RPUSH", "lst", "a", "b"}, {"SET", "str", "s"}, {"SADD", "set", "m"}, {"REWRITEAOF"}, {"INCR", "cnt"}, {"HSET", "h", "f", "v"}} {
		if _, err := run.exec(pOp{Caller: "emb", Argv: c}); err != nil {
			ctx.Broken("C09 concurrent setup: " + err.Error())
			return
		}
	}
	parked := make(chan struct{})
	release := make(chan struct{})
	hit := false
	setHook(func(name string, args ...interface{}) {
		if name == point && !hit {
			hit = true
			close(parked)
			<-release
		}
	})
	done := make(chan string, 1)
	go func() {
		v, _, crash := run.in.Do("REWRITEAOF")
		done <- v.String() + crash
	}()
	var wres string
	select {
	case <-parked:
		// the writer runs while the rewrite is parked; the AOF store mutex may make it wait for the
		// rewrite (then it is released first): give it a bounded real-time chance, decide nothing on it
		wdone := make(chan string, 1)
		go func() {
			v, _, crash := run.in.Do(wcmd...)
			wdone <- v.String() + crash
		}()
		select {
		case wres = <-wdone:
			close(release)
		case <-time.After(300 * time.Millisecond):
			close(release)
			wres = <-wdone
		}
	case <-time.After(20 * time.Second):
		setHook(nil)
		ctx.Inconclusive("rewrite never reached " + point)
		return
	}
	rres := <-done
	setHook(nil)
	want := run.canon()
	ctx.Eval(1)
	ctx.Class(fmt.Sprintf("concurrent|%s|%s", point, strings.ToLower(wcmd[0])))
	clk.Advance(500e6)
	d, rdir, rerr := restoreDump(dir, "always", clk, true, false, nil)
	os.RemoveAll(rdir)
	if rerr != nil || !canonEq(want, d) {
		lost := point != "rewrite.begin" && point != "aof.trunc.after_sync"
		if lost && findingOpen("C09-KF3") {
			ctx.Filtered("C09-KF3")
			return
		}
		ctx.Violate(Violation{Kind: "concurrent", Lane: "rewrite-concurrent",
			What: fmt.Sprintf("writer %v acknowledged (%s) while the rewrite was parked at %s (rewrite replied %s): after a restart the dataset differs: %v %s", wcmd, wres, point, rres, rerr, model.DiffCanon(want, d)),
			Case: map[string]interface{}{"park_point": point, "writer": wcmd}, Key: "rewrite|concurrent|" + point})
	}
}

func c09Witnesses(ctx *Ctx) {
	type wit struct {
		id    string
		ops   [][]string
		point string
	}
	for _, wt := range []wit{
		{"C09-KF1", [][]string{{"SET", "a", "1"}, {"REWRITEAOF"}, {"SET", "b", "2"}, {"REWRITEAOF"}}, "preamble.after_truncate"},
		{"C09-KF2", [][]string{{"INCR", "a"}, {"REWRITEAOF"}}, "rewrite.between"},
	} {
		if !findingOpen(wt.id) {
			continue
		}
		clk := NewVClock()
		w := pWorkload{Name: "witness-" + wt.id, Policy: "always"}
		for _, o := range wt.ops {
			w.Ops = append(w.Ops, pOp{Caller: "emb", Argv: o})
		}
		rec := runInstrumented(w, clk, map[string]bool{wt.point: true}, false)
		if rec.Err == "" && len(rec.Images) > 0 {
			img := rec.Images[len(rec.Images)-1]
			d, dir, err := restoreDump(img.Dir, "always", clk, true, false, nil)
			os.RemoveAll(dir)
			if err != nil || whichState(d, rec.States, img.Op-1, img.Op) == -2 {
				ctx.KnownReproduced(wt.id)
			}
		}
		ctx.Eval(1)
		rec.cleanup()
	}
	if findingOpen("C09-KF3") {
		// witness of KF3 = the concurrent lane at a park point inside the window; run once, count reproduction
		c09ConcurrentWitness(ctx)
	}
}

// c09ConcurrentWitness reproduces C09-KF3: INCR acknowledged while the rewrite is parked after its state copy.
func c09ConcurrentWitness(ctx *Ctx) {
	root := mkScratch("c09w")
	defer os.RemoveAll(root)
	dir := root + "/data"
	_ = os.MkdirAll(dir, 0o755)
	clk := NewVClock()
	run, err := newPRunner(dir, "always", false, false, clk)
	if err != nil {
		return
	}
	defer run.close()
	_, _ = run.exec(pOp{Caller: "emb", Argv: []string{"SET", "cnt", "10"}})
	parked, release := make(chan struct{}), make(chan struct{})
	hit := false
	setHook(func(name string, args ...interface{}) {
		if name == "rewrite.between" && !hit {
			hit = true
			close(parked)
			<-release
		}
	})
	done := make(chan struct{})
	go func() { run.in.Do("REWRITEAOF"); close(done) }()
	select {
	case <-parked:
		run.in.Do("INCR", "cnt")
		close(release)
		<-done
	case <-time.After(10 * time.Second):
		setHook(nil)
		return
	}
	setHook(nil)
	want := run.canon()
	d, rdir, rerr := restoreDump(dir, "always", clk, true, false, nil)
	os.RemoveAll(rdir)
	if rerr != nil || !canonEq(want, d) {
		ctx.KnownReproduced("C09-KF3")
	}
	ctx.Eval(1)
}

// c09Generations: rewrites across process generations. Generation 1 writes (non-idempotent commands
// included) and stops; every later generation starts from the files, runs one of the patterns
// {rewrite at once, rewrite then writes, writes then rewrite, rewrite twice, writes only} and stops
// cleanly; each start must see exactly the dataset the previous generation ended with.
func c09Generations(ctx *Ctx, i int) {
	r := rand.New(rand.NewSource(ctx.Seed*9_000_011 + int64(i)))
	root := mkScratch("c09gen")
	defer os.RemoveAll(root)
	dir := filepath.Join(root, "data")
	_ = os.MkdirAll(dir, 0o755)
	clk := NewVClock()
	policy := []string{"always", "everysec", "no"}[i%3]
	var script []string
	var prev map[int]map[string]string
	patterns := []string{"rewrite-at-once", "rewrite-then-writes", "writes-then-rewrite", "rewrite-twice", "writes-only", "rewrite-at-once"}
	gens := 3 + r.Intn(3)
	for g := 0; g < gens; g++ {
		run, err := newPRunner(dir, policy, g > 0, false, clk)
		if err != nil {
			ctx.Violate(Violation{Kind: "restart", Lane: "generations", What: fmt.Sprintf("generation %d did not start: %v", g, err), Case: map[string]interface{}{"script": script}, Key: "c09|gen|start"})
			return
		}
		if g > 0 {
			ctx.Eval(1)
			if d := model.DiffCanon(prev, run.canon()); d != "" {
				ctx.Violate(Violation{Kind: "generation", Lane: "generations",
					What: fmt.Sprintf("generation %d (policy %s) started with a dataset that differs from the one generation %d stopped with: %s", g, policy, g-1, d),
					Case: map[string]interface{}{"script": script}, Key: "c09|gen|" + patternOf(script) + "|" + firstDiffKind(d)})
				run.close()
				return
			}
		}
		pat := "writes-only"
		if g > 0 {
			pat = patterns[(i+g)%len(patterns)]
		}
		script = append(script, fmt.Sprintf("-- generation %d: %s", g, pat))
		writes := func(n int) {
			w := genWorkload(r, "gen", policy, n, clk.NowNs())
			for _, op := range w.Ops {
				res, err := run.exec(op)
				script = append(script, op.String()+" -> "+trunc(res, 40))
				if err != nil {
					ctx.Violate(Violation{Kind: "crash", Lane: "generations", What: fmt.Sprintf("%s: %v", op.String(), err), Case: map[string]interface{}{"script": script}, Key: "c09|gen|crash"})
					return
				}
			}
		}
		rewrite := func() {
			res, _ := run.exec(pOp{Caller: pick(r, []string{"emb", "t1"}), Argv: []string{"REWRITEAOF"}})
			script = append(script, "REWRITEAOF -> "+trunc(res, 40))
		}
		switch pat {
		case "writes-only":
			writes(6 + r.Intn(14))
		case "rewrite-at-once":
			rewrite()
		case "rewrite-then-writes":
			rewrite()
			writes(3 + r.Intn(8))
		case "writes-then-rewrite":
			writes(3 + r.Intn(8))
			rewrite()
		case "rewrite-twice":
			rewrite()
			if r.Intn(2) == 0 {
				writes(1 + r.Intn(3))
			}
			rewrite()
		}
		ctx.Class(fmt.Sprintf("generations|%s|gen=%d|%s|%s", pat, g, policy, typesPresent(run.canon())))
		clk.Advance(int64(1+r.Intn(3000)) * 1e6)
		prev = run.canon()
		run.close()
	}
	if i == 0 {
		ctx.Sample("generations", map[string]interface{}{"script": head(script, 60)})
	}
}

// patternOf returns the pattern name of the last generation in the script.
func patternOf(script []string) string {
	for k := len(script) - 1; k >= 0; k-- {
		if strings.HasPrefix(script[k], "-- generation") {
			if j := strings.Index(script[k], ": "); j >= 0 {
				return script[k][j+2:]
			}
		}
	}
	return "?"
}

// c09CrossDatabase: a client in another database gets its write into the log while the rewrite is on its
// way to the log truncation (the rewrite is parked between the preamble and the truncation, the writer is
// parked inside the log store's Write, the rewrite is released first and the writer shortly after - the short
// real-time pause only steers the schedule, the verdict does not depend on it). After the rewrite has
// finished, further writes are acknowledged in that database and in database 0. Whatever happens to the one
// write inside the rewrite window (listed finding C09-KF3), every write acknowledged after the rewrite must
// come back, after a restart, in the database it was written to.
func c09CrossDatabase(ctx *Ctx, i int) {
	otherDB := []int{1, 12, 3}[i%3]
	root := mkScratch("c09x")
	defer os.RemoveAll(root)
	dir := root + "/data"
	_ = os.MkdirAll(dir, 0o755)
	clk := NewVClock()
	run, err := newPRunner(dir, "always", false, false, clk)
	if err != nil {
		ctx.Broken("C09 cross-database: " + err.Error())
		return
	}
	defer run.close()
	in := run.in
	for _, c := range [][]string{{"SET", "base0", "v"}, {"RPUSH", "lst0", "a"}} {
		in.Do(c...)
	}
	if i%2 == 1 {
		_ = in.S.SelectDB(otherDB)
		in.Do("SET", "base-other", "v")
		_ = in.S.SelectDB(0)
		in.Do("SET", "back-in-0", "v") // the log's current database is 0 again when the rewrite starts
	}
	var rewriteG, writerG atomic.Int64
	rParked, wParked := make(chan struct{}), make(chan struct{})
	rRelease, wRelease := make(chan struct{}), make(chan struct{})
	var rOnce, wOnce sync.Once
	setHook(func(name string, args ...interface{}) {
		g := goid()
		switch {
		case name == "rewrite.between" && g == rewriteG.Load():
			rOnce.Do(func() { close(rParked); <-rRelease })
		case name == "aof.write.begin" && g == writerG.Load():
			wOnce.Do(func() { close(wParked); <-wRelease })
		}
	})
	defer setHook(nil)
	rdone := make(chan string, 1)
	go func() {
		rewriteG.Store(goid())
		v, _, crash := in.Do("REWRITEAOF")
		rdone <- v.String() + crash
	}()
	select {
	case <-rParked:
	case <-time.After(30 * time.Second):
		close(rRelease)
		ctx.Inconclusive("cross-database: the rewrite never reached rewrite.between")
		return
	}
	_ = in.S.SelectDB(otherDB)
	wdone := make(chan string, 1)
	go func() {
		writerG.Store(goid())
		v, _, crash := in.Do("SET", "w:in", "written-during-the-rewrite")
		wdone <- v.String() + crash
	}()
	select {
	case <-wParked:
		close(rRelease)
		time.Sleep(60 * time.Millisecond) // lets the rewrite run up to the log store's lock (steering only)
		close(wRelease)
	case <-time.After(2 * time.Second):
		// the writer did not get into the log store (it is waiting elsewhere): let everything go
		close(rRelease)
		close(wRelease)
	}
	wres := <-wdone
	rres := <-rdone
	setHook(nil)
	// acknowledged after the rewrite has finished
	var after []string
	for _, c := range [][]string{{"SET", "after-other", "v"}, {"RPUSH", "after-list", "x", "y"}, {"INCR", "after-counter"}} {
		v, _, _ := in.Do(c...)
		after = append(after, fmt.Sprintf("[db %d] %s -> %s", otherDB, Step{Argv: c}.String(), v.String()))
	}
	_ = in.S.SelectDB(0)
	v, _, _ := in.Do("SET", "after-zero", "v")
	after = append(after, fmt.Sprintf("[db 0] SET after-zero v -> %s", v.String()))
	want := run.canon()
	ctx.Eval(1)
	ctx.Class(fmt.Sprintf("cross-database|db%d|preexisting-other=%v", otherDB, i%2 == 1))
	clk.Advance(500e6)
	d, rdir, rerr := restoreDump(dir, "always", clk, true, false, nil)
	os.RemoveAll(rdir)
	if rerr == nil && findingOpen("C09-KF3") {
		// the one write inside the rewrite window may be lost (listed): it is taken out of the comparison
		for _, m := range []map[int]map[string]string{want, d} {
			if db, ok := m[otherDB]; ok {
				delete(db, "w:in")
				if len(db) == 0 {
					delete(m, otherDB)
				}
			}
		}
	}
	if rerr != nil || !canonEq(want, d) {
		ctx.Violate(Violation{Kind: "concurrent", Lane: "rewrite-cross-database",
			What: fmt.Sprintf("a write in database %d was logged (%s) while the rewrite was between the preamble and the log truncation (REWRITEAOF replied %s); writes acknowledged AFTER the rewrite (%v) are not where they were written after a restart: %v %s", otherDB, wres, rres, after, rerr, model.DiffCanon(want, d)),
			Case: map[string]interface{}{"database": otherDB, "after": after}, Key: "rewrite|cross-database"})
	}
}
