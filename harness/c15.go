package main

import (
	"math/rand"
)

// C15: the list commands implement a sequence.

func init() {
	registerCheck("C15", "exploration", checkC15)
}

// c15Alphabet is the exhaustive-lane alphabet: concrete list commands on keys
// a and b. The initial states give a four or five elements, so the indices
// below cover: negative, zero, inside, equal to the length, beyond it.
func c15Alphabet() [][]string {
	return [][]string{
		// pushes
		{"LPUSH", "a", "x"}, {"LPUSH", "a", "p", "q", "r"}, {"LPUSH", "a", "x", "x"}, {"RPUSH", "a", "x"}, {"RPUSH", "a", "p", "q"},
		{"RPUSH", "b", "m", "x"}, {"LPUSH", "a", "a\r\nb", ""}, {"LPUSH", "a"},
		{"LPUSHX", "a", "w"}, {"RPUSHX", "a", "w", "x"}, {"LPUSHX", "b", "w"}, {"RPUSHX", "b", "w"}, {"RPUSHX", "a"},
		// pops
		{"LPOP", "a"}, {"RPOP", "a"}, {"LPOP", "a", "2"}, {"RPOP", "a", "2"}, {"LPOP", "a", "0"}, {"RPOP", "a", "0"},
		{"LPOP", "a", "-1"}, {"RPOP", "a", "-2"}, {"LPOP", "a", "4"}, {"RPOP", "a", "10"}, {"LPOP", "a", "x"}, {"RPOP", "b"}, {"LPOP", "b", "2"},
		{"LPOP", "b", "x"}, {"LPOP"}, {"RPOP", "a", "1", "1"},
		// reads
		{"LLEN", "a"}, {"LLEN", "b"}, {"LLEN"},
		{"LRANGE", "a", "0", "-1"}, {"LRANGE", "a", "1", "2"}, {"LRANGE", "a", "-2", "-1"}, {"LRANGE", "a", "0", "3"}, {"LRANGE", "a", "0", "4"},
		{"LRANGE", "a", "0", "5"}, {"LRANGE", "a", "-100", "100"}, {"LRANGE", "a", "2", "1"}, {"LRANGE", "a", "5", "10"}, {"LRANGE", "a", "4", "4"},
		{"LRANGE", "a", "0", "0"}, {"LRANGE", "a", "-1", "-2"}, {"LRANGE", "a", "0", "-100"}, {"LRANGE", "a", "1", "-2"}, {"LRANGE", "a", "-3", "2"},
		{"LRANGE", "a", "0", "x"}, {"LRANGE", "b", "x", "1"}, {"LRANGE", "b", "0", "-1"}, {"LRANGE", "a", "0"},
		{"LINDEX", "a", "0"}, {"LINDEX", "a", "-1"}, {"LINDEX", "a", "3"}, {"LINDEX", "a", "4"}, {"LINDEX", "a", "5"}, {"LINDEX", "a", "-4"},
		{"LINDEX", "a", "-6"}, {"LINDEX", "a", "x"}, {"LINDEX", "b", "x"}, {"LINDEX", "a"},
		// LSET
		{"LSET", "a", "0", "N"}, {"LSET", "a", "-1", "N"}, {"LSET", "a", "2", ""}, {"LSET", "a", "4", "N"}, {"LSET", "a", "5", "N"},
		{"LSET", "a", "-6", "N"}, {"LSET", "a", "x", "N"}, {"LSET", "b", "0", "N"}, {"LSET", "a", "0"},
		// LTRIM
		{"LTRIM", "a", "1", "2"}, {"LTRIM", "a", "0", "-1"}, {"LTRIM", "a", "1", "-1"}, {"LTRIM", "a", "0", "3"}, {"LTRIM", "a", "0", "4"},
		{"LTRIM", "a", "1", "5"}, {"LTRIM", "a", "-2", "-1"}, {"LTRIM", "a", "-100", "100"}, {"LTRIM", "a", "2", "1"}, {"LTRIM", "a", "5", "10"},
		{"LTRIM", "a", "0", "0"}, {"LTRIM", "a", "0", "-100"}, {"LTRIM", "a", "0", "-2"}, {"LTRIM", "a", "-100", "1"}, {"LTRIM", "a", "0", "x"},
		{"LTRIM", "b", "x", "1"}, {"LTRIM", "a", "0"},
		// LREM
		{"LREM", "a", "0", "x"}, {"LREM", "a", "1", "x"}, {"LREM", "a", "-1", "x"}, {"LREM", "a", "2", "x"}, {"LREM", "a", "-2", "x"},
		{"LREM", "a", "5", "x"}, {"LREM", "a", "-5", "x"}, {"LREM", "a", "0", "nope"}, {"LREM", "a", "x", "x"}, {"LREM", "b", "0", "x"}, {"LREM", "a", "0"},
		// LMOVE
		{"LMOVE", "a", "b", "LEFT", "RIGHT"}, {"LMOVE", "a", "b", "RIGHT", "LEFT"}, {"LMOVE", "a", "b", "LEFT", "LEFT"}, {"LMOVE", "a", "b", "right", "right"},
		{"LMOVE", "a", "a", "LEFT", "RIGHT"}, {"LMOVE", "a", "a", "RIGHT", "LEFT"}, {"LMOVE", "a", "a", "LEFT", "LEFT"}, {"LMOVE", "a", "a", "RIGHT", "RIGHT"},
		{"LMOVE", "b", "a", "LEFT", "LEFT"}, {"LMOVE", "b", "a", "RIGHT", "RIGHT"}, {"LMOVE", "a", "b", "UP", "LEFT"}, {"LMOVE", "a", "b", "LEFT", "DOWN"}, {"LMOVE", "a", "b", "LEFT"},
		// other commands on the same keys
		{"DEL", "a"}, {"SET", "a", "v"}, {"EXPIRE", "a", "100"}, {"TYPE", "a"},
	}
}

// c15SmallAlphabet is the reduced alphabet of the depth-3 lane.
func c15SmallAlphabet() [][]string {
	return [][]string{
		{"LPUSH", "a", "x"}, {"LPUSH", "a", "p", "q"}, {"RPUSH", "a", "x", "y"}, {"RPUSHX", "b", "w"}, {"LPUSHX", "a", "x"},
		{"LPOP", "a"}, {"RPOP", "a", "2"}, {"LPOP", "a", "10"}, {"RPOP", "b"},
		{"LLEN", "a"}, {"LRANGE", "a", "0", "-1"}, {"LRANGE", "a", "1", "4"}, {"LRANGE", "b", "-100", "100"}, {"LINDEX", "a", "-1"}, {"LINDEX", "a", "4"},
		{"LSET", "a", "-1", "N"}, {"LSET", "a", "1", "x"},
		{"LTRIM", "a", "1", "-1"}, {"LTRIM", "a", "0", "2"}, {"LTRIM", "a", "0", "4"}, {"LTRIM", "a", "3", "1"},
		{"LREM", "a", "0", "x"}, {"LREM", "a", "2", "x"}, {"LREM", "a", "-1", "x"},
		{"LMOVE", "a", "b", "LEFT", "RIGHT"}, {"LMOVE", "b", "a", "RIGHT", "LEFT"}, {"LMOVE", "a", "a", "LEFT", "RIGHT"}, {"LMOVE", "a", "a", "RIGHT", "LEFT"},
		{"DEL", "a"},
	}
}

func c15InitStates() [][][]string {
	return [][][]string{
		{},
		{{"RPUSH", "a", "x", "y", "x", "z"}},
		{{"RPUSH", "a", "x", "x", "y", "x", "x"}, {"RPUSH", "b", "m"}},
		{{"RPUSH", "a", "x"}},
		{{"RPUSH", "a", "e1", "e2", "e3", "e4"}, {"RPUSH", "b", "x", "y"}},
		{{"RPUSH", "a", "x", "y", "x", "z"}, {"SET", "b", "v"}},
		{{"RPUSH", "a", "x", "y", "x", "z"}, {"EXPIRE", "a", "100"}, {"RPUSH", "b", "m"}, {"EXPIRE", "b", "50"}},
		{{"SET", "a", "hello"}, {"RPUSH", "b", "x", "y"}},
		{{"HSET", "a", "f", "v"}},
		{{"SADD", "a", "m"}},
		{{"ZADD", "a", "1", "m"}},
	}
}

// listUniverse: few keys (so that commands collide), elements with duplicates
// and binary content, indices/counts around the boundaries of short lists.
func listUniverse() Universe {
	u := defaultUniverse()
	u.Keys = []string{"a", "b", "c", "d"}
	u.Vals = []string{"x", "x", "x", "y", "y", "z", "", "0", "5", "-3", "1.5", "a\r\nb", "nul\x00byte", "\r\n", " 1", "ünï", "OK", "$5", "*1",
		"007", "1e3", "-0", "+5", "inf", "LEFT", bigVal}
	u.Ints = []string{"0", "0", "1", "1", "-1", "-1", "2", "-2", "3", "-3", "4", "-4", "5", "-5", "6", "-6", "7", "-7", "10", "-10", "100", "-100",
		"x", "1.5", "", "+2", "-0", " 1", "9223372036854775807", "-9223372036854775808", "9223372036854775808"}
	return u
}

// denseListUniverse: two keys, three element values, indices and counts within
// and just beyond short lists - almost every step is a defined, state-changing
// or state-reading list operation on a list with duplicates.
func denseListUniverse() Universe {
	u := defaultUniverse()
	u.Keys = []string{"a", "b"}
	u.Vals = []string{"x", "x", "y", "z", ""}
	u.Ints = []string{"0", "1", "-1", "2", "-2", "3", "-3", "4", "-4", "5", "-5", "6", "-6", "8", "-8", "0", "1", "-1", "x"}
	return u
}

func listGens() ([]cmdGen, []int) {
	k := func(r *rand.Rand, u *Universe) string { return pick(r, u.Keys) }
	v := func(r *rand.Rand, u *Universe) string { return pick(r, u.Vals) }
	n := func(r *rand.Rand, u *Universe) string { return pick(r, u.Ints) }
	side := func(r *rand.Rand) string {
		return pick(r, []string{"LEFT", "RIGHT", "LEFT", "RIGHT", "left", "Right", "UP", ""})
	}
	push := func(name string) cmdGen {
		return func(r *rand.Rand, u *Universe, now int64) []string {
			a := []string{name, k(r, u)}
			cnt := 1 + r.Intn(4)
			if r.Intn(6) == 0 {
				cnt = 6 + r.Intn(6)
			}
			dup := v(r, u)
			for i := 0; i < cnt; i++ {
				if r.Intn(3) == 0 {
					a = append(a, dup) // adjacent / repeated duplicates
				} else {
					a = append(a, v(r, u))
				}
			}
			return a
		}
	}
	pop := func(name string) cmdGen {
		return func(r *rand.Rand, u *Universe, now int64) []string {
			if r.Intn(2) == 0 {
				return []string{name, k(r, u)}
			}
			return []string{name, k(r, u), n(r, u)}
		}
	}
	gens := []cmdGen{
		push("LPUSH"), push("RPUSH"), push("LPUSHX"), push("RPUSHX"),
		pop("LPOP"), pop("RPOP"),
		func(r *rand.Rand, u *Universe, now int64) []string { return []string{"LLEN", k(r, u)} },
		func(r *rand.Rand, u *Universe, now int64) []string { return []string{"LRANGE", k(r, u), n(r, u), n(r, u)} },
		func(r *rand.Rand, u *Universe, now int64) []string { return []string{"LRANGE", k(r, u), "0", "-1"} },
		func(r *rand.Rand, u *Universe, now int64) []string { return []string{"LINDEX", k(r, u), n(r, u)} },
		func(r *rand.Rand, u *Universe, now int64) []string { return []string{"LSET", k(r, u), n(r, u), v(r, u)} },
		func(r *rand.Rand, u *Universe, now int64) []string { return []string{"LTRIM", k(r, u), n(r, u), n(r, u)} },
		func(r *rand.Rand, u *Universe, now int64) []string { return []string{"LREM", k(r, u), n(r, u), v(r, u)} },
		func(r *rand.Rand, u *Universe, now int64) []string {
			src := k(r, u)
			dst := k(r, u)
			if r.Intn(4) == 0 {
				dst = src
			}
			return []string{"LMOVE", src, dst, side(r), side(r)}
		},
		// other commands on the same keys: removal, other types, expiry, renaming
		func(r *rand.Rand, u *Universe, now int64) []string { return []string{"DEL", k(r, u)} },
		func(r *rand.Rand, u *Universe, now int64) []string {
			switch r.Intn(4) {
			case 0:
				return []string{"SET", k(r, u), "v"}
			case 1:
				return []string{"HSET", k(r, u), "f1", "v1"}
			case 2:
				return []string{"SADD", k(r, u), "m1", "m2"}
			}
			return []string{"ZADD", k(r, u), "1", "m1", "2", "m2"}
		},
		func(r *rand.Rand, u *Universe, now int64) []string {
			switch r.Intn(5) {
			case 0:
				return []string{"EXPIRE", k(r, u), relSeconds(r)}
			case 1:
				return []string{"PERSIST", k(r, u)}
			case 2:
				return []string{"TTL", k(r, u)}
			case 3:
				return []string{"TYPE", k(r, u)}
			}
			return []string{"RENAME", k(r, u), k(r, u)}
		},
	}
	weights := []int{6, 6, 2, 2, 5, 5, 2, 6, 3, 4, 4, 5, 6, 6, 2, 2, 2}
	return gens, weights
}

func checkC15(ctx *Ctx) {
	ctx.Rule("one evaluation = one program (sequence of list commands, interleaved with a few commands that delete, retype, expire or rename the same keys) " +
		"run on a fresh instance in lock step with a reference sequence (Go slice of byte strings); after every step the strict-parsed reply must be allowed by the " +
		"reference and the side-effect-free dump of the whole store (element order and bytes, key presence, deadline) must equal the reference state. " +
		"distinct_nontrivial = distinct (command/arity/options, pre-state kind of the first key, outcome class, state-changed) transition classes observed")
	ctx.Assume("virtual clock injected through the verif build",
		"embedded raw-reply API (ExecuteCommand) is the same dispatch path as TCP minus framing (framing is C12)",
		"silent points are set-valued as listed in DESIGN.md Appendix A (multi-element LPUSH order, emptied list absent or present-and-empty, LMOVE reply element or OK, LMOVE to an absent destination creates it or fails)")
	runWitnesses(ctx, lightInst)
	alpha := c15Alphabet()
	exhaustiveLane(ctx, "exhaustive-d1", alpha, c15InitStates(), 1)
	exhaustiveLane(ctx, "exhaustive-d2", alpha, c15InitStates(), 2)
	if !ctx.Quick() {
		exhaustiveLane(ctx, "exhaustive-d3", c15SmallAlphabet(), c15InitStates()[:5], 3)
	}
	// aliasing lane: LMOVE in every direction between lists whose backing arrays have spare capacity (built by
	// single pushes, shortened by pops), followed by pushes on the source and on the destination; the
	// whole-store dump after every step shows an element written through a shared array
	aliasAlpha := [][]string{
		{"LMOVE", "a", "b", "LEFT", "LEFT"}, {"LMOVE", "a", "b", "LEFT", "RIGHT"}, {"LMOVE", "a", "b", "RIGHT", "LEFT"}, {"LMOVE", "a", "b", "RIGHT", "RIGHT"},
		{"LMOVE", "b", "a", "RIGHT", "LEFT"}, {"LMOVE", "b", "a", "LEFT", "RIGHT"}, {"LMOVE", "a", "a", "RIGHT", "LEFT"},
		{"RPUSH", "a", "p"}, {"RPUSH", "b", "q"}, {"LPUSH", "a", "r"}, {"LPUSH", "b", "s"}, {"LSET", "a", "0", "t"}, {"LSET", "b", "-1", "u"},
		{"RPOP", "a"}, {"LPOP", "b"}, {"LTRIM", "a", "0", "1"},
	}
	aliasInits := [][][]string{
		{{"RPUSH", "a", "x"}, {"RPUSH", "a", "y"}, {"RPUSH", "a", "z"}, {"RPUSH", "b", "m"}},
		{{"RPUSH", "a", "x"}, {"RPUSH", "a", "y"}, {"RPUSH", "a", "z"}, {"RPUSH", "a", "w"}, {"RPOP", "a"}, {"RPUSH", "b", "m"}, {"LPOP", "b"}},
		{{"RPUSH", "a", "1", "2", "3", "4", "5"}, {"LTRIM", "a", "0", "2"}, {"RPUSH", "b", "m"}, {"RPUSH", "b", "n"}},
	}
	exhaustiveLane(ctx, "alias-d2", aliasAlpha, aliasInits, 2)
	exhaustiveLane(ctx, "alias-d3", aliasAlpha, aliasInits, 3)
	ctx.exhaustive = false
	gens, weights := listGens()
	randomLane(ctx, "random", ctx.N(500, 8000), gens, weights, listUniverse(), 40, 60, 0.04, lightInst)
	randomLane(ctx, "random-dense", ctx.N(300, 4000), gens, weights, denseListUniverse(), 40, 60, 0.01, lightInst)
}
