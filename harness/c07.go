package main

import (
	"crypto/sha1"
	"encoding/hex"
	"encoding/json"
	"fmt"
	"math/rand"
	"os"
	"os/exec"
	"path/filepath"
	"strconv"
	"strings"
	"sync"
	"sync/atomic"
	"time"

	"verif/harness/model"
	"verif/harness/resp"
)

func init() {
	registerCheck("C07", "exploration", checkC07)
	// a randomised pop is replicated as a command: every replica pops its own members
	registerPred("C07-KF1", func(st *model.State, env model.Env, argv []string) bool {
		return len(argv) > 0 && strings.EqualFold(argv[0], "SPOP")
	})
}

// ---------------------------------------------------------------------------
// in-process raft cluster

type applyEv struct {
	Index  uint64
	Sum    string
	Cmd    []string
	CmdDec []string
	DB     int
	Type   string
	G      int64 // goroutine that applied it: one state machine = one goroutine for its whole life
}

type cNode struct {
	id    string
	o     ClusterOpts
	dir   string
	in    *Inst
	alive bool
	inc   int
}

type cCluster struct {
	ctx   *Ctx
	tag   string
	sub   string // 127.a.b
	clk   *VClock
	root  string
	nodes []*cNode
	snapT uint64
	snapI time.Duration
	skew  []int64 // per node index: offset of the node's clock from the cluster clock (witness lane only)

	mu          sync.Mutex
	applied     map[string][]applyEv
	nApply      atomic.Int64
	quiesceInfo string                    // what the last successful quiescence observation saw
	inFlight    atomic.Int64              // state machine applies and restores begun and not finished (all nodes of this cluster)
	oldG        map[string]map[int64]bool // node id -> goroutines of its stopped state machines (their late events are dropped)
	lateOld     atomic.Int64

	lastKey atomic.Value // string: "<db> <key>" of the entry applied most recently (steers the race lane's readers)

	// stalling of raft snapshot persistence on one node (delay injection between Snapshot and Persist)
	stallMu      sync.Mutex
	stallNode    string
	stallRelease chan struct{}
	stallEntered chan struct{}
}

// stallPersist makes every Persist of node id wait until the returned release function is called;
// entered receives one token per Persist that is waiting.
func (c *cCluster) stallPersist(id string) (entered <-chan struct{}, release func()) {
	c.stallMu.Lock()
	defer c.stallMu.Unlock()
	c.stallNode = id
	c.stallRelease = make(chan struct{})
	c.stallEntered = make(chan struct{}, 64)
	rel := c.stallRelease
	var once sync.Once
	return c.stallEntered, func() {
		once.Do(func() {
			c.stallMu.Lock()
			c.stallNode = ""
			c.stallMu.Unlock()
			close(rel)
		})
	}
}

var clusterSeq atomic.Int64

func newCluster(ctx *Ctx, withDirs bool, snapT uint64, snapI time.Duration) *cCluster {
	seq := clusterSeq.Add(1)
	c := &cCluster{ctx: ctx, clk: NewVClock(), applied: map[string][]applyEv{}, snapT: snapT, snapI: snapI}
	c.tag = fmt.Sprintf("p%dc%d", os.Getpid(), seq)
	c.sub = fmt.Sprintf("127.%d.%d", 1+os.Getpid()%200, seq%250)
	if withDirs {
		c.root = mkScratch("c07")
	}
	raceLane := os.Getenv("VERIF_C07_RACE") != ""
	setHook(func(name string, args ...interface{}) {
		if raceLane && name == "ks.setValues" {
			// delay injection between a handler's in-place work on a value and its write-back: widens the
			// window in which an unsynchronised reader on the same node would overlap (harmless when the
			// command lock is held, as it must be)
			time.Sleep(400 * time.Microsecond)
			return
		}
		if name == "raft.snap.persist" && len(args) == 1 {
			id, _ := args[0].(string)
			c.stallMu.Lock()
			rel, ent, hit := c.stallRelease, c.stallEntered, c.stallNode == id && id != ""
			c.stallMu.Unlock()
			if hit {
				select {
				case ent <- struct{}{}:
				default:
				}
				select {
				case <-rel:
				case <-time.After(90 * time.Second): // never wedge a node for good
				}
			}
			return
		}
		if name == "fsm.apply.undecodable" && len(args) >= 3 {
			if id, _ := args[0].(string); strings.HasPrefix(id, c.tag+"-") {
				idx, _ := args[1].(uint64)
				c.ctx.Violate(Violation{Kind: "undecodable_entry", Lane: "history", What: fmt.Sprintf("node %s could not decode log entry %d: %v", id, idx, args[2]), Key: "c07|undecodable"})
			}
			return
		}
		// applies and snapshot restores in flight (begun, not finished) on the nodes of this cluster
		if name == "fsm.applied" || name == "fsm.restore" || name == "fsm.restored" {
			if id, _ := args[0].(string); strings.HasPrefix(id, c.tag+"-") {
				if name == "fsm.restore" {
					c.inFlight.Add(1)
				} else {
					c.inFlight.Add(-1)
				}
			}
			return
		}
		if name != "fsm.apply" || len(args) < 3 {
			return
		}
		if id, _ := args[0].(string); strings.HasPrefix(id, c.tag+"-") {
			c.inFlight.Add(1)
		}
		id, _ := args[0].(string)
		if !strings.HasPrefix(id, c.tag+"-") {
			return // a node of an earlier cluster of this process that is still winding down
		}
		idx, _ := args[1].(uint64)
		data, _ := args[2].([]byte)
		var req struct {
			Type     string   `json:"Type"`
			Database int      `json:"Database"`
			CMD      []string `json:"CMD"`
			Key      string   `json:"Key"`
		}
		_ = json.Unmarshal(data, &req)
		h := sha1.Sum(data)
		ev := applyEv{Index: idx, Sum: hex.EncodeToString(h[:6]), Cmd: req.CMD, DB: req.Database, Type: req.Type, G: goid()}
		// arguments travel quoted (byte-safe encoding); keep the raw form too in case they do not
		ev.CmdDec = make([]string, len(req.CMD))
		for k, a := range req.CMD {
			if u, err := strconv.Unquote(a); err == nil {
				ev.CmdDec[k] = u
			} else {
				ev.CmdDec[k] = a
			}
		}
		if req.Type == "delete-key" {
			ev.Cmd = []string{"<delete-key>", req.Key}
			ev.CmdDec = ev.Cmd
		}
		c.mu.Lock()
		if c.oldG[id][ev.G] {
			c.mu.Unlock()
			c.lateOld.Add(1)
			return
		}
		c.applied[id] = append(c.applied[id], ev)
		c.mu.Unlock()
		c.nApply.Add(1)
		if len(ev.CmdDec) > 1 {
			c.lastKey.Store(fmt.Sprintf("%d %s", ev.DB, ev.CmdDec[1]))
		}
	})
	return c
}

func (c *cCluster) stats(n *cNode) map[string]string {
	defer func() { _ = recover() }()
	return n.in.S.VerifRaftStats()
}

func waitFor(timeout time.Duration, cond func() bool) bool {
	deadline := time.Now().Add(timeout)
	for {
		if cond() {
			return true
		}
		if time.Now().After(deadline) {
			return false
		}
		time.Sleep(3 * time.Millisecond)
	}
}

// addNode starts node number i (the first one bootstraps the cluster) and waits until it is a
// member. ok=false: the cluster did not form within the watchdog (inconclusive, not a verdict).
func (c *cCluster) addNode(forward bool) (*cNode, bool) {
	i := len(c.nodes)
	n := &cNode{id: fmt.Sprintf("%s-n%d", c.tag, i)}
	n.o = ClusterOpts{ServerID: n.id, BindAddr: fmt.Sprintf("%s.%d", c.sub, 1+i), Port: freePort(), DiscoveryPort: freePort(), RaftPort: freePort(),
		Bootstrap: i == 0, Forward: forward}
	if i > 0 {
		n.o.JoinAddr = fmt.Sprintf("%s/%s:%d", c.nodes[0].id, c.nodes[0].o.BindAddr, c.nodes[0].o.DiscoveryPort)
		if !c.nodes[0].alive {
			for _, m := range c.nodes {
				if m.alive {
					n.o.JoinAddr = fmt.Sprintf("%s/%s:%d", m.id, m.o.BindAddr, m.o.DiscoveryPort)
					break
				}
			}
		}
	}
	if c.root != "" {
		n.dir = filepath.Join(c.root, fmt.Sprintf("n%d", i))
		_ = os.MkdirAll(n.dir, 0o755)
	}
	c.nodes = append(c.nodes, n)
	return n, c.startNode(n)
}

func (c *cCluster) startNode(n *cNode) bool {
	o := n.o
	// a restarted node is a new state machine: what the old incarnation applied is kept under another name
	c.mu.Lock()
	if evs, ok := c.applied[n.id]; ok {
		n.inc++
		c.applied[fmt.Sprintf("%s(incarnation %d)", n.id, n.inc)] = evs
		delete(c.applied, n.id)
		// the stopped state machine may still be finishing its last entries when the new one (same id) begins:
		// its goroutines are known, their late events belong to the old incarnation
		if c.oldG == nil {
			c.oldG = map[string]map[int64]bool{}
		}
		if c.oldG[n.id] == nil {
			c.oldG[n.id] = map[int64]bool{}
		}
		for _, e := range evs {
			c.oldG[n.id][e.G] = true
		}
	}
	c.mu.Unlock()
	clk := c.clk
	for i, m := range c.nodes {
		if m == n && i < len(c.skew) && c.skew[i] != 0 {
			clk = NewVClock()
			clk.Set(c.clk.NowNs() + c.skew[i])
		}
	}
	in, err := NewInst(InstOpts{DataDir: n.dir, Clock: clk, Cluster: &o, SnapThreshold: c.snapT, SnapshotInterval: c.snapI})
	if err != nil {
		c.ctx.Broken("C07: cannot start node " + n.id + ": " + err.Error())
		return false
	}
	n.in = in
	n.alive = true
	go func() {
		defer func() { _ = recover() }()
		in.S.Start()
	}()
	if n.o.Bootstrap && n.o.JoinAddr == "" {
		return waitFor(60*time.Second, func() bool { return c.stats(n)["state"] == "Leader" })
	}
	return waitFor(90*time.Second, func() bool {
		st := c.stats(n)
		if st["state"] != "Follower" || st["last_log_index"] == "0" {
			return false
		}
		l := c.leader()
		return l != nil && strings.Contains(c.stats(l)["latest_configuration"], "ID:"+n.id+" ")
	})
}

func (c *cCluster) leader() *cNode {
	var best *cNode
	bestTerm := int64(-1)
	for _, n := range c.nodes {
		if !n.alive {
			continue
		}
		st := c.stats(n)
		if st["state"] == "Leader" {
			t, _ := strconv.ParseInt(st["term"], 10, 64)
			if t > bestTerm {
				best, bestTerm = n, t
			}
		}
	}
	return best
}

func (c *cCluster) aliveNodes() []*cNode {
	var out []*cNode
	for _, n := range c.nodes {
		if n.alive {
			out = append(out, n)
		}
	}
	return out
}

// quiesce waits until every live node has applied everything in the leader's log and nothing has
// been applied for two consecutive observations. false = not reached within the watchdog.
func (c *cCluster) quiesce() bool {
	stable := 0
	var last string
	return waitFor(60*time.Second, func() bool {
		l := c.leader()
		if l == nil {
			stable = 0
			return false
		}
		ls := c.stats(l)
		want := ls["last_log_index"]
		sig := want + "|" + strconv.FormatInt(c.nApply.Load(), 10)
		// raft counts an entry as applied when it hands it to the state machine goroutine, and a batch leaves
		// fsm_pending when that goroutine takes it: the state machine is at rest only when every apply and
		// restore that began has also finished (fsm.applied / fsm.restored events)
		if c.inFlight.Load() != 0 {
			stable = 0
			return false
		}
		for _, n := range c.aliveNodes() {
			st := c.stats(n)
			if st["applied_index"] != want || st["fsm_pending"] != "0" {
				stable = 0
				return false
			}
		}
		if c.inFlight.Load() != 0 {
			stable = 0
			return false
		}
		if sig == last {
			stable++
		} else {
			stable = 0
		}
		last = sig
		if stable >= 2 {
			info := fmt.Sprintf("leader %s last_log_index=%s in_flight=%d applies=%d;", l.id, want, c.inFlight.Load(), c.nApply.Load())
			for _, n := range c.aliveNodes() {
				st := c.stats(n)
				c.mu.Lock()
				var lastEv uint64
				if evs := c.applied[n.id]; len(evs) > 0 {
					lastEv = evs[len(evs)-1].Index
				}
				c.mu.Unlock()
				info += fmt.Sprintf(" %s{state=%s applied_index=%s commit_index=%s last_log_index=%s fsm_pending=%s last_apply_event=#%d}", n.id, st["state"], st["applied_index"], st["commit_index"], st["last_log_index"], st["fsm_pending"], lastEv)
			}
			c.quiesceInfo = info
		}
		return stable >= 2
	})
}

func (c *cCluster) dump(n *cNode) map[int]map[string]string {
	return CanonDump(n.in.S.VerifDump(), c.clk.NowNs())
}

func (c *cCluster) shutdownNode(n *cNode) {
	n.alive = false
	done := make(chan struct{})
	go func() {
		defer close(done)
		defer func() { _ = recover() }()
		n.in.S.ShutDown()
	}()
	select {
	case <-done:
	case <-time.After(30 * time.Second):
	}
}

func (c *cCluster) close() {
	for _, n := range c.nodes {
		if n.alive {
			c.shutdownNode(n)
		}
	}
	setHook(nil)
	if c.root != "" {
		os.RemoveAll(c.root)
	}
}

// logAround renders the entries with index from..from+k that the node's state machine applied.
func (c *cCluster) logAround(id string, from uint64, k int) []string {
	c.mu.Lock()
	defer c.mu.Unlock()
	var out []string
	for _, e := range c.applied[id] {
		if e.Index >= from && e.Index < from+uint64(k) {
			out = append(out, trunc(fmt.Sprintf("#%d db%d type=%s %s", e.Index, e.DB, e.Type, Step{Argv: e.CmdDec}.String()), 160))
		}
	}
	return out
}

func (c *cCluster) lastIndex(id string) uint64 {
	c.mu.Lock()
	defer c.mu.Unlock()
	if evs := c.applied[id]; len(evs) > 0 {
		return evs[len(evs)-1].Index
	}
	return 0
}

// logTail renders the last entries the node's state machine applied.
func (c *cCluster) logTail(id string, k int) []string {
	c.mu.Lock()
	defer c.mu.Unlock()
	evs := c.applied[id]
	if len(evs) > k {
		evs = evs[len(evs)-k:]
	}
	var out []string
	for _, e := range evs {
		out = append(out, fmt.Sprintf("#%d db%d %s", e.Index, e.DB, Step{Argv: e.CmdDec}.String()))
	}
	return out
}

// checkApplyOrder: every state machine saw strictly increasing indexes, and the same index carried
// the same entry on every node.
func (c *cCluster) checkApplyOrder(lane string, script func() []string) {
	c.mu.Lock()
	defer c.mu.Unlock()
	byIndex := map[uint64]string{}
	owner := map[uint64]string{}
	for id, evs := range c.applied {
		var prev uint64
		for _, e := range evs {
			if e.Index <= prev {
				c.ctx.Violate(Violation{Kind: "order", Lane: lane, What: fmt.Sprintf("node %s applied log index %d after index %d", id, e.Index, prev),
					Case: map[string]interface{}{"script": script()}, Key: "c07|order|regress"})
			}
			prev = e.Index
			if s, ok := byIndex[e.Index]; ok && s != e.Sum {
				c.ctx.Violate(Violation{Kind: "order", Lane: lane, What: fmt.Sprintf("log index %d carried different entries on %s and %s", e.Index, owner[e.Index], id),
					Case: map[string]interface{}{"script": script()}, Key: "c07|order|mismatch"})
			}
			byIndex[e.Index] = e.Sum
			owner[e.Index] = id
		}
	}
	c.ctx.Count("fsm_apply_events", c.nApply.Load())
	c.ctx.Count("log_entries_observed", int64(len(byIndex)))
}

// ---------------------------------------------------------------------------
// the check

func checkC07(ctx *Ctx) {
	ctx.Rule("one evaluation = one comparison of a live node's whole canonical dataset (every database) with the leader's after observed quiescence " +
		"(every live node's applied index equals the leader's last log index, twice in a row with no apply event in between), in in-process raft clusters of 3 to 6 nodes driven in lock step with the reference model through the leader " +
		"(embedded caller and two TCP connections, all value types, databases 0, 1 and 10); plus one evaluation per write sent to a follower (rejected and dataset unchanged, or forwarded and applied with the effect the reference gives it), " +
		"per late joiner, per restarted node and per leader change. distinct_nontrivial = distinct (lane, event, command, outcome) classes")
	ctx.Assume("all nodes of a cluster share one virtual clock that does not move during a history, so relative expiries evaluate identically on every replica",
		"cluster formation, elections and gossip run on real timers: not reaching quiescence or a leader within the watchdog is inconclusive, never a violation",
		"no key expires during a cluster history: touching an expired key on a cluster leader is the listed finding C07-KF2")
	if os.Getenv("VERIF_C07_RACE") == "" && !ctx.IsWorker() {
		// race-detector lane: in-memory histories re-run in a child built with -race, concurrently with the main lanes
		raceDone := c07RaceLane(ctx)
		defer func() {
			<-raceDone
			c07Aggregate(ctx)
		}()
	}
	if ctx.Fork(8, "", ctx.Watchdog()) {
		return
	}
	quietLogs()
	n := ctx.N(8, 64)
	if os.Getenv("VERIF_C07_RACE") != "" {
		// child of the race lane: in-memory histories only (boltdb's unsafe page casts trip checkptr, which -race enables)
		for i := 0; i < ctx.N(2, 8); i++ {
			ctx.SetCurrent(fmt.Sprintf("C07 race-lane history %d seed %d", 2*i, ctx.Seed))
			c07History(ctx, 2*i)
		}
		return
	}
	for i := 0; i < n; i++ {
		if !ctx.Mine(i) {
			continue
		}
		ctx.SetCurrent(fmt.Sprintf("C07 history %d seed %d", i, ctx.Seed))
		c07History(ctx, i)
	}
	w := 0
	for _, wt := range []struct {
		id string
		f  func(*Ctx) bool
	}{{"C07-KF1", c07WitnessSpop}, {"C07-KF2", c07WitnessExpired}, {"C07-KF4", c07WitnessSkew}} {
		if ctx.Mine(n + w) {
			ctx.SetCurrent("C07 witness " + wt.id)
			if wt.f(ctx) {
				if findingOpen(wt.id) {
					ctx.KnownReproduced(wt.id)
				}
			}
		}
		w++
	}
}

// wouldExpire reports whether some outcome of the step leaves a key whose deadline is not in the future.
func wouldExpire(outs []model.Outcome, now int64) bool {
	for _, o := range outs {
		if o.State == nil {
			continue
		}
		for _, db := range o.State.DBs {
			for _, e := range db {
				if e.Deadline != 0 && e.Deadline <= now {
					return true
				}
			}
		}
	}
	return false
}

var c07DBs = []int{0, 1, 10}

type c07Run struct {
	ctx    *Ctx
	c      *cCluster
	r      *rand.Rand
	sess   *Session
	lane   string
	script []string
	gens   []cmdGen
	u      Universe
	fconn  map[string]*Client // follower connections
	fdb    map[string]int
	bad    bool

	burstSeq int
}

func (h *c07Run) log(f string, a ...interface{}) { h.script = append(h.script, fmt.Sprintf(f, a...)) }

func (h *c07Run) scriptCopy() []string { return append([]string{}, h.script...) }

func (h *c07Run) attach(l *cNode) {
	if h.sess != nil {
		h.sess.closeConns()
	}
	st := model.NewState()
	if h.sess != nil {
		st = h.sess.st
	}
	h.sess = NewSession(h.ctx, h.lane, l.in)
	h.sess.st = st
	h.sess.host = l.o.BindAddr
	h.sess.port = l.o.Port
	h.sess.db = l.in.S.VerifEmbeddedDatabase()
	h.log("-- leader is %s", l.id)
}

// converge waits for quiescence and compares every live node with the leader and the leader with the reference.
func (h *c07Run) converge(event string) bool {
	if !h.c.quiesce() {
		h.ctx.Inconclusive("C07: replication did not quiesce within the watchdog after " + event)
		h.bad = true
		return false
	}
	l := h.c.leader()
	if l == nil {
		h.ctx.Inconclusive("C07: no leader after " + event)
		h.bad = true
		return false
	}
	if h.leaderMoved() {
		return false
	}
	ld := h.c.dump(l)
	if d := model.DiffCanon(h.sess.st.CanonAt(h.c.clk.NowNs()), ld); d != "" {
		h.violate(Violation{Kind: "leader_state", Lane: h.lane, What: fmt.Sprintf("after %s the leader's dataset differs from the reference: %s", event, d),
			Case: map[string]interface{}{"script": h.scriptCopy(), "leader_log_tail": h.c.logTail(l.id, 12)}, Key: "c07|leader|" + event + "|" + firstDiffKind(d)})
		h.bad = true
	}
	for _, n := range h.c.aliveNodes() {
		if n == l {
			continue
		}
		h.ctx.Eval(1)
		nd := h.c.dump(n)
		h.ctx.Class(fmt.Sprintf("%s|converge|%s|nodes=%d|%s", h.lane, event, len(h.c.aliveNodes()), typesPresent(ld)))
		if d := model.DiffCanon(ld, nd); d != "" {
			h.violate(Violation{Kind: "divergence", Lane: h.lane,
				What: fmt.Sprintf("after %s and observed quiescence, node %s differs from the leader %s (want = leader): %s", event, n.id, l.id, d),
				Case: map[string]interface{}{"script": h.scriptCopy(), "node_log_tail": h.c.logTail(n.id, 12), "leader_log_tail": h.c.logTail(l.id, 12), "quiescence_observation": h.c.quiesceInfo, "leader_entries_after_the_nodes_last": h.c.logAround(l.id, h.c.lastIndex(n.id), 6)},
				Key:  "c07|divergence|" + event + "|" + firstDiffKind(d)})
			h.bad = true
		}
	}
	return !h.bad
}

// firstUse: a client of the leader selects a database that has never been used and writes its first key
// there, while a client of every follower selects the same database at the same moment (SELECT creates the
// database on the node it is sent to; the replicated write creates it there too). The write is acknowledged
// by the leader, so after quiescence every node must hold it.
func (h *c07Run) firstUse(i int) bool {
	l := h.c.leader()
	if l == nil || h.leaderMoved() {
		return !h.bad
	}
	lc, err := DialHost(l.o.BindAddr, l.o.Port)
	if err != nil {
		h.ctx.Inconclusive("C07: cannot connect to the leader")
		return true
	}
	defer lc.Close()
	var fcs []*Client
	for _, n := range h.c.aliveNodes() {
		if n == l {
			continue
		}
		if fc, err := DialHost(n.o.BindAddr, n.o.Port); err == nil {
			fcs = append(fcs, fc)
			defer fc.Close()
		}
	}
	const count = 12
	base := 40 + (i%5)*count
	h.log("-- first use of databases %d..%d: leader client SELECT n; MSET, the client of every follower SELECT n at the same moment", base, base+count-1)
	for n := base; n < base+count; n++ {
		db := strconv.Itoa(n)
		start := make(chan struct{})
		var wg sync.WaitGroup
		var lv resp.Value
		var lerr error
		wg.Add(1)
		go func() {
			defer wg.Done()
			<-start
			if v, _, err := lc.Do("SELECT", db); err != nil || v.IsError() {
				lv, lerr = v, fmt.Errorf("SELECT: %v %s", err, v.String())
				return
			}
			lv, _, lerr = lc.Do("MSET", "fu:a", "v"+db, "fu:b", "w"+db)
		}()
		for _, fc := range fcs {
			wg.Add(1)
			go func(fc *Client) {
				defer wg.Done()
				<-start
				time.Sleep(300 * time.Microsecond) // about the time the write needs to reach the followers (steering only)
				fc.Do("SELECT", db)
			}(fc)
		}
		close(start)
		wg.Wait()
		if lerr != nil || lv.IsError() {
			h.log("leader> SELECT %s; MSET -> %v %s", db, lerr, lv.String())
			if h.leaderMoved() {
				return false
			}
			continue // not acknowledged: nothing to expect
		}
		h.sess.st.DB(n)["fu:a"] = &model.Entry{Kind: model.KScalar, S: "v" + db}
		h.sess.st.DB(n)["fu:b"] = &model.Entry{Kind: model.KScalar, S: "w" + db}
	}
	h.ctx.Count("first_use_databases", count)
	return h.converge("first-use-of-databases")
}

// leaderSteps runs k lock-step steps through the leader.
func (h *c07Run) leaderSteps(k int) {
	for j := 0; j < k && !h.bad; j++ {
		conn := pick(h.r, []string{"", "", "t1", "t2"})
		if h.r.Intn(7) == 0 {
			db := c07DBs[h.r.Intn(len(c07DBs))]
			var st Step
			if conn == "" {
				st = Step{DB: &db}
			} else {
				st = Step{Conn: conn, Argv: []string{"SELECT", strconv.Itoa(db)}}
			}
			h.log("%s", st.String())
			if res := h.sess.Exec(st); res.Vio != nil {
				h.report(res.Vio)
			}
			continue
		}
		var argv []string
		if h.r.Intn(3) == 0 {
			argv = genWriteOp(h.r, h.c.clk.NowNs(), true, false)
		} else {
			argv = h.gens[h.r.Intn(len(h.gens))](h.r, &h.u, h.c.clk.NowNs())
		}
		st := Step{Argv: argv, Conn: conn}
		env := h.sess.env()
		env.DB = h.sess.dbOf(st)
		if wouldExpire(model.Step(h.sess.st, env, argv), env.Now) {
			h.ctx.Count("steps_skipped_would_expire", 1)
			continue
		}
		h.log("%s", st.String())
		res := h.sess.Exec(st)
		if res.Skipped != "" {
			h.script = h.script[:len(h.script)-1]
			continue
		}
		h.ctx.Count("leader_steps", 1)
		if res.Vio != nil {
			h.report(res.Vio)
		}
	}
}

// leaderMoved: the node the history is driven through is no longer the leader (an election the history
// did not ask for: possible when the machine is so slow that heartbeats time out). What was observed
// since cannot be judged against "the leader": the history ends as inconclusive.
func (h *c07Run) leaderMoved() bool {
	if h.sess == nil {
		return false
	}
	l := h.c.leader()
	if l != nil && l.in == h.sess.in {
		return false
	}
	h.ctx.Inconclusive("C07: leadership moved spontaneously during a history (not requested by the harness)")
	h.ctx.Count("spontaneous_leader_changes", 1)
	h.bad = true
	return true
}

// violate records a violation unless the history lost its footing (see leaderMoved).
func (h *c07Run) violate(v Violation) {
	if h.leaderMoved() {
		return
	}
	h.ctx.Violate(v)
}

func (h *c07Run) report(v *Violation) {
	if h.leaderMoved() {
		return
	}
	v.Lane = h.lane
	cm, _ := v.Case.(map[string]interface{})
	if cm == nil {
		cm = map[string]interface{}{}
	}
	cm["script"] = h.scriptCopy()
	v.Case = cm
	v.What = "on the leader: " + v.What
	v.Key = "c07|" + v.Key
	h.ctx.Violate(*v)
	h.bad = true
}

var c07WriteVerbs = map[string]bool{"SET": true, "MSET": true, "DEL": true, "INCR": true, "INCRBY": true, "DECR": true, "APPEND": true, "SETRANGE": true, "RENAME": true,
	"GETDEL": true, "EXPIREAT": true, "PEXPIREAT": true, "PERSIST": true, "RPUSH": true, "LPUSH": true, "LPOP": true, "RPOP": true, "LSET": true, "HSET": true, "HDEL": true,
	"HINCRBY": true, "SADD": true, "SREM": true, "ZADD": true, "ZINCRBY": true, "ZREM": true, "SUNIONSTORE": true, "FLUSHDB": true, "GETEX": true, "INCRBYFLOAT": true,
	"HSETNX": true, "EXPIRE": true, "PEXPIRE": true, "LTRIM": true}

// followerWrite sends one write to a node that is not the leader.
func (h *c07Run) followerWrite() {
	l := h.c.leader()
	var cands []*cNode
	for _, n := range h.c.aliveNodes() {
		if n != l {
			cands = append(cands, n)
		}
	}
	if l == nil || len(cands) == 0 {
		return
	}
	f := cands[h.r.Intn(len(cands))]
	var argv []string
	for {
		argv = genWriteOp(h.r, h.c.clk.NowNs(), true, false)
		if c07WriteVerbs[strings.ToUpper(argv[0])] {
			break
		}
	}
	cl, ok := h.fconn[f.id]
	if !ok {
		var err error
		cl, err = DialHost(f.o.BindAddr, f.o.Port)
		if err != nil {
			h.ctx.Inconclusive("C07: cannot connect to follower " + f.id + ": " + err.Error())
			h.bad = true
			return
		}
		h.fconn[f.id] = cl
	}
	if h.r.Intn(3) == 0 {
		db := c07DBs[h.r.Intn(len(c07DBs))]
		v, _, err := cl.Do("SELECT", strconv.Itoa(db))
		h.log("%s> SELECT %d -> %s", f.id, db, v.String())
		if err == nil && !v.IsError() {
			h.fdb[f.id] = db
		}
	}
	db := h.fdb[f.id]
	env := model.Env{Now: h.c.clk.NowNs(), DB: db}
	outs := model.Step(h.sess.st, env, argv)
	if outs == nil || wouldExpire(outs, env.Now) {
		return
	}
	for _, o := range outs {
		if o.Follow != nil {
			// the reference needs the command's own reply to know the new state; a forwarded command has none
			return
		}
	}
	if id := matchFinding(h.ctx.Prop, h.sess.st, env, argv); id != "" {
		h.ctx.Filtered(id)
		return
	}
	if !h.converge("pre-follower-write") {
		return
	}
	before := h.c.dump(f)
	mark := h.c.nApply.Load()
	_ = mark
	h.c.mu.Lock()
	leaderSeen := len(h.c.applied[l.id])
	h.c.mu.Unlock()
	v, raw, err := cl.Do(argv...)
	h.log("%s(forward=%v db=%d)> %s -> %s", f.id, f.o.Forward, db, Step{Argv: argv}.String(), trunc(v.String(), 80))
	h.ctx.Eval(1)
	if err != nil {
		h.violate(Violation{Kind: "follower_io", Lane: h.lane, What: fmt.Sprintf("write %s sent to follower %s: %v (raw %q)", Step{Argv: argv}.String(), f.id, err, trunc(string(raw), 80)),
			Case: map[string]interface{}{"script": h.scriptCopy()}, Key: "c07|follower|io"})
		h.bad = true
		return
	}
	if !f.o.Forward {
		h.ctx.Class(fmt.Sprintf("%s|follower-reject|%s|%s", h.lane, strings.ToUpper(argv[0]), outcomeClass(v)))
		if !v.IsError() {
			h.violate(Violation{Kind: "follower_accepts", Lane: h.lane,
				What: fmt.Sprintf("follower %s (forwarding disabled) answered %s to the write %s instead of rejecting it", f.id, trunc(v.String(), 80), Step{Argv: argv}.String()),
				Case: map[string]interface{}{"script": h.scriptCopy()}, Key: "c07|follower|accepted|" + strings.ToUpper(argv[0])})
			h.bad = true
		}
		if !h.c.quiesce() {
			h.ctx.Inconclusive("C07: no quiescence after a rejected follower write")
			h.bad = true
			return
		}
		if d := model.DiffCanon(before, h.c.dump(f)); d != "" {
			h.violate(Violation{Kind: "follower_applies", Lane: h.lane,
				What: fmt.Sprintf("follower %s (forwarding disabled) changed its own dataset on the client write %s: %s", f.id, Step{Argv: argv}.String(), d),
				Case: map[string]interface{}{"script": h.scriptCopy()}, Key: "c07|follower|applied-locally|" + strings.ToUpper(argv[0])})
			h.bad = true
		}
		h.converge("follower-reject")
		return
	}
	// forwarding enabled
	h.ctx.Class(fmt.Sprintf("%s|follower-forward|%s|db=%d|%s", h.lane, strings.ToUpper(argv[0]), db, outcomeClass(v)))
	if v.IsError() {
		// a rejection is allowed by the property; the dataset must then be unchanged everywhere
		h.converge("follower-forward-rejected")
		return
	}
	arrived := waitFor(45*time.Second, func() bool {
		h.c.mu.Lock()
		defer h.c.mu.Unlock()
		for _, e := range h.c.applied[l.id][leaderSeen:] {
			if eqArgv(e.Cmd, argv) || eqArgv(e.CmdDec, argv) {
				return true
			}
		}
		return false
	})
	h.ctx.Count("forward_sent", 1)
	if !arrived {
		h.forwardLost(1, fmt.Sprintf("follower %s (forwarding enabled) answered %s to %s but the command did not appear in the leader's log within 45 s (90 gossip intervals)", f.id, trunc(v.String(), 40), Step{Argv: argv}.String()))
		return
	}
	if !h.c.quiesce() {
		h.ctx.Inconclusive("C07: no quiescence after a forwarded write")
		h.bad = true
		return
	}
	// the effect must be the one the reference gives the command in the connection's database
	ld := h.c.dump(h.c.leader())
	matched := false
	for i := range outs {
		o := &outs[i]
		if o.Follow != nil {
			continue
		}
		if model.DiffCanon(o.State.CanonAt(env.Now), ld) == "" {
			h.sess.st = o.State
			matched = true
			break
		}
	}
	if !matched {
		d := ""
		if len(outs) > 0 && outs[0].State != nil {
			d = model.DiffCanon(outs[0].State.CanonAt(env.Now), ld)
		}
		h.violate(Violation{Kind: "forward_effect", Lane: h.lane,
			What: fmt.Sprintf("write %s forwarded by follower %s from a connection on database %d: the cluster's dataset is not the one the command produces there: %s", Step{Argv: argv}.String(), f.id, db, d),
			Case: map[string]interface{}{"script": h.scriptCopy(), "leader_log_tail": h.c.logTail(l.id, 6)}, Key: fmt.Sprintf("c07|forward|effect|db0=%v", db == 0)})
		h.bad = true
		return
	}
	h.converge("follower-forward")
}

// forwardBurst sends several writes back to back through a forwarding follower (distinct keys, plus the
// same INCR several times): every one of them must reach the leader's log exactly once.
func (h *c07Run) forwardBurst() {
	l := h.c.leader()
	var f *cNode
	for _, n := range h.c.aliveNodes() {
		if n != l && n.o.Forward {
			f = n
			break
		}
	}
	if l == nil || f == nil || !h.converge("pre-forward-burst") {
		return
	}
	cl, ok := h.fconn[f.id]
	if !ok {
		var err error
		if cl, err = DialHost(f.o.BindAddr, f.o.Port); err != nil {
			h.ctx.Inconclusive("C07: cannot connect to follower " + f.id)
			h.bad = true
			return
		}
		h.fconn[f.id] = cl
	}
	db := h.fdb[f.id]
	h.burstSeq++
	var cmds [][]string
	for k := 0; k < 4; k++ {
		cmds = append(cmds, []string{"SET", fmt.Sprintf("burst%d-%d", h.burstSeq, k), fmt.Sprintf("v%d", k)})
	}
	same := 2 + h.r.Intn(3)
	for k := 0; k < same; k++ {
		cmds = append(cmds, []string{"INCR", fmt.Sprintf("burstcnt%d", h.burstSeq)})
	}
	h.r.Shuffle(len(cmds), func(a, b int) { cmds[a], cmds[b] = cmds[b], cmds[a] })
	h.c.mu.Lock()
	seen := len(h.c.applied[l.id])
	h.c.mu.Unlock()
	for _, argv := range cmds {
		v, _, err := cl.Do(argv...)
		h.log("%s(forward burst db=%d)> %s -> %s", f.id, db, Step{Argv: argv}.String(), trunc(v.String(), 40))
		if err != nil || v.IsError() {
			h.violate(Violation{Kind: "forward_reply", Lane: h.lane, What: fmt.Sprintf("forwarding follower %s answered %s / %v to %s", f.id, v.String(), err, Step{Argv: argv}.String()),
				Case: map[string]interface{}{"script": h.scriptCopy()}, Key: "c07|forward|burst-reply"})
			h.bad = true
			return
		}
	}
	h.ctx.Eval(1)
	h.ctx.Class(fmt.Sprintf("%s|forward-burst|same=%d|db=%d", h.lane, same, db))
	count := func() (int, int) {
		h.c.mu.Lock()
		defer h.c.mu.Unlock()
		sets, incrs := 0, 0
		for _, e := range h.c.applied[l.id][seen:] {
			if len(e.CmdDec) == 0 {
				continue
			}
			switch {
			case e.CmdDec[0] == "SET" && strings.HasPrefix(e.CmdDec[1], fmt.Sprintf("burst%d-", h.burstSeq)):
				sets++
			case e.CmdDec[0] == "INCR" && e.CmdDec[1] == fmt.Sprintf("burstcnt%d", h.burstSeq):
				incrs++
			}
		}
		return sets, incrs
	}
	arrived := waitFor(45*time.Second, func() bool { s, i := count(); return s >= 4 && i >= same })
	// let a duplicate, if any, arrive too
	h.c.quiesce()
	time.Sleep(600 * time.Millisecond)
	h.c.quiesce()
	sets, incrs := count()
	h.ctx.Count("forward_sent", int64(len(cmds)))
	if sets > 4 || incrs > same {
		h.violate(Violation{Kind: "forward_duplicate", Lane: h.lane,
			What: fmt.Sprintf("follower %s acknowledged 4 SETs of distinct keys and %d identical INCRs sent back to back; the leader's log received %d SETs and %d INCRs", f.id, same, sets, incrs),
			Case: map[string]interface{}{"script": h.scriptCopy(), "leader_log_tail": h.c.logTail(l.id, 12)}, Key: "c07|forward|burst|duplicate"})
		h.bad = true
		return
	}
	if !arrived || sets != 4 || incrs != same {
		h.forwardLost(4-sets+same-incrs, fmt.Sprintf("follower %s acknowledged 4 SETs of distinct keys and %d identical INCRs sent back to back; the leader's log received %d SETs and %d INCRs (waited up to 45 s)", f.id, same, sets, incrs))
		return
	}
	// reference: the commands commute
	env := model.Env{Now: h.c.clk.NowNs(), DB: db}
	for _, argv := range cmds {
		outs := model.Step(h.sess.st, env, argv)
		if len(outs) == 0 {
			continue
		}
		h.sess.st = outs[0].State
	}
	h.converge("forward-burst")
}

// forwardLost records forwarded writes that never reached the leader. Forwarding is fire-and-forget
// (the follower answers OK before anything is delivered), so a single loss cannot be told from the
// listed sporadic loss (C07-KF3) on the spot: the verdict is taken over the whole run in c07Aggregate.
// The history ends here: the lost command might still arrive later.
func (h *c07Run) forwardLost(n int, what string) {
	h.ctx.Count("forward_lost", int64(n))
	h.log("!! %s", what)
	l := h.c.leader()
	tail := []string{}
	if l != nil {
		tail = h.c.logTail(l.id, 8)
	}
	h.ctx.mu.Lock()
	h.ctx.extra["c07_forward_lost_example"] = map[string]interface{}{"what": what, "script_tail": lastN(h.scriptCopy(), 25), "leader_log_tail": tail, "server_log_tail": serverLog.tail(40)}
	h.ctx.mu.Unlock()
	h.bad = true
}

func lastN(s []string, n int) []string {
	if len(s) > n {
		return s[len(s)-n:]
	}
	return s
}

// c07Aggregate decides the forwarded-write losses of the whole run (parent process, after the workers' results were merged).
func c07Aggregate(ctx *Ctx) {
	lost, sent := ctx.Counter("forward_lost"), ctx.Counter("forward_sent")
	if lost == 0 {
		return
	}
	tolerated := sent / 50
	if tolerated < 2 {
		tolerated = 2
	}
	if findingOpen("C07-KF3") && lost <= tolerated {
		ctx.KnownReproduced("C07-KF3")
		return
	}
	ex := ctx.extra["c07_forward_lost_example"]
	ctx.Violate(Violation{Kind: "forward_lost", Lane: "history",
		What: fmt.Sprintf("%d of %d writes that forwarding followers acknowledged with OK never appeared in the leader's log (each waited for 45 s)", lost, sent),
		Case: map[string]interface{}{"example": ex}, Key: "c07|forward|lost"})
}

// stalledSnapshot: see the call site. false = history cannot go on.
func (h *c07Run) stalledSnapshot(f *cNode, snapT uint64) bool {
	entered, release := h.c.stallPersist(f.id)
	defer release()
	db := 0
	step := func(argv ...string) bool {
		st := Step{Argv: argv, DB: &db}
		h.log("%s", st.String())
		if res := h.sess.Exec(st); res.Vio != nil {
			h.report(res.Vio)
			return false
		}
		return true
	}
	// writes until a snapshot of f is waiting in Persist
	waiting := false
	for k := 0; k < int(4*snapT)+20 && !waiting; k++ {
		if !step("RPUSH", "stall:list", fmt.Sprintf("a%d", k)) {
			return false
		}
		select {
		case <-entered:
			waiting = true
		case <-time.After(15 * time.Millisecond):
		}
	}
	if !waiting {
		select {
		case <-entered:
			waiting = true
		case <-time.After(2 * time.Second):
		}
	}
	if !waiting {
		h.ctx.Count("stalled_snapshot_not_triggered", 1)
		return true
	}
	before := h.c.stats(f)["last_snapshot_index"]
	// fewer writes than the snapshot threshold, so that no further snapshot replaces the stalled one
	k := int(snapT) - 3
	if k > 6 {
		k = 6
	}
	for j := 0; j < k; j++ {
		ok := false
		switch j % 3 {
		case 0:
			ok = step("INCR", "stall:cnt")
		case 1:
			ok = step("RPUSH", "stall:list", fmt.Sprintf("b%d", j))
		case 2:
			ok = step("APPEND", "stall:str", "x")
		}
		if !ok {
			return false
		}
	}
	// f must have applied them while its snapshot is held
	ll := h.c.leader()
	applied := waitFor(30*time.Second, func() bool {
		return ll != nil && h.c.stats(f)["applied_index"] == h.c.stats(ll)["last_log_index"]
	})
	release()
	if !applied {
		h.ctx.Count("stalled_snapshot_blocked_apply", 1) // applying waits for the snapshot on this build: nothing to observe
	}
	done := waitFor(30*time.Second, func() bool { return h.c.stats(f)["last_snapshot_index"] != before })
	h.log("-- snapshot of %s held in Persist while %d more entries were applied (applied during the hold: %v, snapshot index %s -> %s)", f.id, k, applied, before, h.c.stats(f)["last_snapshot_index"])
	if done && applied {
		h.ctx.Count("stalled_snapshots", 1)
		h.ctx.Class(h.lane + "|stalled-snapshot|restart")
	}
	return true
}

func eqArgv(a, b []string) bool {
	if len(a) != len(b) {
		return false
	}
	for i := range a {
		if a[i] != b[i] {
			return false
		}
	}
	return true
}

func c07History(ctx *Ctx, i int) {
	r := rand.New(rand.NewSource(ctx.Seed*7_000_003 + int64(i)))
	size := 3
	if !ctx.Quick() && i%3 == 1 {
		size = 5
	}
	restartLane := i%2 == 1
	lane := "history"
	var snapT uint64
	var snapI time.Duration
	if restartLane {
		lane = "history-disk"
		snapT, snapI = uint64(6+r.Intn(20)), 40*time.Millisecond
	}
	c := newCluster(ctx, restartLane, snapT, snapI)
	defer c.close()
	h := &c07Run{ctx: ctx, c: c, r: r, lane: lane, gens: allGens(), u: allUniverse(), fconn: map[string]*Client{}, fdb: map[string]int{}}
	defer func() {
		for _, cl := range h.fconn {
			cl.Close()
		}
		if h.sess != nil {
			h.sess.closeConns()
		}
	}()
	for k := 0; k < size; k++ {
		// the last node does not forward; the others do
		if _, ok := c.addNode(k != size-1); !ok {
			if len(ctx.broken) == 0 {
				ctx.Inconclusive(fmt.Sprintf("C07: cluster of %d did not form within the watchdog (node %d)", size, k))
			}
			return
		}
	}
	ctx.Count("clusters_formed", 1)
	if os.Getenv("VERIF_C07_RACE") != "" {
		// under the race detector: clients keep reading on every node (reads are served locally) while
		// the state machines apply the history
		stop := make(chan struct{})
		var rwg sync.WaitGroup
		defer func() { close(stop); rwg.Wait() }()
		for _, n := range c.nodes {
			rwg.Add(1)
			go func(n *cNode) {
				defer rwg.Done()
				cl, err := DialHost(n.o.BindAddr, n.o.Port)
				if err != nil {
					return
				}
				defer cl.Close()
				rr := rand.New(rand.NewSource(int64(len(n.id))))
				keys := []string{"a", "b", "c", "d", "e", "f", "k1", "k2", "k3", "k4", "k5"}
				reads := [][]string{{"GET"}, {"LRANGE", "0", "-1"}, {"HGETALL"}, {"SMEMBERS"}, {"ZRANGE", "0", "-1", "WITHSCORES"}, {"TYPE"}, {"TTL"}, {"STRLEN"}, {"SCARD"}, {"HLEN"}, {"LLEN"}, {"ZCARD"}}
				for k := 0; ; k++ {
					select {
					case <-stop:
						return
					default:
					}
					if lk, _ := c.lastKey.Load().(string); lk != "" && rr.Intn(5) != 0 {
						// read the key the state machines are working on, with every type's reader
						var db int
						var key string
						if n, _ := fmt.Sscanf(lk, "%d ", &db); n == 1 {
							key = lk[strings.Index(lk, " ")+1:]
						}
						if _, _, err := cl.Do("SELECT", strconv.Itoa(db)); err != nil {
							return
						}
						for _, rd := range reads[:5] {
							if _, _, err := cl.Do(append([]string{rd[0], key}, rd[1:]...)...); err != nil {
								return // node shut down
							}
							ctx.Count("race_lane_background_reads", 1)
						}
						continue
					}
					if k%16 == 0 {
						cl.Do("SELECT", strconv.Itoa(c07DBs[rr.Intn(len(c07DBs))]))
					}
					rd := reads[rr.Intn(len(reads))]
					argv := append([]string{rd[0], keys[rr.Intn(len(keys))]}, rd[1:]...)
					if _, _, err := cl.Do(argv...); err != nil {
						return // node shut down
					}
					ctx.Count("race_lane_background_reads", 1)
				}
			}(n)
		}
	}
	h.attach(c.leader())
	chunk := ctx.N(25, 40)
	phase := func(name string, steps int) bool {
		for done := 0; done < steps && !h.bad; done += chunk {
			h.leaderSteps(chunk)
			if h.bad {
				return false
			}
			if !h.converge(name) {
				return false
			}
			for q := 0; q < 2 && !h.bad; q++ {
				h.followerWrite()
			}
			if !h.bad && h.r.Intn(2) == 0 {
				h.forwardBurst()
			}
		}
		return !h.bad
	}
	if !phase("writes", ctx.N(50, 120)) {
		return
	}
	if os.Getenv("VERIF_C07_RACE") != "" {
		// race lane: a run of commands that update collections in place, on four keys, while the
		// background readers follow the key being applied on every node
		db := 0
		for k := 0; k < 160 && !h.bad; k++ {
			var argv []string
			switch k % 8 {
			case 0:
				argv = []string{"RPUSH", "race:l", fmt.Sprintf("e%d", k)}
			case 1:
				argv = []string{"LSET", "race:l", "0", fmt.Sprintf("x%d", k)}
			case 2:
				argv = []string{"SADD", "race:s", fmt.Sprintf("m%d", k)}
			case 3:
				argv = []string{"HSET", "race:h", fmt.Sprintf("f%d", k%24), fmt.Sprintf("v%d", k)}
			case 4:
				argv = []string{"ZADD", "race:z", strconv.Itoa(k), fmt.Sprintf("m%d", k%24)}
			case 5:
				argv = []string{"SREM", "race:s", fmt.Sprintf("m%d", k-3)}
			case 6:
				argv = []string{"HDEL", "race:h", fmt.Sprintf("f%d", (k+5)%24)}
			case 7:
				argv = []string{"ZINCRBY", "race:z", "1.5", fmt.Sprintf("m%d", (k+1)%24)}
			}
			st := Step{Argv: argv, DB: &db}
			h.log("%s", st.String())
			if res := h.sess.Exec(st); res.Vio != nil {
				h.report(res.Vio)
			}
		}
		if h.bad || !h.converge("race-burst") {
			return
		}
	}
	// first use of databases nobody has selected yet, from every node at the same moment
	if !h.firstUse(i) {
		return
	}
	// explicit snapshot request on the leader
	if restartLane || i%4 == 0 {
		v, _, crash := c.leader().in.Do("SAVE")
		h.log("SAVE -> %s %s", v.String(), crash)
		if crash != "" {
			ctx.Violate(Violation{Kind: "crash", Lane: lane, What: "SAVE on the cluster leader: " + crash, Case: map[string]interface{}{"script": h.scriptCopy()}, Key: "c07|crash|save"})
			return
		}
		time.Sleep(50 * time.Millisecond)
		if !phase("after-save", chunk) {
			return
		}
	}
	// restart a follower from its own disk state
	if restartLane {
		var f *cNode
		for _, n := range c.aliveNodes() {
			if n != c.leader() {
				f = n
				break
			}
		}
		// Delay injection: hold this follower's next raft snapshot between Snapshot() (which fixes the
		// snapshot's log index) and Persist() while it applies further non-idempotent writes. The
		// snapshot it restarts from must still be the state at that index.
		if !h.stalledSnapshot(f, snapT) {
			return
		}
		h.log("-- shut down follower %s", f.id)
		if cl, ok := h.fconn[f.id]; ok {
			cl.Close()
		}
		delete(h.fconn, f.id)
		delete(h.fdb, f.id) // a new connection starts on database 0
		c.shutdownNode(f)
		if !waitFor(60*time.Second, func() bool { return c.leader() != nil }) {
			ctx.Inconclusive("C07: no leader after a follower shutdown")
			return
		}
		if c.leader().in != h.sess.in {
			h.attach(c.leader())
		}
		h.leaderSteps(chunk)
		if h.bad {
			return
		}
		// The old instance lives on in this process and never releases its lock on the raft log file
		// (a real restart is a new process): restart from a copy of the directory taken after the shutdown.
		nd := f.dir + "-restart"
		if err := copyDir(f.dir, nd); err != nil {
			ctx.Broken("C07: cannot copy the node directory: " + err.Error())
			return
		}
		f.dir = nd
		// likewise the old instance keeps its listeners: the restarted node comes back on new ports
		f.o.Port, f.o.DiscoveryPort, f.o.RaftPort = freePort(), freePort(), freePort()
		h.log("-- restart follower %s from %s", f.id, f.dir)
		f.o.Bootstrap = false
		f.o.JoinAddr = fmt.Sprintf("%s/%s:%d", c.leader().id, c.leader().o.BindAddr, c.leader().o.DiscoveryPort)
		if !c.startNode(f) {
			if len(ctx.broken) == 0 {
				ctx.Inconclusive("C07: restarted follower did not rejoin within the watchdog")
			}
			return
		}
		ctx.Count("restarts", 1)
		if !h.converge("follower-restart") {
			return
		}
	}
	// late joiner
	h.log("-- new node joins")
	if _, ok := c.addNode(true); !ok {
		if len(ctx.broken) == 0 {
			ctx.Inconclusive("C07: late joiner did not join within the watchdog")
		}
		return
	}
	ctx.Count("late_joiners", 1)
	if !h.converge("late-join") {
		return
	}
	if !phase("after-join", chunk) {
		return
	}
	// leader change: shut the leader down
	old := c.leader()
	h.log("-- shut down leader %s", old.id)
	h.sess.closeConns()
	h.sess.conns, h.sess.connDB = nil, nil
	c.shutdownNode(old)
	if !waitFor(90*time.Second, func() bool { l := c.leader(); return l != nil && l != old }) {
		ctx.Inconclusive("C07: no new leader within the watchdog after the leader shut down")
		return
	}
	ctx.Count("leader_changes", 1)
	h.attach(c.leader())
	if !h.converge("leader-change") {
		return
	}
	if !phase("after-leader-change", chunk) {
		return
	}
	c.checkApplyOrder(lane, h.scriptCopy)
	if i < 2 {
		ctx.Sample(lane, map[string]interface{}{"script_head": head(h.script, 30), "steps": len(h.script)})
	}
}

func head(s []string, n int) []string {
	if len(s) > n {
		return s[:n]
	}
	return s
}

// ---------------------------------------------------------------------------
// witnesses of the listed findings

func smallCluster(ctx *Ctx, size int) (*cCluster, bool) {
	c := newCluster(ctx, false, 0, 0)
	for k := 0; k < size; k++ {
		if _, ok := c.addNode(true); !ok {
			c.close()
			return nil, false
		}
	}
	return c, true
}

// c07WitnessSpop: a randomised pop replicated as a command leaves the replicas with different sets.
func c07WitnessSpop(ctx *Ctx) bool {
	c, ok := smallCluster(ctx, 3)
	if !ok {
		ctx.Inconclusive("C07 witness: cluster did not form")
		return false
	}
	defer c.close()
	l := c.leader()
	args := []string{"SADD", "s"}
	for m := 0; m < 40; m++ {
		args = append(args, fmt.Sprintf("m%d", m))
	}
	l.in.Do(args...)
	l.in.Do("SPOP", "s", "20")
	if !c.quiesce() {
		ctx.Inconclusive("C07 witness: no quiescence")
		return false
	}
	ctx.Eval(1)
	ld := c.dump(l)
	for _, n := range c.aliveNodes() {
		if d := model.DiffCanon(ld, c.dump(n)); d != "" {
			if !findingOpen("C07-KF1") {
				ctx.Violate(Violation{Kind: "divergence", Lane: "witness", What: "SADD s m0..m39; SPOP s 20 on the leader: replicas hold different sets: " + trunc(d, 300),
					Case: map[string]interface{}{"script": []string{"SADD s m0..m39", "SPOP s 20"}}, Key: "c07|divergence|spop"})
			}
			return true
		}
	}
	return false
}

// c07WitnessExpired: commands that touch an expired key on the leader (lazy deletion goes through the log).
// Returns true if one of them never returned (the listed finding C07-KF2, if listed).
func c07WitnessExpired(ctx *Ctx) bool {
	c, ok := smallCluster(ctx, 3)
	if !ok {
		ctx.Inconclusive("C07 witness: cluster did not form")
		return false
	}
	l := c.leader()
	type probe struct {
		setup []string
		cmd   []string
	}
	probes := []probe{
		{[]string{"SET", "K", "v"}, []string{"GET", "K"}}, {[]string{"SET", "K", "v"}, []string{"MGET", "K", "other"}},
		{[]string{"SET", "K", "v"}, []string{"STRLEN", "K"}}, {[]string{"SET", "K", "v"}, []string{"GETRANGE", "K", "0", "-1"}},
		{[]string{"SET", "K", "v"}, []string{"TYPE", "K"}}, {[]string{"SET", "K", "v"}, []string{"TTL", "K"}},
		{[]string{"SET", "K", "v"}, []string{"EXISTS", "K"}}, {[]string{"RPUSH", "K", "a"}, []string{"LRANGE", "K", "0", "-1"}},
		{[]string{"RPUSH", "K", "a"}, []string{"LLEN", "K"}}, {[]string{"HSET", "K", "f", "v"}, []string{"HGETALL", "K"}},
		{[]string{"SADD", "K", "m"}, []string{"SMEMBERS", "K"}}, {[]string{"SADD", "K", "m"}, []string{"SUNION", "K", "other"}},
		{[]string{"ZADD", "K", "1", "m"}, []string{"ZCARD", "K"}}, {[]string{"ZADD", "K", "1", "m"}, []string{"ZRANGE", "K", "0", "-1"}},
		{[]string{"SET", "K", "v"}, []string{"APPEND", "K", "x"}}, {[]string{"SET", "K", "1"}, []string{"INCR", "K"}},
		{[]string{"SET", "K", "v"}, []string{"SET", "K", "w", "NX"}}, {[]string{"SET", "K", "v"}, []string{"GETDEL", "K"}},
		{[]string{"SET", "K", "v"}, []string{"GETEX", "K", "PERSIST"}}, {[]string{"SET", "K", "v"}, []string{"RENAME", "K", "K2"}},
		{[]string{"SET", "K", "v"}, []string{"DEL", "K"}}, {[]string{"SET", "K", "v"}, []string{"PERSIST", "K"}},
		{[]string{"RPUSH", "K", "a"}, []string{"LPUSH", "K", "b"}}, {[]string{"RPUSH", "K", "a"}, []string{"LPOP", "K"}},
		{[]string{"HSET", "K", "f", "v"}, []string{"HSET", "K", "g", "w"}}, {[]string{"HSET", "K", "f", "v"}, []string{"HDEL", "K", "f"}},
		{[]string{"SADD", "K", "m"}, []string{"SADD", "K", "n"}}, {[]string{"SADD", "K", "m"}, []string{"SREM", "K", "m"}},
		{[]string{"SADD", "K", "m"}, []string{"SUNIONSTORE", "dst", "K"}}, {[]string{"ZADD", "K", "1", "m"}, []string{"ZADD", "K", "2", "n"}},
		{[]string{"ZADD", "K", "1", "m"}, []string{"ZINCRBY", "K", "1", "m"}}, {[]string{"SET", "K", "v"}, []string{"EXPIRE", "K", "100"}},
	}
	sub := func(a []string, key string) []string {
		out := make([]string, len(a))
		for i, x := range a {
			out[i] = strings.ReplaceAll(x, "K", key)
			if x != "K" && x != "K2" {
				out[i] = x
			}
			if x == "K2" {
				out[i] = key + "-2"
			}
		}
		return out
	}
	only := os.Getenv("VERIF_C07_PROBE")
	known := knownExpiredHangs()
	var last []probe
	if only == "" {
		// commands listed under C07-KF2 are not run, except the first one, which goes last as the witness
		var rest []probe
		for _, p := range probes {
			if known[p.cmd[0]] {
				if len(last) == 0 {
					last = append(last, p)
				} else {
					ctx.Filtered("C07-KF2")
				}
				continue
			}
			rest = append(rest, p)
		}
		probes = append(rest, last...)
	}
	for pi, p := range probes {
		if only != "" && p.cmd[0] != only {
			continue
		}
		key := fmt.Sprintf("exp%d", pi)
		l.in.Do(sub(p.setup, key)...)
		l.in.Do("PEXPIRE", key, "100")
		if !c.quiesce() {
			ctx.Inconclusive("C07 witness: no quiescence")
			c.close()
			return false
		}
		c.clk.Advance(200e6)
		cmd := sub(p.cmd, key)
		done := make(chan resp.Value, 1)
		go func() {
			v, _, _ := l.in.Do(cmd...)
			done <- v
		}()
		ctx.Eval(1)
		select {
		case v := <-done:
			ctx.Class("witness|expired-on-leader|" + cmd[0] + "|" + outcomeClass(v))
		case <-time.After(20 * time.Second):
			st := c.stats(l)
			what := fmt.Sprintf("%s; PEXPIRE %s 100; +200 ms; %s on the cluster leader did not return within 20 s (leader applied_index=%s commit_index=%s last_log_index=%s fsm_pending=%s)",
				Step{Argv: sub(p.setup, key)}.String(), key, Step{Argv: cmd}.String(), st["applied_index"], st["commit_index"], st["last_log_index"], st["fsm_pending"])
			if !(findingOpen("C07-KF2") && known[cmd[0]]) {
				ctx.Violate(Violation{Kind: "hang", Lane: "witness", What: what, Case: map[string]interface{}{"script": []string{Step{Argv: sub(p.setup, key)}.String(), "PEXPIRE " + key + " 100", "[+200ms]", Step{Argv: cmd}.String()}},
					Key: "c07|hang|expired-on-leader|" + cmd[0]})
			}
			ctx.Extra("c07_expired_on_leader", what)
			// the node is stuck: it cannot be shut down; leave it to the end of the worker process
			setHook(nil)
			return findingOpen("C07-KF2") && known[cmd[0]]
		}
	}
	// all returned: the cluster must still make progress and agree
	l.in.Do("SET", "after", "v")
	okq := c.quiesce()
	if okq {
		ld := c.dump(l)
		for _, n := range c.aliveNodes() {
			ctx.Eval(1)
			if d := model.DiffCanon(ld, c.dump(n)); d != "" {
				ctx.Violate(Violation{Kind: "divergence", Lane: "witness", What: "after commands touching expired keys on the leader, node " + n.id + " differs from the leader: " + trunc(d, 400),
					Case: map[string]interface{}{"script": "expired-key probes"}, Key: "c07|divergence|expired-probes"})
			}
		}
	} else {
		ctx.Inconclusive("C07 witness: no quiescence after the expired-key probes")
	}
	c.close()
	return false
}

// knownExpiredHangs: the commands listed under C07-KF2 (they reach getValues with the expired key).
func knownExpiredHangs() map[string]bool {
	out := map[string]bool{}
	for _, f := range loadFindings() {
		if f.ID == "C07-KF2" && f.Status == "open" {
			for _, c := range f.Commands {
				out[c] = true
			}
		}
	}
	return out
}

// c07WitnessSkew: a relative expiry is replicated as typed and evaluated against each replica's own
// clock when it is applied, so replicas whose clocks differ store different deadlines.
func c07WitnessSkew(ctx *Ctx) bool {
	c := newCluster(ctx, false, 0, 0)
	c.skew = []int64{0, 5e9, -3e9}
	for k := 0; k < 3; k++ {
		if _, ok := c.addNode(true); !ok {
			c.close()
			ctx.Inconclusive("C07 witness: cluster did not form")
			return false
		}
	}
	defer c.close()
	l := c.leader()
	script := []string{"SET abs v PXAT <now+100s>", "SET rel v EX 100", "RPUSH lst a", "EXPIRE lst 50"}
	l.in.Do("SET", "abs", "v", "PXAT", itoa(c.clk.NowNs()/1e6+100000))
	l.in.Do("SET", "rel", "v", "EX", "100")
	l.in.Do("RPUSH", "lst", "a")
	l.in.Do("EXPIRE", "lst", "50")
	if !c.quiesce() {
		ctx.Inconclusive("C07 witness: no quiescence")
		return false
	}
	ctx.Eval(1)
	ld := c.dump(l)
	reproduced := false
	for _, n := range c.aliveNodes() {
		if n == l {
			continue
		}
		d := model.DiffCanon(ld, c.dump(n))
		if d == "" {
			continue
		}
		// only the keys with a relative expiry may differ, and only in their deadline
		if strings.Contains(d, `"abs"`) {
			ctx.Violate(Violation{Kind: "divergence", Lane: "witness", What: "replicas with skewed clocks (+5 s, -3 s) disagree on a key with an ABSOLUTE deadline: " + trunc(d, 300),
				Case: map[string]interface{}{"script": script}, Key: "c07|divergence|skew-absolute"})
			continue
		}
		reproduced = true
		if !findingOpen("C07-KF4") {
			ctx.Violate(Violation{Kind: "divergence", Lane: "witness", What: "replicas whose clocks differ (+5 s, -3 s) hold different deadlines for keys set with a relative expiry: " + trunc(d, 300),
				Case: map[string]interface{}{"script": script}, Key: "c07|divergence|skew-relative"})
		}
	}
	return reproduced
}

// c07RaceLane runs in-memory cluster histories in a child process built with the race detector and
// turns its reports about repository code into violations. The returned channel is closed when done.
func c07RaceLane(ctx *Ctx) chan struct{} {
	done := make(chan struct{})
	bin := os.Getenv("VERIFD_RACE_BIN")
	if bin == "" {
		ctx.Count("race_lane_skipped_no_race_build", 1)
		close(done)
		return done
	}
	go func() {
		defer close(done)
		root := mkScratch("c07race")
		defer os.RemoveAll(root)
		out := filepath.Join(root, "out.json")
		raceLog := filepath.Join(root, "race")
		errf := filepath.Join(root, "stderr")
		ef, _ := os.Create(errf)
		cmd := exec.Command("timeout", "-s", "QUIT", strconv.Itoa(int(ctx.Watchdog().Seconds())), bin, "worker", "-prop", "C07", "-tier", ctx.Tier,
			"-seed", strconv.FormatInt(ctx.Seed, 10), "-shard", "0", "-n", "1", "-out", out)
		cmd.Env = append(os.Environ(), "VERIF_C07_RACE=1", "GORACE=halt_on_error=0 log_path="+raceLog)
		cmd.Stdout, cmd.Stderr = ef, ef
		err := cmd.Run()
		ef.Close()
		if b, rerr := os.ReadFile(out); rerr == nil {
			var e ctxExport
			if json.Unmarshal(b, &e) == nil {
				// the child's evaluations are the same kind of cases as the main lane's; only its verdicts are merged
				e.Samples = nil
				ctx.merge(e)
			}
		}
		if err != nil {
			code := -1
			if ee, ok := err.(*exec.ExitError); ok {
				code = ee.ExitCode()
			}
			switch {
			case code == 66:
				// the race detector's exit status after reports: read from its log below
			case code == 124:
				ctx.Inconclusive("C07 race lane: watchdog")
			default:
				fatal := fatalSection(errf, 6000)
				p := saveArtefact(ctx.Prop, "race-lane-crash", fatal+"\n[...]\n"+tailFile(errf, 8000))
				ctx.Violate(Violation{Kind: "crash", Lane: "race-detector", What: fmt.Sprintf("the race-build child died (exit %d): %s", code, trunc(fatal, 1200)),
					Case: map[string]interface{}{"stderr": p}, Key: "c07|race-lane-crash|" + firstFatalLine(fatal)})
			}
		}
		n := collectRaceReports(ctx, raceLog, "c07", map[string]interface{}{"lane": "cluster histories under -race"})
		ctx.Count("race_reports", int64(n))
		ctx.Count("race_lane_runs", 1)
	}()
	return done
}
