package main

import (
	"fmt"
	"os"
	"path/filepath"
	"sort"
	"strings"
	"sync/atomic"
	"time"

	"github.com/echovault/sugardb/sugardb"

	"verif/harness/model"
	"verif/harness/resp"
)

func init() {
	registerCheck("C06", "exploration", checkC06)
}

// aclTemplates is the harness's own declarative key/channel table, written from the command syntax in
// the documentation (DESIGN.md Appendix C), independently of the server's key extraction functions.
// Placeholders: R:<t> a key the command only reads, W:<t> a key it may create/change/delete, B:<t> both,
// S:<t> the source of a move (write key; whether it is also a read key is non-deciding), C a channel.
// <t> is the value type the key should hold so that the command would succeed if it were allowed.
var aclTemplates = []string{
	"GET R:s", "STRLEN R:s", "GETRANGE R:s 0 -1", "SUBSTR R:s 0 1", "TTL R:s", "PTTL R:s", "EXPIRETIME R:s", "PEXPIRETIME R:s", "TYPE R:s",
	"MGET R:s R:s", "MGET R:s R:s R:s", "TOUCH R:s R:s",
	"SET W:s v", "SET W:s v NX", "SET B:s v GET", "SET B:s v XX GET",
	// every position the GET option can take among the other options
	"SET B:s v EX 100 GET", "SET B:s v PX 100000 GET", "SET B:s v EXAT 1893459999 GET", "SET B:s v PXAT 1893459999000 GET", "SET B:s v GET EX 100", "SET B:s v NX GET", "SET B:s v NX EX 100 GET", "SET B:s v GET XX PX 5000",
	"SET B:s v get", "SET B:s v ex 100 get", "SET W:s v EX 100", "SET W:s v XX PX 100000", "SETRANGE W:s 0 v", "APPEND W:s v", "INCR W:n", "DECR W:n", "INCRBY W:n 2", "DECRBY W:n 2", "INCRBYFLOAT W:n 1.5",
	"PERSIST W:s", "EXPIRE W:s 100", "PEXPIRE W:s 100000", "EXPIREAT W:s 1893459999", "PEXPIREAT W:s 1893459999000",
	"MSET W:s v W:s v", "MSET W:s v W:s v W:s v", "DEL W:s", "DEL W:s W:s", "DEL W:s W:s W:s",
	"GETDEL B:s", "GETEX B:s", "GETEX B:s EX 100", "RENAME S:s W:s",
	"RANDOMKEY", "FLUSHDB", "FLUSHALL", "SAVE", "LASTSAVE", "REWRITEAOF", "COMMANDS", "COMMAND|COUNT", "COMMAND|LIST", "COMMAND|DOCS", "MODULE|LIST",
	"ACL|CAT", "ACL|USERS", "ACL|WHOAMI", "ACL|LIST", "ACL|GETUSER default", "ACL|SETUSER zzz on", "ACL|DELUSER zzz", "SELECT 3", "SWAPDB 0 1",
	"HGET R:h f", "HMGET R:h f g", "HSTRLEN R:h f", "HEXISTS R:h f", "HRANDFIELD R:h", "HVALS R:h", "HKEYS R:h", "HLEN R:h", "HGETALL R:h",
	"HSET W:h f v", "HSETNX W:h g v", "HINCRBY W:h n 1", "HINCRBYFLOAT W:h n 1.5", "HDEL W:h f",
	"LLEN R:l", "LRANGE R:l 0 -1", "LINDEX R:l 0",
	"LPUSH W:l e", "LPUSHX W:l e", "RPUSH W:l e", "RPUSHX W:l e", "LPOP W:l", "RPOP W:l", "LSET W:l 0 e", "LTRIM W:l 0 5", "LREM W:l 0 e", "LMOVE S:l W:l LEFT RIGHT",
	"SCARD R:t", "SISMEMBER R:t m", "SMISMEMBER R:t m n", "SMEMBERS R:t", "SRANDMEMBER R:t",
	"SDIFF R:t R:t", "SINTER R:t R:t", "SUNION R:t R:t", "SUNION R:t R:t R:t", "SINTERCARD R:t R:t LIMIT 1",
	"SADD W:t m", "SREM W:t m", "SPOP W:t", "SMOVE S:t W:t a",
	"SDIFFSTORE W:t R:t R:t", "SINTERSTORE W:t R:t R:t", "SUNIONSTORE W:t R:t R:t",
	"ZCARD R:z", "ZCOUNT R:z 0 10", "ZLEXCOUNT R:z a z", "ZSCORE R:z a", "ZMSCORE R:z a b", "ZRANK R:z a", "ZREVRANK R:z a", "ZRANDMEMBER R:z", "ZRANGE R:z 0 10",
	"ZDIFF R:z R:z", "ZDIFF R:z R:z WITHSCORES", "ZINTER R:z R:z", "ZUNION R:z R:z", "ZUNION R:z R:z WEIGHTS 1 2", "ZINTER R:z R:z AGGREGATE MAX WITHSCORES",
	"ZADD W:z 1 m", "ZINCRBY W:z 1 a", "ZREM W:z a", "ZPOPMIN W:z", "ZPOPMAX W:z", "ZREMRANGEBYLEX W:z a b", "ZREMRANGEBYRANK W:z 0 0", "ZREMRANGEBYSCORE W:z 0 1",
	"ZMPOP W:z W:z MIN", "ZDIFFSTORE W:z R:z R:z", "ZINTERSTORE W:z R:z R:z", "ZUNIONSTORE W:z R:z R:z WEIGHTS 1 2", "ZRANGESTORE W:z R:z 0 10",
	"SUBSCRIBE C", "SUBSCRIBE C C", "PSUBSCRIBE C", "UNSUBSCRIBE C", "PUNSUBSCRIBE C", "PUBLISH C msg",
	"PUBSUB|CHANNELS", "PUBSUB|NUMPAT", "PUBSUB|NUMSUB ch:1",
	"PING", "ECHO hi", "OBJECTFREQ R:s", "OBJECTIDLETIME R:s",
}

var aclExempt = map[string]bool{"auth": true, "hello": true, "ping": true, "echo": true}

type aclRules struct {
	Enabled               bool
	AllCats               bool
	InclCats, ExclCats    []string
	AllCmds               bool
	InclCmds, ExclCmds    []string
	NoKeys                bool
	ReadGlobs, WriteGlobs []string // empty (and !NoKeys) = every key
	AllChans              bool
	InclChans, ExclChans  []string
}

func (u aclRules) tokens() []string {
	t := []string{map[bool]string{true: "on", false: "off"}[u.Enabled], ">pw"}
	if u.AllCats {
		t = append(t, "allCategories")
	}
	for _, c := range u.InclCats {
		t = append(t, "+@"+c)
	}
	for _, c := range u.ExclCats {
		t = append(t, "-@"+c)
	}
	if u.AllCmds {
		t = append(t, "allCommands")
	}
	for _, c := range u.InclCmds {
		t = append(t, "+"+c)
	}
	for _, c := range u.ExclCmds {
		t = append(t, "-"+c)
	}
	if u.NoKeys {
		t = append(t, "nokeys")
	} else if len(u.ReadGlobs) == 0 && len(u.WriteGlobs) == 0 {
		t = append(t, "allKeys")
	}
	for _, g := range u.ReadGlobs {
		t = append(t, "%R~"+g)
	}
	for _, g := range u.WriteGlobs {
		t = append(t, "%W~"+g)
	}
	if u.AllChans {
		t = append(t, "allChannels")
	}
	for _, c := range u.InclChans {
		t = append(t, "+&"+c)
	}
	for _, c := range u.ExclChans {
		t = append(t, "-&"+c)
	}
	return t
}

type aclCmd struct {
	Name, Sub string
	Argv      []string
	Read      []string
	Write     []string
	Chans     []string
	Cats      []string
}

func (c aclCmd) full() string {
	if c.Sub != "" {
		return c.Name + "|" + c.Sub
	}
	return c.Name
}

var c06AclFile string

func matchAny(globs []string, s string) bool {
	for _, g := range globs {
		if globMatch(g, s) {
			return true
		}
	}
	return false
}

// policyDenies is the declarative evaluator: it returns a reason when the documented rules CERTAINLY
// deny the command (the direction that matters for the property); "" means allowed or not decidable.
func policyDenies(u aclRules, authenticated bool, c aclCmd) string {
	if aclExempt[c.Name] {
		return ""
	}
	if !authenticated {
		return "connection is not authenticated"
	}
	if !u.Enabled {
		return "user is disabled"
	}
	for _, cat := range c.Cats {
		if !u.AllCats && !contains(u.InclCats, cat) {
			return "category @" + cat + " of the command is not allowed"
		}
		if contains(u.ExclCats, cat) {
			return "category @" + cat + " of the command is blocked"
		}
	}
	if !u.AllCmds && !contains(u.InclCmds, c.full()) && !contains(u.InclCmds, c.Name) {
		return "command " + c.full() + " is not allowed"
	}
	if contains(u.ExclCmds, c.full()) || contains(u.ExclCmds, c.Name) {
		return "command " + c.full() + " is blocked"
	}
	for _, ch := range c.Chans {
		if !u.AllChans && !matchAny(u.InclChans, ch) {
			return "channel " + ch + " is not allowed"
		}
		if matchAny(u.ExclChans, ch) {
			return "channel " + ch + " is blocked"
		}
	}
	if len(c.Read)+len(c.Write) > 0 {
		if u.NoKeys {
			return "user has no key access"
		}
		if len(u.ReadGlobs) > 0 {
			for _, k := range c.Read {
				if !matchAny(u.ReadGlobs, k) {
					return "read key " + k + " matches no read pattern"
				}
			}
		}
		if len(u.WriteGlobs) > 0 {
			for _, k := range c.Write {
				if !matchAny(u.WriteGlobs, k) {
					return "write key " + k + " matches no write pattern"
				}
			}
		}
	}
	return ""
}

func contains(xs []string, x string) bool {
	for _, y := range xs {
		if strings.EqualFold(x, y) {
			return true
		}
	}
	return false
}

var aclPrefixes = []string{"r", "w", "rw", "x"}

// expand instantiates a template with every assignment of key prefixes (and channel names) to its positions.
func expandTemplate(tpl string, cats map[string][]string, limit int) []aclCmd {
	f := strings.Fields(tpl)
	name, sub := strings.ToLower(f[0]), ""
	if i := strings.Index(name, "|"); i >= 0 {
		name, sub = name[:i], name[i+1:]
	}
	var pos []int
	for i, a := range f[1:] {
		if len(a) >= 1 && (a == "C" || (len(a) == 3 && a[1] == ':' && strings.ContainsRune("RWBS", rune(a[0])))) {
			pos = append(pos, i+1)
		}
	}
	total := 1
	for range pos {
		total *= 4
	}
	var out []aclCmd
	for n := 0; n < total; n++ {
		if limit > 0 && total > limit && (n*2654435761)%total >= limit {
			continue
		}
		c := aclCmd{Name: name, Sub: sub, Cats: cats[name+"|"+sub]}
		argv := []string{strings.ToUpper(name)}
		if sub != "" {
			argv = append(argv, strings.ToUpper(sub))
		}
		x := n
		for i, a := range f[1:] {
			isPos := false
			for _, p := range pos {
				if p == i+1 {
					isPos = true
				}
			}
			if !isPos {
				argv = append(argv, a)
				continue
			}
			pre := aclPrefixes[x%4]
			x /= 4
			if a == "C" {
				ch := map[string]string{"r": "ch:1", "w": "ch:x", "rw": "other", "x": "ch:2"}[pre]
				argv = append(argv, ch)
				c.Chans = append(c.Chans, ch)
				continue
			}
			key := pre + ":" + a[2:] + fmt.Sprint(1+i%2)
			argv = append(argv, key)
			switch a[0] {
			case 'R':
				c.Read = append(c.Read, key)
			case 'W', 'S':
				c.Write = append(c.Write, key)
			case 'B':
				c.Read = append(c.Read, key)
				c.Write = append(c.Write, key)
			}
		}
		c.Argv = argv
		out = append(out, c)
	}
	return out
}

func aclPopulate(in *Inst) {
	in.Do("FLUSHALL")
	for _, p := range aclPrefixes {
		for _, i := range []string{"1", "2"} {
			in.Do("SET", p+":s"+i, "val")
			in.Do("SET", p+":n"+i, "5")
			in.Do("RPUSH", p+":l"+i, "e", "f")
			in.Do("HSET", p+":h"+i, "f", "v", "n", "1")
			in.Do("SADD", p+":t"+i, "a", "b")
			in.Do("ZADD", p+":z"+i, "1", "a", "2", "b")
		}
	}
}

func checkC06(ctx *Ctx) {
	ctx.Rule("one evaluation = one authorization decision: a command instance (every registered command and subcommand, with every assignment of permitted/forbidden keys and channels to its key positions, taken from the harness's own declarative key table) " +
		"sent over TCP by a connection in a given authentication state (fresh, failed AUTH, authenticated, authenticated then disabled / restricted / deleted through ACL SETUSER/DELUSER, authenticated then given tighter rules through ACL SAVE + ACL LOAD REPLACE, authenticated then failing to authenticate as another user, authenticated as a user that exists only through ACL LOAD MERGE / REPLACE of the ACL file) as a user with a given rule set; " +
		"whenever the declarative evaluator written from the documentation says DENIED, the reply must be an error and the dataset, the ACL listing and the pub/sub table must be unchanged. " +
		"Commands the real gate denies although the evaluator allows them are counted as over-restriction, not as violations. distinct_nontrivial = distinct (command, denial reason class, authentication state) decided")
	ctx.Assume("the server requires authentication (RequirePass) in every instance of this check", "rule sets are given to ACL SETUSER in documented, unambiguous spellings; how SETUSER parses other spellings is C11's")
	if ctx.Fork(8, "", ctx.Watchdog()) {
		return
	}
	quietLogs()
	port := freePort()
	aclRoot := mkScratch("c06")
	defer os.RemoveAll(aclRoot)
	in, err := NewInst(InstOpts{Extra: append(withTCP(port), sugardb.WithRequirePass(true), sugardb.WithPassword("adminpw"),
		sugardb.WithAclConfig(filepath.Join(aclRoot, "acl.json")))})
	c06AclFile = filepath.Join(aclRoot, "acl.json")
	if err != nil {
		ctx.Broken(err.Error())
		return
	}
	defer in.Close()
	if err := in.StartTCP(port); err != nil {
		ctx.Inconclusive("listener did not come up")
		return
	}
	cats := map[string][]string{}
	for _, c := range in.S.VerifCommandTable() {
		cats[strings.ToLower(c.Command)+"|"+strings.ToLower(c.SubCommand)] = c.Categories
	}
	// every registered command must be covered by a template
	covered := map[string]bool{}
	var cmds []aclCmd
	for _, t := range aclTemplates {
		ex := expandTemplate(t, cats, 64)
		cmds = append(cmds, ex...)
		if len(ex) > 0 {
			covered[ex[0].Name+"|"+ex[0].Sub] = true
		}
	}
	var missing []string
	for k := range cats {
		n := strings.Split(k, "|")[0]
		if !covered[k] && !aclExempt[n] && n != "module" && !strings.HasPrefix(k, "acl|load") && !strings.HasPrefix(k, "acl|save") {
			missing = append(missing, k)
		}
	}
	sort.Strings(missing)
	ctx.Extra("commands_without_template", missing)
	ctx.Extra("command_instances", len(cmds))

	admin, err := Dial(port)
	if err != nil {
		ctx.Inconclusive("dial")
		return
	}
	defer admin.Close()
	if v, _, _ := admin.Do("AUTH", "adminpw"); v.IsError() {
		ctx.Broken("admin AUTH failed: " + v.String())
		return
	}
	keySets := []aclRules{
		{}, // allKeys
		{NoKeys: true},
		{ReadGlobs: []string{"r:*", "rw:*"}, WriteGlobs: []string{"w:*", "rw:*"}},
		{ReadGlobs: []string{"rw:*"}, WriteGlobs: []string{"rw:*"}},
		{ReadGlobs: []string{"*"}, WriteGlobs: []string{"w:*"}},
	}
	catSets := []aclRules{
		{AllCats: true},
		{InclCats: []string{"read", "fast", "slow", "keyspace", "hash", "list", "set", "sortedset", "string"}},
		{AllCats: true, ExclCats: []string{"dangerous"}},
		{AllCats: true, ExclCats: []string{"write"}},
	}
	chanSets := []aclRules{
		{AllChans: true},
		{InclChans: []string{"ch:*"}},
		{AllChans: true, ExclChans: []string{"ch:x"}},
	}
	type cfg struct {
		u     aclRules
		state string
	}
	var cfgs []cfg
	for _, en := range []bool{true, false} {
		for ki, k := range keySets {
			for ci, c := range catSets {
				for hi, h := range chanSets {
					// the full product for enabled users, a diagonal for disabled ones
					if !en && (ki+ci+hi)%5 != 0 {
						continue
					}
					u := aclRules{Enabled: en, AllCmds: true, AllCats: c.AllCats, InclCats: c.InclCats, ExclCats: c.ExclCats,
						NoKeys: k.NoKeys, ReadGlobs: k.ReadGlobs, WriteGlobs: k.WriteGlobs, AllChans: h.AllChans, InclChans: h.InclChans, ExclChans: h.ExclChans}
					cfgs = append(cfgs, cfg{u, "authenticated"})
				}
			}
		}
	}
	base := aclRules{Enabled: true, AllCats: true, AllCmds: true, AllChans: true}
	cfgs = append(cfgs, cfg{base, "fresh"}, cfg{base, "failed-auth"}, cfg{base, "then-disabled"}, cfg{base, "then-restricted"}, cfg{base, "then-deleted"})
	// a failed AUTH as another (more privileged) user after a successful one: the connection stays who it was
	for _, k := range []int{1, 2} {
		if k < len(keySets) {
			ks := keySets[k]
			cfgs = append(cfgs, cfg{aclRules{Enabled: true, AllCmds: true, InclCats: []string{"read"}, NoKeys: ks.NoKeys, ReadGlobs: ks.ReadGlobs, WriteGlobs: ks.WriteGlobs, AllChans: true}, "then-failed-auth-other"})
		}
	}
	// rules replaced through the ACL file (ACL SAVE of the tighter rules, then ACL LOAD REPLACE) after the connection authenticated
	for _, k := range []int{1, 2} {
		if k < len(keySets) {
			ks := keySets[k]
			cfgs = append(cfgs, cfg{aclRules{Enabled: true, AllCmds: true, InclCats: []string{"read"}, NoKeys: ks.NoKeys, ReadGlobs: ks.ReadGlobs, WriteGlobs: ks.WriteGlobs, AllChans: true}, "then-load-replace"})
		}
	}
	cfgs = append(cfgs, cfg{aclRules{Enabled: true, AllCats: true, AllCmds: true, ExclCats: []string{"write"}, ExclCmds: []string{"get"}, AllChans: true}, "then-load-replace"},
		cfg{aclRules{Enabled: false, AllCats: true, AllCmds: true, AllChans: true}, "then-load-replace"})
	// users that exist only through the ACL file (ACL LOAD MERGE / REPLACE, never touched by SETUSER afterwards)
	inclSpell := []string{"c?:*", "?h:*", "ch?*"} // each matches exactly what ch:* matches among the channels used
	exclSpell := []string{"c?:x", "?h:x", "ch?x"} // each matches ch:x only
	for li, h := range chanSets {
		for ki, k := range []aclRules{keySets[0], keySets[2], keySets[3]} {
			u := aclRules{Enabled: true, AllCmds: true, AllCats: true, NoKeys: k.NoKeys, ReadGlobs: k.ReadGlobs, WriteGlobs: k.WriteGlobs,
				AllChans: h.AllChans, InclChans: h.InclChans, ExclChans: h.ExclChans}
			if len(u.InclChans) > 0 {
				u.InclChans = []string{inclSpell[ki]}
			}
			if len(u.ExclChans) > 0 {
				u.ExclChans = []string{exclSpell[ki]}
			}
			if ki == 1 {
				u.AllCats, u.ExclCats = true, []string{"dangerous"}
			}
			cfgs = append(cfgs, cfg{u, []string{"loaded-merge", "loaded-replace"}[(li+ki)%2]})
		}
	}
	nCfg := 0
	for i, cf := range cfgs {
		if !ctx.Mine(i) {
			continue
		}
		if ctx.Quick() && cf.state == "authenticated" && (i/ctx.NShards)%2 != int(ctx.Seed)%2 {
			continue
		}
		ctx.SetCurrent(fmt.Sprintf("C06 config %d %v state %s", i, cf.u.tokens(), cf.state))
		if !c06Config(ctx, in, port, admin, cf.u, cf.state, cmds, nil) {
			return
		}
		nCfg++
	}
	// command-specific rule sets: only this command, everything but this command, own categories minus one
	perCmd := map[string]bool{}
	j := 0
	for _, c := range cmds {
		if perCmd[c.full()] || aclExempt[c.Name] {
			continue
		}
		perCmd[c.full()] = true
		j++
		if !ctx.Mine(j) {
			continue
		}
		var mine []aclCmd
		for _, d := range cmds {
			if d.full() == c.full() || d.Name == c.Name {
				mine = append(mine, d)
			}
		}
		others := []aclCmd{}
		for k := 0; k < len(cmds); k += 37 {
			if cmds[k].Name != c.Name {
				others = append(others, cmds[k])
			}
		}
		only := aclRules{Enabled: true, AllCats: true, InclCmds: []string{c.full()}, AllChans: true}
		if !c06Config(ctx, in, port, admin, only, "authenticated", append(mine, others...), nil) {
			return
		}
		but := aclRules{Enabled: true, AllCats: true, AllCmds: true, ExclCmds: []string{c.full()}, AllChans: true}
		if !c06Config(ctx, in, port, admin, but, "authenticated", mine, nil) {
			return
		}
		if c.Sub != "" {
			butParent := aclRules{Enabled: true, AllCats: true, AllCmds: true, ExclCmds: []string{c.Name}, AllChans: true}
			if !c06Config(ctx, in, port, admin, butParent, "authenticated", mine, nil) {
				return
			}
		}
		if len(c.Cats) > 1 {
			minus := aclRules{Enabled: true, InclCats: c.Cats[1:], AllCmds: true, AllChans: true}
			if !c06Config(ctx, in, port, admin, minus, "authenticated", mine, nil) {
				return
			}
		}
	}
	ctx.Count("configs", int64(nCfg))
	if ctx.Shard == 0 {
		c06Transparent(ctx, in, port, admin, cmds)
	}
	if ctx.Shard == 1 || ctx.NShards == 1 {
		ctx.SetCurrent("C06 pipelined commands across ACL DELUSER")
		c06PipelinedDeluser(ctx, in, port, admin)
		ctx.SetCurrent("C06 ACL DELUSER during an authorization")
		c06DeluserDuringAuthorization(ctx, in, port, admin)
	}
}

// c06Transparent: for a user who is allowed everything, the gate must be transparent: every command sent
// through the authorizing TCP path must reply and act exactly as the same command executed through the
// embedded API (which is never authorized) on a twin instance.
func c06Transparent(ctx *Ctx, in *Inst, port int, admin *Client, cmds []aclCmd) {
	twin, err := NewInst(InstOpts{})
	if err != nil {
		return
	}
	defer twin.Close()
	aclPopulate(in)
	aclPopulate(twin)
	admin.Do("ACL", "DELUSER", "u1")
	all := aclRules{Enabled: true, AllCats: true, AllCmds: true, AllChans: true}
	admin.Do(append([]string{"ACL", "SETUSER", "u1"}, all.tokens()...)...)
	c, err := Dial(port)
	if err != nil {
		return
	}
	defer c.Close()
	if v, _, _ := c.Do("AUTH", "u1", "pw"); v.IsError() {
		return
	}
	random := map[string]bool{"spop": true, "srandmember": true, "hrandfield": true, "zrandmember": true, "randomkey": true}
	skip := map[string]bool{"subscribe": true, "psubscribe": true, "unsubscribe": true, "punsubscribe": true, "publish": true, "pubsub": true, "acl": true,
		"select": true, "swapdb": true, "save": true, "lastsave": true, "rewriteaof": true, "commands": true, "command": true, "module": true, "ping": true, "echo": true,
		"objectfreq": true, "objectidletime": true, "touch": true}
	for _, cmd := range cmds {
		if random[cmd.Name] || skip[cmd.Name] {
			continue
		}
		va, _, err := c.Do(cmd.Argv...)
		if err != nil {
			ctx.Inconclusive("transparent lane: connection lost")
			return
		}
		vb, _, crash := twin.Do(cmd.Argv...)
		if crash != "" {
			continue
		}
		ctx.Eval(1)
		ctx.Class("transparent|" + cmd.full())
		ra, rb := normOrder(cmd.Argv, va.String()), normOrder(cmd.Argv, vb.String())
		if va.IsError() && vb.IsError() {
			ra, rb = "-ERR", "-ERR"
		}
		da := CanonDump(in.S.VerifDump(), in.Clk.NowNs())
		db := CanonDump(twin.S.VerifDump(), twin.Clk.NowNs())
		if ra != rb || model.DiffCanon(db, da) != "" {
			ctx.Violate(Violation{Kind: "not_transparent", Lane: "acl-transparent",
				What: fmt.Sprintf("%s sent by a user who is allowed everything replied %s and left the dataset differing (%s) from the same command executed without authorization, which replied %s: the authorization step altered the command",
					Step{Argv: cmd.Argv}.String(), trunc(ra, 120), trunc(model.DiffCanon(db, da), 200), trunc(rb, 120)),
				Case: map[string]interface{}{"argv": cmd.Argv}, Key: "c06|transparent|" + cmd.full()})
			aclPopulate(in)
			aclPopulate(twin)
		}
	}
}

// c06Config sets the user up, brings a connection into the given state, and walks the command
// instances. It returns false when the check cannot go on.
func c06Config(ctx *Ctx, in *Inst, port int, admin *Client, u aclRules, state string, cmds []aclCmd, _ interface{}) bool {
	aclPopulate(in)
	admin.Do("ACL", "DELUSER", "u1")
	create := u
	if state == "then-disabled" || state == "then-restricted" || state == "then-deleted" {
		create = aclRules{Enabled: true, AllCats: true, AllCmds: true, AllChans: true}
	}
	if state == "then-load-replace" {
		// the target rules go into the ACL file first; the connection authenticates as a permissive u1 afterwards
		if v, _, err := admin.Do(append([]string{"ACL", "SETUSER", "u1"}, u.tokens()...)...); err != nil || v.IsError() {
			ctx.Broken(fmt.Sprintf("ACL SETUSER %v failed: %v %s", u.tokens(), err, v.String()))
			return false
		}
		if v, _, err := admin.Do("ACL", "SAVE"); err != nil || v.IsError() {
			ctx.Broken(fmt.Sprintf("ACL SAVE failed: %v %s", err, v.String()))
			return false
		}
		admin.Do("ACL", "DELUSER", "u1")
		create = aclRules{Enabled: true, AllCats: true, AllCmds: true, AllChans: true}
	}
	if state == "loaded-merge" || state == "loaded-replace" {
		// the user exists only through the ACL file: SETUSER + SAVE put it there, DELUSER removes it from the
		// server, ACL LOAD brings it back; no SETUSER touches it afterwards
		// The file is written by a second server instance on the same ACL file, so that this server meets
		// the user's patterns (spelled differently in every such configuration) for the first time in the file.
		helper, herr := NewInst(InstOpts{Extra: []func(*sugardb.SugarDB){sugardb.WithRequirePass(true), sugardb.WithPassword("adminpw"), sugardb.WithAclConfig(c06AclFile)}})
		if herr != nil {
			ctx.Broken("helper instance: " + herr.Error())
			return false
		}
		helper.Do("ACL", "DELUSER", "u1") // the helper read the file at start-up: an older u1 would be merged into
		for _, st := range [][]string{append([]string{"ACL", "SETUSER", "u1"}, u.tokens()...), {"ACL", "SAVE"}} {
			if v, _, crash := helper.Do(st...); crash != "" || v.IsError() {
				helper.Close()
				ctx.Broken(fmt.Sprintf("helper %v failed: %s %s", st, crash, v.String()))
				return false
			}
		}
		helper.Close()
		if v, _, err := admin.Do("ACL", "LOAD", map[string]string{"loaded-merge": "MERGE", "loaded-replace": "REPLACE"}[state]); err != nil || v.IsError() {
			ctx.Broken(fmt.Sprintf("ACL LOAD failed: %v %s", err, v.String()))
			return false
		}
	} else if v, _, err := admin.Do(append([]string{"ACL", "SETUSER", "u1"}, create.tokens()...)...); err != nil || v.IsError() {
		ctx.Broken(fmt.Sprintf("ACL SETUSER %v failed: %v %s", create.tokens(), err, v.String()))
		return false
	}
	c, err := Dial(port) // Dial sends PING, which is exempt
	if err != nil {
		ctx.Inconclusive("dial")
		return false
	}
	defer c.Close()
	authenticated := false
	effective := u
	switch state {
	case "fresh":
	case "failed-auth":
		if v, _, _ := c.Do("AUTH", "u1", "wrong"); !v.IsError() {
			ctx.Violate(Violation{Kind: "auth", Lane: "acl", What: "AUTH with a wrong password succeeded", Case: map[string]interface{}{"user": create.tokens()}, Key: "c06|auth-wrong"})
		}
	default:
		v, _, _ := c.Do("AUTH", "u1", "pw")
		if !u.Enabled && state == "authenticated" {
			// a disabled user cannot authenticate: the connection stays unauthenticated
			if !v.IsError() {
				ctx.Violate(Violation{Kind: "auth", Lane: "acl", What: "AUTH as a disabled user succeeded", Case: map[string]interface{}{"user": create.tokens()}, Key: "c06|auth-disabled"})
			}
		} else if v.IsError() {
			ctx.Broken("AUTH u1 pw failed: " + v.String())
			return false
		} else {
			authenticated = true
		}
		switch state {
		case "then-failed-auth-other":
			for _, other := range [][]string{{"AUTH", "default", "wrong-password"}, {"AUTH", "wrong-password"}, {"HELLO", "2", "AUTH", "default", "wrong-password"}, {"AUTH", "nosuchuser", "x"}} {
				if v, _, _ := c.Do(other...); !v.IsError() {
					ctx.Violate(Violation{Kind: "auth", Lane: "acl", What: Step{Argv: other}.String() + " succeeded", Case: map[string]interface{}{"user": create.tokens()}, Key: "c06|auth-wrong-other"})
				}
			}
			// still u1, still under u1's rules
		case "then-load-replace":
			if v, _, err := admin.Do("ACL", "LOAD", "REPLACE"); err != nil || v.IsError() {
				ctx.Broken(fmt.Sprintf("ACL LOAD REPLACE failed: %v %s", err, v.String()))
				return false
			}
			// the file's rules for u1 are in force now (effective = u)
		case "then-disabled":
			admin.Do("ACL", "SETUSER", "u1", "off")
			effective.Enabled = false
		case "then-restricted":
			admin.Do("ACL", "SETUSER", "u1", "-@write", "-get")
			effective.ExclCats = append(effective.ExclCats, "write")
			effective.ExclCmds = append(effective.ExclCmds, "get")
		case "then-deleted":
			admin.Do("ACL", "DELUSER", "u1")
			effective.Enabled = false // a deleted user can no longer act
		}
	}
	aclBefore, _, _ := admin.Do("ACL", "LIST")
	now := in.Clk.NowNs()
	before := CanonDump(in.S.VerifDump(), now)
	denied, over := 0, 0
	for _, cmd := range cmds {
		reason := policyDenies(effective, authenticated, cmd)
		v, err := c06Exchange(c, cmd.Argv)
		ctx.Eval(1)
		gone := err != nil
		if gone {
			// the server closed the connection (deleted user): nothing ran. Reconnect in the same state is
			// not possible; the rest of this configuration is skipped.
			if state == "then-deleted" {
				ctx.Class("decision|connection-closed|" + state)
				break
			}
			ctx.Inconclusive("connection lost")
			return true
		}
		if reason == "" {
			if v.IsError() && strings.Contains(strings.ToLower(v.Str), "authori") {
				over++
			}
			// an allowed write changed the dataset: refresh the reference point
			if !aclExempt[cmd.Name] {
				before = CanonDump(in.S.VerifDump(), now)
				aclBefore, _, _ = admin.Do("ACL", "LIST")
			}
			// subscriptions made by an allowed SUBSCRIBE are withdrawn again
			if cmd.Name == "subscribe" || cmd.Name == "psubscribe" {
				_, _ = c06Exchange(c, []string{"UNSUBSCRIBE"})
				_, _ = c06Exchange(c, []string{"PUNSUBSCRIBE"})
			}
			continue
		}
		denied++
		rclass := strings.Fields(reason)[0] + " " + strings.Fields(reason)[1]
		ctx.Class(fmt.Sprintf("denied|%s|%s|%s", cmd.full(), rclass, state))
		vio := ""
		if !v.IsError() {
			vio = fmt.Sprintf("replied %s instead of an error", trunc(v.String(), 100))
		} else if after := CanonDump(in.S.VerifDump(), now); model.DiffCanon(before, after) != "" {
			vio = "changed the dataset: " + model.DiffCanon(before, after)
		} else if aclAfter, _, _ := admin.Do("ACL", "LIST"); aclAfter.String() != aclBefore.String() {
			vio = "changed the ACL state: " + trunc(aclAfter.String(), 200)
		}
		if vio != "" {
			ctx.Violate(Violation{Kind: "unauthorized", Lane: "acl",
				What: fmt.Sprintf("user rules %v, connection state %s: %s must be denied (%s) but %s", effective.tokens(), state, Step{Argv: cmd.Argv}.String(), reason, vio),
				Case: map[string]interface{}{"setuser": create.tokens(), "state": state, "argv": cmd.Argv, "reason": reason},
				Key:  fmt.Sprintf("c06|%s|%s", rclass, map[bool]string{true: "multi-key", false: cmd.full()}[len(cmd.Read)+len(cmd.Write) > 1])})
			// restore the reference point so that one leak does not cascade
			aclPopulate(in)
			before = CanonDump(in.S.VerifDump(), now)
		}
	}
	ctx.Count("denied_decisions", int64(denied))
	ctx.Count("over_restrictions", int64(over))
	if len(ctx.samples) < 3 {
		ctx.Sample("acl-config", map[string]interface{}{"setuser": u.tokens(), "state": state, "commands": len(cmds), "denied_by_policy": denied})
	}
	_ = os.Getpid
	return true
}

// c06Exchange sends one command followed by a PING (which no ACL rule restricts) and takes the first
// frame as the command's reply; every further frame up to the PONG (extra subscription confirmations,
// messages the connection published to itself) is discarded, so that the stream stays aligned whatever
// the command pushes. No timing is involved.
func c06Exchange(c *Client, argv []string) (resp.Value, error) {
	if err := c.Send(append(resp.Encode(argv...), resp.Encode("PING")...)); err != nil {
		return resp.Value{}, err
	}
	first, _, err := c.Read(10 * time.Second)
	if err != nil {
		return first, err
	}
	isPong := func(v resp.Value) bool {
		t, ok := v.Text()
		return ok && t == "PONG" && !v.IsError() && !v.IsSeq()
	}
	for i := 0; i < 256; i++ {
		v, _, err := c.Read(10 * time.Second)
		if err != nil {
			return first, err
		}
		if isPong(v) {
			return first, nil
		}
	}
	return first, fmt.Errorf("no PONG after 256 frames")
}

// c06PipelinedDeluser: a user's connection has two commands in the server's read buffer (one write); the first
// is held where it waits for the command lock while the administrator deletes the user and is answered OK;
// then the first is released. The second command is decided after the deletion: a deleted user can no longer
// act, so it must be refused (or the connection closed) and must have no effect.
func c06PipelinedDeluser(ctx *Ctx, in *Inst, port int, admin *Client) {
	for rep, second := range [][]string{{"SET", "w:p2", "v"}, {"RPUSH", "w:l2", "x"}, {"GET", "r:s1"}, {"DEL", "w:p1"}} {
		aclPopulate(in)
		admin.Do("ACL", "DELUSER", "u1")
		all := aclRules{Enabled: true, AllCats: true, AllCmds: true, AllChans: true}
		if v, _, err := admin.Do(append([]string{"ACL", "SETUSER", "u1"}, all.tokens()...)...); err != nil || v.IsError() {
			return
		}
		c, err := Dial(port)
		if err != nil {
			return
		}
		if v, _, _ := c.Do("AUTH", "u1", "pw"); v.IsError() {
			c.Close()
			return
		}
		var armed atomic.Bool
		parked, release := make(chan struct{}), make(chan struct{})
		setHook(func(name string, args ...interface{}) {
			if name == "cmd.lock.wait" && armed.CompareAndSwap(true, false) {
				close(parked)
				select {
				case <-release:
				case <-time.After(20 * time.Second):
				}
			}
		})
		before := CanonDump(in.S.VerifDump(), in.Clk.NowNs())
		armed.Store(true)
		first := []string{"SET", "w:p1", "v"}
		_ = c.Send(append(resp.Encode(first...), resp.Encode(second...)...))
		ok := false
		select {
		case <-parked:
			ok = true
		case <-time.After(10 * time.Second):
		}
		v, _, derr := admin.Do("ACL", "DELUSER", "u1")
		close(release)
		setHook(nil)
		if !ok || derr != nil || v.IsError() {
			c.Close()
			ctx.Inconclusive("pipelined-deluser: the schedule could not be set up")
			continue
		}
		r1, _, e1 := c.Read(20 * time.Second)
		r2, _, e2 := c.Read(20 * time.Second)
		c.Close()
		ctx.Eval(1)
		ctx.Class(fmt.Sprintf("pipelined-deluser|%s|second-refused=%v", strings.ToLower(second[0]), e2 != nil || r2.IsError()))
		after := CanonDump(in.S.VerifDump(), in.Clk.NowNs())
		// the first command was authorised before the deletion: it may have run; the second must not have
		allowedAfter := CanonDump(in.S.VerifDump(), in.Clk.NowNs())
		_ = allowedAfter
		secondRan := e2 == nil && !r2.IsError()
		if secondRan {
			ctx.Violate(Violation{Kind: "unauthorized", Lane: "pipelined-deluser",
				What: fmt.Sprintf("u1's connection had %s and %s in one write; the first was held waiting for the command lock while ACL DELUSER u1 was answered OK; after the release the second command, decided after the deletion, replied %s (first: %s %v): a deleted user's command ran", Step{Argv: first}.String(), Step{Argv: second}.String(), trunc(r2.String(), 80), trunc(r1.String(), 40), e1),
				Case: map[string]interface{}{"first": first, "second": second, "dataset_before": len(before), "dataset_after": len(after)}, Key: "c06|pipelined-deluser|" + strings.ToLower(second[0])})
			return
		}
		_ = rep
	}
}

// c06DeluserDuringAuthorization: a command added through the public AddCommand API has a key-extraction
// function the harness can hold, so that "the command is inside its authorization" becomes an observable
// state. While it is held there, the administrator deletes the user. Either the deletion waits for the
// authorization to finish (then the command was decided before the deletion and may run), or it is answered
// first - and then the command, decided after it, must be refused and its handler must not run.
func c06DeluserDuringAuthorization(ctx *Ctx, in *Inst, port int, admin *Client) {
	var held, armed atomic.Bool
	var ran atomic.Int64
	entered, release := make(chan struct{}, 1), make(chan struct{})
	err := in.S.AddCommand(sugardb.CommandOptions{
		Command: "verifprobe", Module: "verif", Categories: []string{"read", "fast"}, Description: "(VERIFPROBE key) harness probe", Sync: false,
		KeyExtractionFunc: func(cmd []string) (sugardb.CommandKeyExtractionFuncResult, error) {
			if armed.CompareAndSwap(true, false) {
				held.Store(true)
				entered <- struct{}{}
				select {
				case <-release:
				case <-time.After(20 * time.Second):
				}
			}
			if len(cmd) != 2 {
				return sugardb.CommandKeyExtractionFuncResult{}, fmt.Errorf("wrong number of arguments")
			}
			return sugardb.CommandKeyExtractionFuncResult{ReadKeys: []string{cmd[1]}, WriteKeys: []string{}}, nil
		},
		HandlerFunc: func(params sugardb.CommandHandlerFuncParams) ([]byte, error) {
			ran.Add(1)
			return []byte("+RAN\r\n"), nil
		},
	})
	if err != nil {
		ctx.Count("deluser_during_authorization_skipped", 1)
		return
	}
	admin.Do("ACL", "DELUSER", "u1")
	all := aclRules{Enabled: true, AllCats: true, AllCmds: true, AllChans: true}
	if v, _, err := admin.Do(append([]string{"ACL", "SETUSER", "u1"}, all.tokens()...)...); err != nil || v.IsError() {
		return
	}
	c, err := Dial(port)
	if err != nil {
		return
	}
	defer c.Close()
	if v, _, _ := c.Do("AUTH", "u1", "pw"); v.IsError() {
		return
	}
	armed.Store(true)
	_ = c.Send(resp.Encode("VERIFPROBE", "r:s1"))
	select {
	case <-entered:
	case <-time.After(10 * time.Second):
		close(release)
		ctx.Inconclusive("deluser-during-authorization: the probe command never reached its key extraction")
		return
	}
	delDone := make(chan resp.Value, 1)
	go func() {
		v, _, _ := admin.Do("ACL", "DELUSER", "u1")
		delDone <- v
	}()
	deletedFirst := false
	select {
	case <-delDone:
		deletedFirst = true // answered while the command was still inside its authorization
	case <-time.After(300 * time.Millisecond):
		// the deletion waits for the authorization (steering only: decides nothing)
	}
	close(release)
	if !deletedFirst {
		<-delDone
	}
	r, _, rerr := c.Read(20 * time.Second)
	ctx.Eval(1)
	ctx.Class(fmt.Sprintf("deluser-during-authorization|deletion-answered-first=%v", deletedFirst))
	if deletedFirst && rerr == nil && !r.IsError() && ran.Load() > 0 {
		ctx.Violate(Violation{Kind: "unauthorized", Lane: "deluser-during-authorization",
			What: fmt.Sprintf("ACL DELUSER u1 was answered OK while u1's command was inside its authorization (held in its key extraction); the command was then answered %s and its handler ran: a command decided after the deletion of its user was allowed", trunc(r.String(), 60)),
			Case: map[string]interface{}{"command": "VERIFPROBE r:s1"}, Key: "c06|deluser-during-authorization"})
	}
}
