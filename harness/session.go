package main

import (
	"fmt"
	"strconv"
	"strings"

	"verif/harness/model"
	"verif/harness/resp"
)

// Step is one step of a program: optionally move the virtual clock, select a
// database, run one sampler round, then execute argv.
type Step struct {
	Argv []string `json:"argv,omitempty"`
	Adv  int64    `json:"adv_ns,omitempty"`
	DB   *int     `json:"db,omitempty"`
	Tick bool     `json:"tick,omitempty"`
	Conn string   `json:"conn,omitempty"` // "" = embedded caller; otherwise the name of a TCP connection
}

func (s Step) String() string {
	var sb strings.Builder
	if s.Adv != 0 {
		fmt.Fprintf(&sb, "[+%dms] ", s.Adv/1e6)
	}
	if s.DB != nil {
		fmt.Fprintf(&sb, "[db %d] ", *s.DB)
	}
	if s.Tick {
		sb.WriteString("[tick] ")
	}
	if s.Conn != "" {
		sb.WriteString(s.Conn + "> ")
	}
	for i, a := range s.Argv {
		if i > 0 {
			sb.WriteByte(' ')
		}
		if len(a) > 40 {
			fmt.Fprintf(&sb, "%q…(%d)", a[:40], len(a))
		} else if needsQuote(a) {
			fmt.Fprintf(&sb, "%q", a)
		} else {
			sb.WriteString(a)
		}
	}
	return sb.String()
}

func needsQuote(a string) bool {
	if a == "" {
		return true
	}
	for _, c := range []byte(a) {
		if c <= ' ' || c >= 0x7f || c == '"' {
			return true
		}
	}
	return false
}

func progStrings(p []Step) []string {
	out := make([]string, len(p))
	for i, s := range p {
		out[i] = s.String()
	}
	return out
}

// Session runs a program on a real instance in lock step with the reference
// model.
type Session struct {
	ctx   *Ctx
	lane  string
	in    *Inst
	st    *model.State
	db    int
	trace []Step
	// options
	noFilter   bool // witness lanes: do not filter known findings
	skipModel  bool
	tickSample bool
	// TCP connections (name -> client and the database the reference says it has selected)
	conns  map[string]*Client
	connDB map[string]int
	port   int
	host   string // "" = 127.0.0.1
	// extra per-step observer (e.g. non-interference of bookkeeping), called with the dumps around the step
	after func(step Step, db int, before, afterDump interface{}) *Violation
}

func NewSession(ctx *Ctx, lane string, in *Inst) *Session {
	return &Session{ctx: ctx, lane: lane, in: in, st: model.NewState()}
}

type StepResult struct {
	Skipped   string // finding id that filtered the step
	Unmodeled bool
	Vio       *Violation
	Reply     resp.Value
	Changed   bool
	Outcome   string
}

func outcomeClass(v resp.Value) string {
	switch {
	case v.Kind == resp.Error:
		return "err"
	case v.Kind == resp.Null:
		return "nil"
	case v.IsSeq() && len(v.Elems) == 0:
		return "empty"
	case v.IsSeq():
		return "seq"
	case v.Kind == resp.Int && v.Int == 0:
		return "0"
	case v.Kind == resp.Int && v.Int < 0:
		return "neg"
	}
	return "ok"
}

func argShape(argv []string) string {
	// command + option keywords + arity
	var kws []string
	for _, a := range argv[1:] {
		switch strings.ToUpper(a) {
		case "NX", "XX", "GT", "LT", "CH", "INCR", "GET", "EX", "PX", "EXAT", "PXAT", "PERSIST", "WITHSCORES", "WITHVALUES",
			"LIMIT", "REV", "BYSCORE", "BYLEX", "WEIGHTS", "AGGREGATE", "SUM", "MIN", "MAX", "LEFT", "RIGHT", "COUNT":
			kws = append(kws, strings.ToUpper(a))
		}
	}
	return fmt.Sprintf("%s/%d/%s", strings.ToLower(argv[0]), len(argv), strings.Join(kws, ","))
}

func (s *Session) preKind(argv []string) string { return s.preKindDB(argv, s.db) }

func (s *Session) preKindDB(argv []string, db int) string {
	if len(argv) < 2 {
		return "-"
	}
	e := s.st.DBs[db][argv[1]]
	if e == nil {
		return "absent"
	}
	k := e.Kind.String()
	if e.Deadline != 0 {
		k += "+ttl"
	}
	return k
}

func (s *Session) env() model.Env { return model.Env{Now: s.in.Clk.NowNs(), DB: s.db} }

// dbOf returns the database the reference says the step's caller has selected.
func (s *Session) dbOf(step Step) int {
	if step.Conn == "" {
		return s.db
	}
	return s.connDB[step.Conn]
}

// do executes argv on behalf of the step's caller.
func (s *Session) do(step Step) (resp.Value, []byte, string) {
	if step.Conn == "" {
		return s.in.Do(step.Argv...)
	}
	c, ok := s.conns[step.Conn]
	if !ok {
		var err error
		host := s.host
		if host == "" {
			host = "127.0.0.1"
		}
		c, err = DialHost(host, s.port)
		if err != nil {
			return resp.Value{Kind: resp.Error, Str: "DIAL"}, nil, "cannot connect: " + err.Error()
		}
		if s.conns == nil {
			s.conns = map[string]*Client{}
			s.connDB = map[string]int{}
		}
		s.conns[step.Conn] = c
	}
	v, raw, err := c.Do(step.Argv...)
	if err != nil {
		return resp.Value{Kind: resp.Error, Str: "IO"}, raw, "connection failed or malformed reply: " + err.Error()
	}
	return v, raw, ""
}

func (s *Session) closeConns() {
	for _, c := range s.conns {
		c.Close()
	}
}

// Exec executes one step and checks it against the model.
func (s *Session) Exec(step Step) StepResult {
	var res StepResult
	if step.Adv != 0 {
		s.in.Clk.Advance(step.Adv)
	}
	if step.DB != nil {
		if err := s.in.S.SelectDB(*step.DB); err == nil {
			s.db = *step.DB
		}
	}
	if step.Tick {
		s.st.Purge(s.in.Clk.NowNs())
		if crash := s.tick(); crash != "" {
			s.trace = append(s.trace, step)
			res.Vio = &Violation{Kind: "crash", Lane: s.lane, What: "expiry sampler round: " + crash,
				Case: map[string]interface{}{"program": s.trace}, Key: s.lane + "|crash|tick"}
			return res
		}
	}
	if len(step.Argv) == 0 {
		s.trace = append(s.trace, step)
		if step.Tick || step.Adv != 0 {
			// the sampler and the passing of time must not change live keys
			if d := model.DiffCanon(s.canonModel(), CanonDump(s.in.S.VerifDump(), s.in.Clk.NowNs())); d != "" {
				res.Vio = &Violation{Kind: "state", Lane: s.lane, What: "after clock move / sampler round: " + d,
					Case: map[string]interface{}{"program": s.trace}, Key: s.lane + "|state|tick"}
			}
		}
		return res
	}
	env := s.env()
	env.DB = s.dbOf(step)
	s.st.Purge(env.Now)
	if r, handled := s.connCommand(step, env); handled {
		s.trace = append(s.trace, step)
		return r
	}
	if !s.noFilter {
		if id := matchFinding(s.ctx.Prop, s.st, env, step.Argv); id != "" {
			s.ctx.Filtered(id)
			res.Skipped = id
			// undo nothing: clock moves stay (they are harmless)
			if step.Adv != 0 || step.DB != nil || step.Tick {
				s.trace = append(s.trace, Step{Adv: step.Adv, DB: step.DB, Tick: step.Tick})
			}
			return res
		}
	}
	s.trace = append(s.trace, step)
	pre := s.preKindDB(step.Argv, env.DB)
	outs := model.Step(s.st, env, step.Argv)
	before := s.canonModel()
	v, raw, crash := s.do(step)
	res.Reply = v
	caseOf := func() map[string]interface{} {
		return map[string]interface{}{"program": s.trace, "program_text": progStrings(s.trace), "reply": string(trunc(string(raw), 300))}
	}
	shape := argShape(step.Argv)
	if crash != "" {
		res.Vio = &Violation{Kind: "crash", Lane: s.lane, What: fmt.Sprintf("%s (%s key): %s", step.String(), pre, crash),
			Case: caseOf(), Key: s.lane + "|crash|" + shape + "|" + pre}
		return res
	}
	dump := CanonDump(s.in.S.VerifDump(), env.Now)
	if outs == nil {
		// not modelled: resynchronise the model from the dump
		res.Unmodeled = true
		s.st = StateFromDump(s.in.S.VerifDump())
		s.ctx.Count("unmodelled_steps", 1)
		return res
	}
	var firstReplyMatch *model.Outcome
	var firstDiff string
	for i := range outs {
		o := &outs[i]
		if !o.Reply.Match(v) {
			continue
		}
		ns := o.State
		if o.Follow != nil {
			ns = o.State.Clone()
			if !o.Follow(v, ns) {
				continue
			}
		}
		d := model.DiffCanon(ns.CanonAt(env.Now), dump)
		if d == "" {
			res.Changed = model.DiffCanon(before, dump) != ""
			s.st = ns
			res.Outcome = outcomeClass(v)
			s.ctx.Class(fmt.Sprintf("%s|%s|%s|%v", shape, pre, res.Outcome, res.Changed))
			return res
		}
		if firstReplyMatch == nil {
			firstReplyMatch = o
			firstDiff = d
		}
	}
	descs := make([]string, 0, len(outs))
	for _, o := range outs {
		d := o.Reply.Desc
		if o.Note != "" {
			d += " {" + o.Note + "}"
		}
		descs = append(descs, d)
	}
	if firstReplyMatch != nil {
		res.Vio = &Violation{Kind: "state", Lane: s.lane,
			What: fmt.Sprintf("%s (%s key) replied %s; dataset differs from the reference: %s", step.String(), pre, trunc(v.String(), 120), firstDiff),
			Case: caseOf(), Key: s.lane + "|state|" + shape + "|" + pre}
		return res
	}
	res.Vio = &Violation{Kind: "reply", Lane: s.lane,
		What: fmt.Sprintf("%s (%s key) replied %s; the reference allows: %s", step.String(), pre, trunc(v.String(), 160), strings.Join(descs, " or ")),
		Case: caseOf(), Key: s.lane + "|reply|" + shape + "|" + pre + "|" + outcomeClass(v)}
	return res
}

func (s *Session) canonModel() map[int]map[string]string {
	return s.st.CanonAt(s.in.Clk.NowNs())
}

func (s *Session) tick() (crash string) {
	defer func() {
		if r := recover(); r != nil {
			crash = fmt.Sprintf("panic: %v", r)
		}
	}()
	d := s.in.S.VerifDump()
	for db := range d.Volatile {
		if err := s.in.S.VerifTickExpiry(db); err != nil {
			return "" // an error return is not a crash
		}
	}
	return ""
}

// RunProgram runs a whole program on a fresh session and returns the first
// violation (nil if none).
func RunProgram(ctx *Ctx, lane string, mk func() *Inst, prog []Step, noFilter bool) (*Violation, int) {
	in := mk()
	defer in.Close()
	s := NewSession(ctx, lane, in)
	s.noFilter = noFilter
	n := 0
	for _, st := range prog {
		r := s.Exec(st)
		if r.Skipped == "" {
			n++
		}
		if r.Vio != nil {
			return r.Vio, n
		}
	}
	return nil, n
}

// shrinkProgram removes steps from prog while the last step still violates
// with the same dedupe key.
func shrinkProgram(ctx *Ctx, lane string, mk func() *Inst, prog []Step, key string) []Step {
	cur := append([]Step{}, prog...)
	fails := func(p []Step) bool {
		v, _ := RunProgram(ctx, lane, mk, p, false)
		return v != nil && v.Key == key
	}
	if len(cur) > 60 || !fails(cur) {
		return cur
	}
	for changed := true; changed; {
		changed = false
		for i := 0; i < len(cur)-1; i++ {
			cand := append(append([]Step{}, cur[:i]...), cur[i+1:]...)
			if fails(cand) {
				cur = cand
				changed = true
				i--
			}
		}
	}
	return cur
}

// reportProgramViolation shrinks and records a violation found while running prog.
func reportProgramViolation(ctx *Ctx, lane string, mk func() *Inst, prog []Step, v *Violation) {
	ctx.mu.Lock()
	dup := ctx.vioKeys[v.Key]
	ctx.mu.Unlock()
	if dup {
		ctx.Count("violations_duplicate", 1)
		return
	}
	// cut the program at the violating step
	if c, ok := v.Case.(map[string]interface{}); ok {
		if tr, ok := c["program"].([]Step); ok {
			small := shrinkProgram(ctx, lane, mk, tr, v.Key)
			if v2, _ := RunProgram(ctx, lane, mk, small, false); v2 != nil && v2.Key == v.Key {
				v = v2
			}
		}
	}
	ctx.Violate(*v)
}

// connCommand handles the connection-level commands that the data models do not know:
// SELECT (per connection), SWAPDB (all TCP connections) and the handshake commands HELLO / PING / ECHO
// (which must not move the connection to another database). Embedded callers select with Step.DB.
func (s *Session) connCommand(step Step, env model.Env) (StepResult, bool) {
	var res StepResult
	if len(step.Argv) == 0 || step.Conn == "" {
		return res, false
	}
	name := strings.ToLower(step.Argv[0])
	if name != "select" && name != "swapdb" && name != "hello" && name != "ping" && name != "echo" {
		return res, false
	}
	v, raw, crash := s.do(step)
	res.Reply = v
	fail := func(what string) (StepResult, bool) {
		full := append(append([]Step{}, s.trace...), step)
		res.Vio = &Violation{Kind: "reply", Lane: s.lane, What: fmt.Sprintf("%s replied %s: %s", step.String(), trunc(v.String(), 100), what),
			Case: map[string]interface{}{"program": full, "program_text": progStrings(full), "reply": string(raw)}, Key: s.lane + "|conn|" + name + "|" + what}
		return res, true
	}
	if crash != "" {
		return fail(crash)
	}
	idx := func(a string) (int, bool) {
		n, err := strconv.Atoi(a)
		return n, err == nil && n >= 0 && n < 1<<20
	}
	switch name {
	case "hello", "ping", "echo":
		// handshake commands: whatever they reply, they leave the connection's selected database and the
		// dataset alone (the next data command of this connection is checked against the same database)
	case "select":
		n, ok := 0, false
		if len(step.Argv) == 2 {
			n, ok = idx(step.Argv[1])
		}
		if !ok {
			if !v.IsError() {
				return fail("an invalid SELECT must fail")
			}
			return res, true
		}
		if v.IsError() {
			return fail("a valid SELECT must succeed")
		}
		s.connDB[step.Conn] = n
	case "swapdb":
		a, oka, b, okb := 0, false, 0, false
		if len(step.Argv) == 3 {
			a, oka = idx(step.Argv[1])
			b, okb = idx(step.Argv[2])
		}
		if !oka || !okb {
			if !v.IsError() {
				return fail("an invalid SWAPDB must fail")
			}
			return res, true
		}
		if v.IsError() {
			return fail("a valid SWAPDB must succeed")
		}
		for c, d := range s.connDB {
			if d == a {
				s.connDB[c] = b
			} else if d == b {
				s.connDB[c] = a
			}
		}
	}
	// the dataset itself must not change
	if d := model.DiffCanon(s.st.CanonAt(env.Now), CanonDump(s.in.S.VerifDump(), env.Now)); d != "" {
		return fail("the dataset changed: " + d)
	}
	s.ctx.Class(fmt.Sprintf("conn|%s|%s", name, outcomeClass(v)))
	return res, true
}
