package main

import (
	"fmt"
	"io"
	"log"
	"math"
	"os"
	"path/filepath"
	"runtime/debug"
	"strconv"
	"sync"
	"sync/atomic"
	"time"

	"github.com/echovault/sugardb/sugardb"

	"verif/harness/model"
	"verif/harness/resp"
)

// BaseTime is the start of virtual time: 2030-01-01T00:00:00Z.
const BaseTimeNs = int64(1893456000) * 1_000_000_000

// VClock is the virtual clock injected into the server. It moves only when the
// harness moves it.
type VClock struct{ ns atomic.Int64 }

func NewVClock() *VClock {
	c := &VClock{}
	c.ns.Store(BaseTimeNs)
	return c
}
func (c *VClock) Now() time.Time                         { return time.Unix(0, c.ns.Load()) }
func (c *VClock) After(d time.Duration) <-chan time.Time { return time.After(d) }
func (c *VClock) NowNs() int64                           { return c.ns.Load() }
func (c *VClock) Advance(d int64)                        { c.ns.Add(d) }
func (c *VClock) Set(ns int64)                           { c.ns.Store(ns) }

var (
	baseConfOnce sync.Once
)

// logRing keeps the last lines the code under test wrote through the standard logger
// (it logs, and otherwise swallows, errors on several asynchronous paths).
type logRing struct {
	mu    sync.Mutex
	lines []string
}

func (r *logRing) Write(p []byte) (int, error) {
	r.mu.Lock()
	r.lines = append(r.lines, string(p))
	if len(r.lines) > 400 {
		r.lines = append([]string{}, r.lines[len(r.lines)-200:]...)
	}
	r.mu.Unlock()
	return len(p), nil
}

func (r *logRing) tail(n int) []string {
	r.mu.Lock()
	defer r.mu.Unlock()
	l := r.lines
	if len(l) > n {
		l = l[len(l)-n:]
	}
	return append([]string{}, l...)
}

var serverLog = &logRing{}

func quietLogs() {
	if os.Getenv("VERIF_LOGS") != "" {
		return
	}
	log.SetOutput(serverLog)
	_ = io.Discard
}

type InstOpts struct {
	DataDir          string
	AOFStrategy      string // "" => "no"
	RestoreAOF       bool
	RestoreSnapshot  bool
	SnapshotInterval time.Duration
	SnapThreshold    uint64
	MaxMemory        uint64
	Policy           string // "" => noeviction
	EvictionSample   uint
	EvictionInterval time.Duration
	Clock            *VClock
	Extra            []func(*sugardb.SugarDB)
	Cluster          *ClusterOpts
}

// ClusterOpts makes the instance a member of a raft cluster.
type ClusterOpts struct {
	ServerID      string
	BindAddr      string
	Port          int
	DiscoveryPort int
	RaftPort      int
	JoinAddr      string // "" for the bootstrap node
	Bootstrap     bool
	Forward       bool
}

type Inst struct {
	S   *sugardb.SugarDB
	Clk *VClock
	Dir string
}

func NewInst(o InstOpts) (*Inst, error) {
	baseConfOnce.Do(quietLogs)
	conf := sugardb.DefaultConfig()
	conf.DataDir = o.DataDir
	conf.AOFSyncStrategy = "no"
	if o.AOFStrategy != "" {
		conf.AOFSyncStrategy = o.AOFStrategy
	}
	conf.RestoreAOF = o.RestoreAOF
	conf.RestoreSnapshot = o.RestoreSnapshot
	conf.SnapshotInterval = o.SnapshotInterval
	conf.SnapShotThreshold = 1 << 60
	if o.SnapThreshold != 0 {
		conf.SnapShotThreshold = o.SnapThreshold
	}
	conf.MaxMemory = o.MaxMemory
	conf.EvictionPolicy = "noeviction"
	if o.Policy != "" {
		conf.EvictionPolicy = o.Policy
	}
	if o.EvictionSample != 0 {
		conf.EvictionSample = o.EvictionSample
	}
	conf.EvictionInterval = time.Hour
	if o.EvictionInterval != 0 {
		conf.EvictionInterval = o.EvictionInterval
	}
	if c := o.Cluster; c != nil {
		conf.ServerID = c.ServerID
		conf.BindAddr = c.BindAddr
		conf.Port = uint16(c.Port)
		conf.DiscoveryPort = uint16(c.DiscoveryPort)
		conf.RaftBindAddr = c.BindAddr
		conf.RaftBindPort = uint16(c.RaftPort)
		conf.JoinAddr = c.JoinAddr
		conf.BootstrapCluster = c.Bootstrap
		conf.ForwardCommand = c.Forward
		if conf.SnapshotInterval == 0 {
			conf.SnapshotInterval = time.Hour // raft refuses an interval below 5 ms
		}
	}
	clk := o.Clock
	if clk == nil {
		clk = NewVClock()
	}
	opts := []func(*sugardb.SugarDB){sugardb.WithConfig(conf), sugardb.WithVerifClock(clk)}
	opts = append(opts, o.Extra...)
	var s *sugardb.SugarDB
	var err error
	func() {
		defer func() {
			if r := recover(); r != nil {
				err = fmt.Errorf("panic during start-up: %v\n%s", r, trunc(string(debug.Stack()), 1200))
			}
		}()
		s, err = sugardb.NewSugarDB(opts...)
	}()
	if err != nil {
		return nil, err
	}
	return &Inst{S: s, Clk: clk, Dir: o.DataDir}, nil
}

func (in *Inst) Close() {
	defer func() { _ = recover() }()
	in.S.ShutDown()
}

// Do executes one command through the embedded raw-reply API. A handler error
// is turned into an error reply; a panic is reported in crash.
func (in *Inst) Do(argv ...string) (v resp.Value, raw []byte, crash string) {
	defer func() {
		if r := recover(); r != nil {
			crash = fmt.Sprintf("panic: %v\n%s", r, trunc(string(debug.Stack()), 1500))
			v = resp.Value{Kind: resp.Error, Str: "PANIC"}
		}
	}()
	b, err := in.S.ExecuteCommand(argv...)
	if err != nil {
		return resp.Value{Kind: resp.Error, Str: err.Error()}, []byte("-" + err.Error()), ""
	}
	val, perr := resp.ParseOne(b)
	if perr != nil {
		return resp.Value{Kind: resp.Error, Str: "MALFORMED"}, b, "malformed reply: " + perr.Error()
	}
	return val, b, ""
}

func scalarText(v sugardb.VerifValue) (string, bool) {
	switch v.Type {
	case "string":
		return v.Str, true
	case "int":
		return strconv.FormatInt(v.Int, 10), true
	case "float":
		return fmt.Sprintf("%v", v.Float), true
	}
	return "", false
}

// EntryFromDump converts a dumped value to a model entry (ok=false for types
// the model does not know).
func EntryFromDump(v sugardb.VerifValue) (*model.Entry, string) {
	e := &model.Entry{Deadline: v.ExpireAt}
	switch v.Type {
	case "string", "int", "float":
		e.Kind = model.KScalar
		e.S, _ = scalarText(v)
	case "list":
		e.Kind = model.KList
		e.L = append([]string{}, v.List...)
	case "hash":
		e.Kind = model.KHash
		e.H = map[string]string{}
		for f, fv := range v.Hash {
			t, ok := scalarText(fv)
			if !ok {
				return nil, "hash field of type " + fv.Type
			}
			if fv.Type == "float" && !math.IsInf(fv.Float, 0) && !math.IsNaN(fv.Float) {
				// every hash reader prints a float field in plain decimal
				t = strconv.FormatFloat(fv.Float, 'f', -1, 64)
			}
			e.H[f] = t
		}
	case "set":
		e.Kind = model.KSet
		e.M = map[string]struct{}{}
		for _, m := range v.Set {
			e.M[m] = struct{}{}
		}
		if v.SetLen != len(v.Set) {
			return nil, fmt.Sprintf("set length counter %d != %d members", v.SetLen, len(v.Set))
		}
	case "zset":
		e.Kind = model.KZSet
		e.Z = map[string]float64{}
		for _, m := range v.ZSet {
			e.Z[m.Member] = m.Score
		}
	default:
		return nil, "value of type " + v.Type
	}
	return e, ""
}

// CanonDump renders a dump canonically, omitting keys whose deadline has
// passed at now (they are unobservable). Problems (unknown types, corrupted
// bookkeeping) are rendered into the value so that they show up as a diff.
func CanonDump(d sugardb.VerifDumpResult, now int64) map[int]map[string]string {
	out := map[int]map[string]string{}
	for db, keys := range d.DBs {
		m := map[string]string{}
		for k, v := range keys {
			if v.ExpireAt != 0 && v.ExpireAt < now {
				continue
			}
			e, problem := EntryFromDump(v)
			if e == nil {
				m[k] = "!" + problem
				continue
			}
			m[k] = model.CanonEntry(e)
		}
		if len(m) > 0 {
			out[db] = m
		}
	}
	return out
}

// StateFromDump builds a model state from a dump (used to seed models from
// restored instances).
func StateFromDump(d sugardb.VerifDumpResult) *model.State {
	st := model.NewState()
	for db, keys := range d.DBs {
		for k, v := range keys {
			if e, _ := EntryFromDump(v); e != nil {
				st.DB(db)[k] = e
			}
		}
	}
	return st
}

// mkScratch creates a fresh scratch directory.
func mkScratch(prefix string) string {
	root := scratchRoot()
	_ = os.MkdirAll(root, 0o755)
	d, err := os.MkdirTemp(root, prefix+"-")
	if err != nil {
		panic(err)
	}
	return d
}

func copyDir(src, dst string) error {
	return filepath.Walk(src, func(p string, info os.FileInfo, err error) error {
		if err != nil {
			return err
		}
		rel, _ := filepath.Rel(src, p)
		t := filepath.Join(dst, rel)
		if info.IsDir() {
			return os.MkdirAll(t, 0o755)
		}
		b, err := os.ReadFile(p)
		if err != nil {
			return err
		}
		return os.WriteFile(t, b, 0o644)
	})
}
