package main

import (
	"fmt"
	"github.com/echovault/sugardb/sugardb"
	"math/rand"
	"os"
	"path/filepath"
	"strconv"
	"strings"
	"sync"

	"verif/harness/model"
)

func init() {
	registerCheck("C10", "fault_enumeration", checkC10)
}

// populate issues n random writes (all value types, several databases) through the embedded API.
func populate(run *pRunner, r *rand.Rand, n int, relOK bool) []string {
	var done []string
	for i := 0; i < n; i++ {
		if r.Intn(5) == 0 {
			db := pDBs[r.Intn(len(pDBs))]
			_ = run.in.S.SelectDB(db)
			done = append(done, fmt.Sprintf("[SelectDB %d]", db))
		}
		argv := genWriteOp(r, run.in.Clk.NowNs(), relOK, true)
		if _, err := run.exec(pOp{Caller: "emb", Argv: argv}); err != nil {
			done = append(done, "!"+err.Error())
			continue
		}
		done = append(done, Step{Argv: argv}.String())
	}
	return done
}

func lastSave(in *Inst) string {
	v, _, crash := in.Do("LASTSAVE")
	if crash != "" {
		return "crash"
	}
	if v.IsError() {
		return "none"
	}
	return v.String()
}

type snapImage struct {
	Point string
	Dir   string
}

func listFiles(root string) map[string]int64 {
	out := map[string]int64{}
	_ = filepath.Walk(root, func(p string, info os.FileInfo, err error) error {
		if err == nil && !info.IsDir() {
			rel, _ := filepath.Rel(root, p)
			out[rel] = info.Size()
		}
		return nil
	})
	return out
}

func checkC10(ctx *Ctx) {
	ctx.Rule("one evaluation = one data-directory image (taken at a failpoint between two file-system operations of a snapshot, or derived from one by cutting a file that was being written at a byte offset) " +
		"restored with snapshot restore into a fresh instance; the whole canonical dump must equal the dump at the previous successful snapshot or at the new one, and LASTSAVE must match it. " +
		"distinct_nontrivial = distinct (image kind, failpoint, number of earlier snapshots, restored generation) tuples")
	ctx.Assume("process death = directory image at the failpoint", "virtual clock names the snapshot directories",
		"the fsync-before-rename order is observed separately as a system-call trace (strace lane)")
	if ctx.Fork(8, "", ctx.Watchdog()) {
		return
	}
	quietLogs()
	nh := ctx.N(64, 400)
	for h := 0; h < nh; h++ {
		if !ctx.Mine(h) {
			continue
		}
		ctx.SetCurrent(fmt.Sprintf("C10 history %d seed %d", h, ctx.Seed))
		c10History(ctx, h)
	}
	if ctx.Shard == 0 {
		c10Strace(ctx)
	}
}

func c10History(ctx *Ctx, h int) {
	r := rand.New(rand.NewSource(ctx.Seed*9_000_011 + int64(h)))
	earlier := h % 4
	root := mkScratch("c10")
	defer os.RemoveAll(root)
	dir := filepath.Join(root, "data")
	_ = os.MkdirAll(dir, 0o755)
	clk := NewVClock()
	run, err := newPRunner(dir, "no", false, false, clk)
	if err != nil {
		ctx.Broken("C10: cannot start instance: " + err.Error())
		return
	}
	defer run.close()
	var script []string
	script = append(script, populate(run, r, 10+r.Intn(25), true)...)
	var prevRaw sugardb.VerifDumpResult // dataset at the previous successful snapshot (raw: canonicalised at restore time)
	prevLS := "none"
	for e := 0; e < earlier; e++ {
		clk.Advance(int64(1+r.Intn(5000)) * 1e6)
		script = append(script, populate(run, r, 1+r.Intn(6), true)...)
		res, _ := run.exec(pOp{Caller: "emb", Argv: []string{"@SNAP"}})
		script = append(script, "@SNAP -> "+res)
		if res == "ok" {
			prevRaw = run.in.S.VerifDump()
			prevLS = lastSave(run.in)
		}
	}
	clk.Advance(int64(1+r.Intn(3000)) * 1e6)
	script = append(script, populate(run, r, 1+r.Intn(8), true)...)

	// the instrumented snapshot
	preFiles := listFiles(dir)
	var images []snapImage
	var mu sync.Mutex
	setHook(func(name string, args ...interface{}) {
		if !strings.HasPrefix(name, "snap.") || name == "snap.tick" {
			return
		}
		mu.Lock()
		defer mu.Unlock()
		img := snapImage{Point: name, Dir: filepath.Join(root, fmt.Sprintf("img%03d", len(images)))}
		if err := copyDir(dir, img.Dir); err == nil {
			images = append(images, img)
		}
	})
	res, rerr := run.exec(pOp{Caller: "emb", Argv: []string{"@SNAP"}})
	setHook(nil)
	script = append(script, "@SNAP(instrumented) -> "+res)
	if rerr != nil {
		ctx.Violate(Violation{Kind: "crash", Lane: "snapshot", What: "snapshot crashed: " + rerr.Error(),
			Case: map[string]interface{}{"script": script}, Key: "snap-crash"})
		return
	}
	curRaw := run.in.S.VerifDump()
	curLS := lastSave(run.in)
	if res != "ok" {
		// "nothing new": the dataset equals the previous snapshot
		curRaw, curLS = prevRaw, prevLS
	}
	ctx.Count("snapshot_result:"+strings.SplitN(res, ":", 2)[0], 1)
	restoreAt := clk // same clock: no time passes between crash and restart in this lane
	check := func(kind string, img snapImage, mutate func(string) error, extra string) {
		d, rd, err := restoreSnapDump(img.Dir, restoreAt, mutate)
		// keys whose deadline has passed by the time of the restart are gone from both candidates
		cur, prev := CanonDump(curRaw, restoreAt.NowNs()), CanonDump(prevRaw, restoreAt.NowNs())
		defer os.RemoveAll(rd.dir)
		ctx.Eval(1)
		gen := "?"
		switch {
		case err != nil:
			gen = "startup-failed"
		case canonEq(d, cur) && rd.lastSave == curLS:
			gen = "new"
		case canonEq(d, prev) && rd.lastSave == prevLS:
			gen = "prev"
		}
		ctx.Class(fmt.Sprintf("%s|%s|earlier=%d|%s", kind, img.Point, earlier, gen))
		if gen == "new" || gen == "prev" {
			// the recovered directory must keep working: further snapshots on it must restore too
			if kind == "process_death" {
				if what := snapRedurable(rd.dir, restoreAt, int64(h*131+len(img.Point))); what != "" {
					ctx.Violate(Violation{Kind: "redurable", Lane: "snapshot-redurable",
						What: fmt.Sprintf("after recovering from a crash at %s with %d earlier snapshot(s): %s", img.Point, earlier, what),
						Case: map[string]interface{}{"script": script, "failpoint": img.Point, "earlier_snapshots": earlier}, Key: "snap|redurable|" + img.Point})
				}
				ctx.Eval(1)
				ctx.Class(fmt.Sprintf("redurable|%s|earlier=%d", img.Point, earlier))
			}
			return
		}
		what := ""
		if err != nil {
			what = "start-up failed: " + err.Error()
		} else {
			what = fmt.Sprintf("restored dataset/LASTSAVE (%s) is neither the previous snapshot (LASTSAVE %s) nor the new one (LASTSAVE %s); vs new: %s; vs previous: %s",
				rd.lastSave, prevLS, curLS, model.DiffCanon(cur, d), model.DiffCanon(prev, d))
		}
		ctx.Violate(Violation{Kind: kind, Lane: "snapshot-" + kind,
			What: fmt.Sprintf("crash at %s%s with %d earlier snapshot(s): %s", img.Point, extra, earlier, what),
			Case: map[string]interface{}{"script": script, "failpoint": img.Point, "earlier_snapshots": earlier, "detail": extra},
			Key:  fmt.Sprintf("snap|%s|%s|%v", kind, img.Point, earlier > 0)})
	}
	before := preFiles
	for _, img := range images {
		check("process_death", img, nil, "")
		// torn family: every file that is new or grew since the previous image, cut at byte offsets
		files := listFiles(img.Dir)
		for f, sz := range files {
			// only a file that is being written right now (new or grown since the previous image) can be torn
			if osz, ok := before[f]; ok && osz == sz {
				continue
			}
			// a file that appeared through an atomic rename of a complete file is never torn
			if tsz, ok := before[f+".tmp"]; ok && tsz == sz {
				continue
			}
			if strings.HasPrefix(f, "aof/") || sz == 0 {
				continue
			}
			var cuts []int64
			if ctx.Quick() {
				cuts = []int64{0, 1, sz / 2, sz - 1}
			} else {
				for c := int64(0); c < sz; c += 1 + sz/48 {
					cuts = append(cuts, c)
				}
				cuts = append(cuts, sz-1)
			}
			for _, c := range cuts {
				if c < 0 || c >= sz {
					continue
				}
				f, c := f, c
				check("torn", img, func(d string) error { return os.Truncate(filepath.Join(d, f), c) }, fmt.Sprintf(" (%s cut at byte %d of %d)", f, c, sz))
			}
		}
		before = files
	}
	ctx.Count("images", int64(len(images)))
	if len(images) == 0 && res == "ok" {
		ctx.Broken("C10: a successful snapshot hit no snap.* failpoint")
	}
	if h == 0 {
		pts := []string{}
		for _, i := range images {
			pts = append(pts, i.Point)
		}
		ctx.Sample("snapshot-history", map[string]interface{}{"script": script, "failpoints_hit": pts})
	}

	// failing attempt: the state file of the next snapshot cannot be created
	clk.Advance(int64(1+r.Intn(3000)) * 1e6)
	script = append(script, populate(run, r, 1+r.Intn(5), true)...)
	blocked := filepath.Join(dir, "snapshots", strconv.FormatInt(clk.NowNs()/1e6, 10), "state.bin")
	_ = os.MkdirAll(blocked, 0o755)
	res2, rerr2 := run.exec(pOp{Caller: "emb", Argv: []string{"@SNAP"}})
	script = append(script, "@SNAP(state.bin is a directory) -> "+res2)
	ctx.Eval(1)
	if rerr2 != nil || res2 == "ok" {
		ctx.Violate(Violation{Kind: "failing_attempt", Lane: "snapshot-fail", What: fmt.Sprintf("snapshot whose state file cannot be created returned %q %v", res2, rerr2),
			Case: map[string]interface{}{"script": script}, Key: "snap-fail-result"})
	} else {
		ls := lastSave(run.in)
		img := snapImage{Point: "after-failed-attempt", Dir: dir}
		if ls != curLS {
			ctx.Violate(Violation{Kind: "failing_attempt", Lane: "snapshot-fail", What: fmt.Sprintf("a failed snapshot attempt changed LASTSAVE from %s to %s", curLS, ls),
				Case: map[string]interface{}{"script": script}, Key: "snap-fail-lastsave"})
		}
		prevRaw, prevLS = curRaw, curLS
		check("failing_attempt", img, nil, "")
		ctx.Class("failing_attempt|eisdir")
	}
	_ = os.RemoveAll(filepath.Dir(blocked))
	// nothing-new attempt
	clk.Advance(7e6)
	run2Before := listFiles(filepath.Join(dir, "snapshots"))
	if res3, _ := run.exec(pOp{Caller: "emb", Argv: []string{"@SNAP"}}); res3 == "ok" {
		// there was something new (the writes after the last good snapshot): take another one with nothing new
		curRaw, curLS = run.in.S.VerifDump(), lastSave(run.in)
		prevRaw, prevLS = curRaw, curLS
		clk.Advance(7e6)
		run2Before = listFiles(filepath.Join(dir, "snapshots"))
		res3, _ = run.exec(pOp{Caller: "emb", Argv: []string{"@SNAP"}})
		script = append(script, "@SNAP(again, nothing new) -> "+res3)
		ctx.Eval(1)
		if ls := lastSave(run.in); ls != curLS {
			ctx.Violate(Violation{Kind: "nothing_new", Lane: "snapshot-fail", What: fmt.Sprintf("a snapshot attempt that found nothing new changed LASTSAVE from %s to %s (attempt returned %q)", curLS, ls, res3),
				Case: map[string]interface{}{"script": script}, Key: "snap-nothing-new-lastsave"})
		}
		after := listFiles(filepath.Join(dir, "snapshots"))
		for f, sz := range run2Before {
			if after[f] != sz {
				ctx.Violate(Violation{Kind: "nothing_new", Lane: "snapshot-fail", What: fmt.Sprintf("a snapshot attempt that found nothing new changed file %s (%d -> %d bytes)", f, sz, after[f]),
					Case: map[string]interface{}{"script": script}, Key: "snap-nothing-new-files"})
			}
		}
		check("nothing_new", snapImage{Point: "after-nothing-new", Dir: dir}, nil, "")
		ctx.Class("nothing_new|" + strings.SplitN(res3, ":", 2)[0])
	}
}

type restored struct {
	dir      string
	lastSave string
}

// restoreSnapDump restores a fresh instance (snapshot restore) from a copy of imgDir.
func restoreSnapDump(imgDir string, clk *VClock, mutate func(dir string) error) (map[int]map[string]string, restored, error) {
	dir := mkScratch("restore")
	rd := restored{dir: dir}
	if err := copyDir(imgDir, dir); err != nil {
		return nil, rd, err
	}
	if mutate != nil {
		if err := mutate(dir); err != nil {
			return nil, rd, err
		}
	}
	in, err := NewInst(InstOpts{DataDir: dir, AOFStrategy: "no", RestoreSnapshot: true, Clock: clk})
	if err != nil {
		return nil, rd, err
	}
	d := CanonDump(in.S.VerifDump(), clk.NowNs())
	rd.lastSave = lastSave(in)
	in.Close()
	return d, rd, nil
}

// snapRedurable: on a directory recovered from a crash image, start with snapshot restore, and three times:
// write, move the clock, snapshot, restart and compare. Returns "" or what went wrong.
func snapRedurable(dir string, base *VClock, seed int64) string {
	r := rand.New(rand.NewSource(seed))
	clk := NewVClock()
	clk.Set(base.NowNs())
	for round := 0; round < 3; round++ {
		run, err := newPRunner(dir, "no", false, true, clk)
		if err != nil {
			return "start-up failed: " + err.Error()
		}
		populate(run, r, 2+r.Intn(6), false)
		clk.Advance(int64(1000+r.Intn(100000)) * 1e6)
		res, rerr := run.exec(pOp{Caller: "emb", Argv: []string{"@SNAP"}})
		want := run.canon()
		ls := lastSave(run.in)
		run.close()
		if rerr != nil {
			return "snapshot crashed: " + rerr.Error()
		}
		if res != "ok" && !strings.Contains(res, "nothing new") {
			return fmt.Sprintf("round %d: a snapshot on the recovered directory failed: %s", round, res)
		}
		if res != "ok" {
			continue
		}
		d, rd, err := restoreSnapDump(dir, clk, nil)
		os.RemoveAll(rd.dir)
		if err != nil {
			return "restart after a later snapshot failed: " + err.Error()
		}
		if !canonEq(want, d) || rd.lastSave != ls {
			return fmt.Sprintf("round %d: a later successful snapshot (LASTSAVE %s) does not restore (LASTSAVE %s): %s", round, ls, rd.lastSave, model.DiffCanon(want, d))
		}
	}
	return ""
}
