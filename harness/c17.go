package main

import (
	"math/rand"
)

// C17: sorted-set commands implement a scored, ordered member map.

func init() {
	registerCheck("C17", "exploration", checkC17)
}

func c17Alphabet() [][]string {
	return [][]string{
		// ZADD: plain, flags, INCR, malformed
		{"ZADD", "a", "1", "m1"}, {"ZADD", "a", "3.5", "m1", "-1", "m9"}, {"ZADD", "a", "2", "m0", "2", "m8"},
		{"ZADD", "a", "NX", "7", "m1", "7", "m8"}, {"ZADD", "a", "XX", "7", "m1", "7", "m8"},
		{"ZADD", "a", "GT", "0", "m1", "9", "m2", "-4", "m7"}, {"ZADD", "a", "LT", "0", "m1", "9", "m2", "4", "m7"},
		{"ZADD", "a", "CH", "4", "m1", "2", "m2", "6", "m7"}, {"ZADD", "a", "XX", "CH", "GT", "1.5", "m1", "9", "m2"},
		{"ZADD", "a", "xx", "ch", "lt", "1.5", "m1", "-9", "m2", "0", "m8"},
		{"ZADD", "a", "INCR", "2.5", "m1"}, {"ZADD", "a", "NX", "INCR", "1", "m1"}, {"ZADD", "a", "XX", "INCR", "1", "m8"},
		{"ZADD", "a", "GT", "INCR", "-1", "m1"}, {"ZADD", "a", "LT", "CH", "INCR", "-1", "m1"}, {"ZADD", "a", "GT", "INCR", "-1", "m8"},
		{"ZADD", "a", "INCR", "1", "m1", "2", "m2"}, {"ZADD", "a", "NX", "GT", "1", "m1"}, {"ZADD", "a", "NX", "XX", "1", "m1"},
		{"ZADD", "a", "GT", "LT", "1", "m1"},
		{"ZADD", "a", "1"}, {"ZADD", "a", "x", "m1"}, {"ZADD", "a", "1", "m1", "2"}, {"ZADD", "a", "1", "m1", "x", "m2"},
		{"ZADD", "a", "+inf", "m1", "-inf", "m0"}, {"ZADD", "a", "1", "m1", "2", "m1"}, {"ZADD", "a", "INCR", "+inf", "m3"},
		{"ZADD", "b", "2", "m2", "3", "m5"}, {"ZADD", "5", "1", "m1"},
		{"ZINCRBY", "a", "1.5", "m1"}, {"ZINCRBY", "a", "-inf", "m3"}, {"ZINCRBY", "a", "x", "m1"}, {"ZINCRBY", "a", "2", "m8"},
		// readers
		{"ZCARD", "a"}, {"ZCARD", "b"},
		{"ZCOUNT", "a", "-inf", "+inf"}, {"ZCOUNT", "a", "1", "2"}, {"ZCOUNT", "a", "2", "1"}, {"ZCOUNT", "a", "x", "1"},
		{"ZLEXCOUNT", "a", "a", "z"}, {"ZLEXCOUNT", "a", "ab", "abd"},
		{"ZSCORE", "a", "m1"}, {"ZSCORE", "a", "nope"}, {"ZMSCORE", "a", "m1", "nope", "m2"},
		{"ZRANK", "a", "m2"}, {"ZRANK", "a", "m2", "WITHSCORE"}, {"ZREVRANK", "a", "m2"}, {"ZREVRANK", "a", "m1", "WITHSCORE"},
		{"ZRANK", "a", "y"}, {"ZREVRANK", "a", "ab"}, {"ZRANK", "a", "nope"}, {"ZRANK", "a", "m1", "BOGUS"},
		{"ZRANDMEMBER", "a"}, {"ZRANDMEMBER", "a", "2"}, {"ZRANDMEMBER", "a", "-3", "WITHSCORES"}, {"ZRANDMEMBER", "a", "0"},
		{"ZRANDMEMBER", "a", "10", "WITHSCORES"},
		// removals
		{"ZREM", "a", "m1"}, {"ZREM", "a", "m1", "m2", "m3", "nope", "m1"},
		{"ZPOPMIN", "a"}, {"ZPOPMAX", "a"}, {"ZPOPMIN", "a", "2"}, {"ZPOPMAX", "a", "10"}, {"ZPOPMIN", "a", "0"}, {"ZPOPMAX", "a", "-1"},
		{"ZPOPMIN", "a", "x"},
		{"ZMPOP", "a", "b", "MIN"}, {"ZMPOP", "b", "a", "MAX", "COUNT", "2"}, {"ZMPOP", "a", "MIN", "COUNT", "0"}, {"ZMPOP", "nosuch", "a", "MAX"},
		{"ZREMRANGEBYSCORE", "a", "1", "2"}, {"ZREMRANGEBYSCORE", "a", "-inf", "+inf"}, {"ZREMRANGEBYSCORE", "a", "2", "1"},
		{"ZREMRANGEBYRANK", "a", "0", "0"}, {"ZREMRANGEBYRANK", "a", "1", "-1"}, {"ZREMRANGEBYRANK", "a", "0", "-1"},
		{"ZREMRANGEBYRANK", "a", "2", "1"}, {"ZREMRANGEBYRANK", "a", "0", "10"},
		{"ZREMRANGEBYLEX", "a", "ab", "y"}, {"ZREMRANGEBYLEX", "a", "a", "zz"},
		// ranges
		{"ZRANGE", "a", "-inf", "+inf"}, {"ZRANGE", "a", "1", "2", "WITHSCORES"}, {"ZRANGE", "a", "-inf", "+inf", "REV", "WITHSCORES"},
		{"ZRANGE", "a", "1", "3", "BYSCORE", "LIMIT", "1", "1"}, {"ZRANGE", "a", "-inf", "+inf", "LIMIT", "0", "2"},
		{"ZRANGE", "a", "-inf", "+inf", "REV", "LIMIT", "1", "-1"},
		{"ZRANGE", "a", "a", "z", "BYLEX"}, {"ZRANGE", "a", "ab", "y", "BYLEX", "REV"}, {"ZRANGE", "a", "a", "z", "BYLEX", "LIMIT", "1", "2"},
		{"ZRANGE", "a", "1", "x"}, {"ZRANGE", "a", "1", "2", "BOGUS"}, {"ZRANGE", "a", "1", "2", "BYSCORE", "BYLEX"}, {"ZRANGE", "a", "2", "1"},
		{"ZRANGESTORE", "d", "a", "-inf", "+inf"}, {"ZRANGESTORE", "a", "a", "2", "3"}, {"ZRANGESTORE", "d", "a", "a", "y", "BYLEX"},
		{"ZRANGESTORE", "d", "b", "1", "2", "REV"}, {"ZRANGESTORE", "b", "nosuch", "1", "2"},
		// algebra
		{"ZDIFF", "a", "b"}, {"ZDIFF", "a", "b", "WITHSCORES"}, {"ZDIFF", "b", "a"}, {"ZDIFF", "nosuch", "a"},
		{"ZDIFFSTORE", "d", "a", "b"}, {"ZDIFFSTORE", "a", "a", "b"}, {"ZDIFFSTORE", "a", "b", "a"}, {"ZDIFFSTORE", "b", "nosuch"},
		{"ZUNION", "a", "b"}, {"ZUNION", "a", "b", "WITHSCORES"}, {"ZUNION", "a", "b", "WEIGHTS", "2", "0.5", "AGGREGATE", "MAX", "WITHSCORES"},
		{"ZUNION", "a", "b", "WEIGHTS", "1"}, {"ZUNION", "a", "b", "AGGREGATE", "avg"}, {"ZUNION", "a", "a", "b", "WITHSCORES"},
		{"ZUNIONSTORE", "d", "a", "b"}, {"ZUNIONSTORE", "a", "a", "b", "WEIGHTS", "2", "3"}, {"ZUNIONSTORE", "b", "a", "b", "AGGREGATE", "MIN"},
		{"ZINTER", "a", "b"}, {"ZINTER", "a", "b", "WEIGHTS", "2", "-1", "WITHSCORES"}, {"ZINTER", "a", "b", "AGGREGATE", "MIN", "WITHSCORES"},
		{"ZINTER", "a", "nosuch"}, {"ZINTER", "nosuch", "a"},
		{"ZINTERSTORE", "d", "a", "b"}, {"ZINTERSTORE", "a", "a", "b"}, {"ZINTERSTORE", "d", "a", "a", "WEIGHTS", "1", "2"},
		{"ZINTERSTORE", "b", "a", "nosuch"},
		// other
		{"DEL", "a"}, {"SET", "b", "str"}, {"ZADD", "d", "9", "zz"}, {"TYPE", "a"},
	}
}

func c17InitStates() [][][]string {
	return [][][]string{
		{},
		{{"ZADD", "a", "1", "m1", "2", "m2", "3", "m3"}},
		{{"ZADD", "a", "1", "x", "1", "y", "1", "z", "1", "ab", "1", "abc", "1", "m1"}},
		{{"ZADD", "a", "-inf", "m1", "0.5", "m2", "+inf", "m3", "-2.25", "m4", "0.5", "m0"}, {"ZADD", "b", "1.5", "m2", "2", "m5", "-1", "m3"}},
		{{"SET", "a", "hello"}, {"ZADD", "b", "1", "m1"}},
		{{"RPUSH", "a", "e1", "e2"}, {"ZADD", "d", "1", "m1"}},
		{{"ZADD", "a", "1", "m1", "2", "m2"}, {"EXPIRE", "a", "100"}, {"SADD", "b", "m1"}, {"ZADD", "d", "5", "old"}, {"EXPIRE", "d", "50"}},
		{{"ZADD", "a", "2", "m2"}, {"ZADD", "b", "1", "m1", "2", "m2", "2", "m1b"}},
	}
}

// c17Reduced is the depth-3 alphabet (thorough tier).
func c17Reduced() [][]string {
	return [][]string{
		{"ZADD", "a", "1", "m1"}, {"ZADD", "a", "2", "m0", "2", "m8"}, {"ZADD", "a", "XX", "CH", "GT", "1.5", "m1", "9", "m2"},
		{"ZADD", "a", "NX", "7", "m1", "7", "m8"}, {"ZADD", "a", "LT", "0", "m1", "9", "m2", "4", "m7"},
		{"ZADD", "a", "INCR", "2.5", "m1"}, {"ZADD", "a", "XX", "INCR", "1", "m8"}, {"ZADD", "a", "+inf", "m1", "-inf", "m0"},
		{"ZADD", "b", "2", "m2", "3", "m5"}, {"ZINCRBY", "a", "1.5", "m1"}, {"ZINCRBY", "a", "-inf", "m3"},
		{"ZREM", "a", "m1", "m2"}, {"ZPOPMIN", "a"}, {"ZPOPMAX", "a", "2"}, {"ZMPOP", "b", "a", "MAX", "COUNT", "2"},
		{"ZREMRANGEBYSCORE", "a", "1", "2"}, {"ZREMRANGEBYRANK", "a", "1", "-1"}, {"ZREMRANGEBYLEX", "a", "ab", "y"},
		{"ZRANGE", "a", "-inf", "+inf", "WITHSCORES"}, {"ZRANGE", "a", "-inf", "+inf", "REV"}, {"ZRANGE", "a", "a", "z", "BYLEX"},
		{"ZRANK", "a", "m2"}, {"ZREVRANK", "a", "m8"}, {"ZCOUNT", "a", "1", "2"}, {"ZMSCORE", "a", "m1", "m8"},
		{"ZRANGESTORE", "d", "a", "1", "+inf"}, {"ZRANGESTORE", "a", "a", "2", "3"},
		{"ZDIFFSTORE", "a", "a", "b"}, {"ZUNIONSTORE", "a", "a", "b", "WEIGHTS", "2", "3"}, {"ZUNIONSTORE", "d", "a", "b", "AGGREGATE", "MIN"},
		{"ZINTERSTORE", "d", "a", "b"}, {"ZINTERSTORE", "b", "a", "b", "AGGREGATE", "MAX"},
		{"ZADD", "d", "9", "zz"}, {"DEL", "a"}, {"SET", "b", "str"},
	}
}

// c17AliasAlphabet: every …STORE form followed by mutations of the destination
// and of the sources. The whole-store dump after each step reveals a
// destination that shares structure with a source (or an algebra command that
// mutates an operand).
func c17AliasAlphabet() [][]string {
	return [][]string{
		{"ZUNIONSTORE", "d", "a"}, {"ZUNIONSTORE", "d", "a", "b"}, {"ZUNIONSTORE", "d", "a", "nosuch"},
		{"ZINTERSTORE", "d", "a"}, {"ZINTERSTORE", "d", "a", "b"}, {"ZINTERSTORE", "d", "a", "a"},
		{"ZDIFFSTORE", "d", "a"}, {"ZDIFFSTORE", "d", "a", "b"}, {"ZDIFFSTORE", "d", "a", "nosuch"},
		{"ZRANGESTORE", "d", "a", "-inf", "+inf"}, {"ZRANGESTORE", "d", "a", "a", "zz", "BYLEX"},
		{"ZUNIONSTORE", "a", "a"}, {"ZINTERSTORE", "a", "a", "b"}, {"ZDIFFSTORE", "a", "a"}, {"ZRANGESTORE", "a", "a", "-inf", "+inf"},
		{"ZUNION", "a", "b", "WITHSCORES"}, {"ZINTER", "a", "b", "WITHSCORES"}, {"ZDIFF", "a", "b", "WITHSCORES"},
		{"ZADD", "d", "9", "zz"}, {"ZINCRBY", "d", "1", "m1"}, {"ZREM", "d", "m1"}, {"ZPOPMIN", "d"},
		{"ZADD", "a", "9", "yy"}, {"ZINCRBY", "a", "1", "m1"}, {"ZREM", "a", "m1"}, {"ZPOPMAX", "a"},
	}
}

func c17AliasInits() [][][]string {
	return [][][]string{
		{{"ZADD", "a", "1", "m1", "2", "m2"}, {"ZADD", "b", "5", "m1", "6", "m3"}},
		{{"ZADD", "a", "1", "m1", "1", "m2", "1", "m3"}, {"ZADD", "d", "7", "old"}},
		{{"ZADD", "a", "1", "m1"}, {"SET", "d", "str"}, {"ZADD", "b", "1", "m1"}},
	}
}

func c17Universe() Universe {
	return Universe{
		Keys: []string{"a", "b", "c", "d"},
		Vals: []string{"m1", "m2", "m3", "m4", "a", "ab", "abc", "b", "B", "", "a\r\nb", "nul\x00x", bigVal,
			"10", "-1", "nx", "+inf", "ünï", "hello world", "*1"},
		Ints:   []string{"0", "1", "-1", "2", "-2", "3", "-3", "5", "10", "-10", "100", "x", "1.5", "", "9223372036854775807", "-9223372036854775808"},
		Floats: []string{"0", "1", "-1", "0.5", "1.5", "2", "-2.25", "3", "10", "+inf", "-inf", "-0", "1e2", "007", "0.125", "4", "-3"},
	}
}

// c17OddNumbers: invalid or undocumented number syntax, used sparingly.
var c17OddNumbers = []string{"x", "", "nan", "inf", "(1", " 1", "1.", "0x10", "1e308", "infinity", "--1"}

func c17Gens() []cmdGen {
	k := func(r *rand.Rand, u *Universe) string { return pick(r, u.Keys) }
	m := func(r *rand.Rand, u *Universe) string {
		if r.Intn(3) > 0 {
			return pick(r, u.Vals[:8])
		}
		return pick(r, u.Vals)
	}
	sc := func(r *rand.Rand, u *Universe) string {
		if r.Intn(30) == 0 {
			return pick(r, c17OddNumbers)
		}
		return pick(r, u.Floats)
	}
	kw := func(r *rand.Rand, s string) string {
		if r.Intn(4) == 0 {
			return lower(s)
		}
		return s
	}
	pairs := func(r *rand.Rand, u *Universe, a []string, n int) []string {
		for i := 0; i < n; i++ {
			a = append(a, sc(r, u), m(r, u))
		}
		return a
	}
	zaddFlags := func(r *rand.Rand, a []string) []string {
		switch r.Intn(5) {
		case 0:
			a = append(a, kw(r, "NX"))
		case 1:
			a = append(a, kw(r, "XX"))
		}
		switch r.Intn(5) {
		case 0:
			a = append(a, kw(r, "GT"))
		case 1:
			a = append(a, kw(r, "LT"))
		}
		if r.Intn(3) == 0 {
			a = append(a, kw(r, "CH"))
		}
		return a
	}
	bound := func(r *rand.Rand, u *Universe) string {
		if r.Intn(4) == 0 {
			return pick(r, []string{"-inf", "+inf"})
		}
		return sc(r, u)
	}
	rangeOpts := func(r *rand.Rand, u *Universe, a []string, lex bool) []string {
		if lex {
			a = append(a, kw(r, "BYLEX"))
		} else if r.Intn(2) == 0 {
			a = append(a, kw(r, "BYSCORE"))
		}
		if r.Intn(3) == 0 {
			a = append(a, kw(r, "REV"))
		}
		if r.Intn(3) == 0 {
			a = append(a, kw(r, "LIMIT"), pick(r, u.Ints[:10]), pick(r, u.Ints[:12]))
		}
		if r.Intn(2) == 0 {
			a = append(a, kw(r, "WITHSCORES"))
		}
		if r.Intn(40) == 0 {
			a = append(a, pick(r, []string{"BOGUS", "BYLEX", "LIMIT", "REV"}))
		}
		return a
	}
	lexBound := func(r *rand.Rand, u *Universe) string {
		if r.Intn(12) == 0 {
			return pick(r, []string{"-", "+", "[a", "(b", "[m2", "(m3"})
		}
		return pick(r, []string{"", "a", "ab", "abc", "b", "m", "m1", "m2", "m3", "z", "B", "\xff"})
	}
	algebra := func(r *rand.Rand, u *Universe, a []string) []string {
		n := 1 + r.Intn(3)
		for i := 0; i < n; i++ {
			a = append(a, k(r, u))
		}
		if r.Intn(2) == 0 {
			a = append(a, kw(r, "WEIGHTS"))
			wn := n
			if r.Intn(12) == 0 {
				wn = n + 1 - 2*r.Intn(2)
			}
			for i := 0; i < wn; i++ {
				if r.Intn(25) == 0 {
					a = append(a, pick(r, []string{"x", "", "inf", "nan"}))
				} else {
					a = append(a, pick(r, []string{"0", "1", "2", "-1", "0.5", "3", "-2"}))
				}
			}
		}
		if r.Intn(2) == 0 {
			a = append(a, kw(r, "AGGREGATE"), pick(r, []string{"SUM", "MIN", "MAX", "sum", "min", "max", "avg"}))
		}
		if r.Intn(2) == 0 {
			a = append(a, kw(r, "WITHSCORES"))
		}
		return a
	}
	return []cmdGen{
		// ZADD plain
		func(r *rand.Rand, u *Universe, now int64) []string {
			return pairs(r, u, []string{"ZADD", k(r, u)}, 1+r.Intn(4))
		},
		func(r *rand.Rand, u *Universe, now int64) []string {
			return pairs(r, u, []string{"ZADD", k(r, u)}, 1+r.Intn(4))
		},
		// ZADD with flags
		func(r *rand.Rand, u *Universe, now int64) []string {
			return pairs(r, u, zaddFlags(r, []string{"ZADD", k(r, u)}), 1+r.Intn(3))
		},
		func(r *rand.Rand, u *Universe, now int64) []string {
			return pairs(r, u, zaddFlags(r, []string{"ZADD", k(r, u)}), 1+r.Intn(3))
		},
		// ZADD INCR
		func(r *rand.Rand, u *Universe, now int64) []string {
			a := append(zaddFlags(r, []string{"ZADD", k(r, u)}), kw(r, "INCR"))
			n := 1
			if r.Intn(15) == 0 {
				n = 2
			}
			return pairs(r, u, a, n)
		},
		func(r *rand.Rand, u *Universe, now int64) []string {
			return []string{"ZINCRBY", k(r, u), sc(r, u), m(r, u)}
		},
		func(r *rand.Rand, u *Universe, now int64) []string { return []string{"ZCARD", k(r, u)} },
		func(r *rand.Rand, u *Universe, now int64) []string {
			return []string{"ZCOUNT", k(r, u), bound(r, u), bound(r, u)}
		},
		func(r *rand.Rand, u *Universe, now int64) []string {
			return []string{"ZLEXCOUNT", k(r, u), lexBound(r, u), lexBound(r, u)}
		},
		func(r *rand.Rand, u *Universe, now int64) []string { return []string{"ZSCORE", k(r, u), m(r, u)} },
		func(r *rand.Rand, u *Universe, now int64) []string {
			a := []string{"ZMSCORE", k(r, u)}
			for i, n := 0, 1+r.Intn(3); i < n; i++ {
				a = append(a, m(r, u))
			}
			return a
		},
		func(r *rand.Rand, u *Universe, now int64) []string {
			a := []string{pick(r, []string{"ZRANK", "ZREVRANK"}), k(r, u), m(r, u)}
			switch r.Intn(8) {
			case 0, 1, 2:
				a = append(a, kw(r, "WITHSCORE"))
			case 3:
				a = append(a, pick(r, []string{"WITHSCORES", "BOGUS"}))
			}
			return a
		},
		func(r *rand.Rand, u *Universe, now int64) []string {
			a := []string{"ZRANDMEMBER", k(r, u)}
			if r.Intn(4) > 0 {
				a = append(a, pick(r, u.Ints[:12]))
				if r.Intn(2) == 0 {
					a = append(a, kw(r, "WITHSCORES"))
				}
			}
			return a
		},
		func(r *rand.Rand, u *Universe, now int64) []string {
			a := []string{"ZREM", k(r, u)}
			for i, n := 0, 1+r.Intn(3); i < n; i++ {
				a = append(a, m(r, u))
			}
			return a
		},
		func(r *rand.Rand, u *Universe, now int64) []string {
			a := []string{pick(r, []string{"ZPOPMIN", "ZPOPMAX"}), k(r, u)}
			if r.Intn(2) == 0 {
				a = append(a, pick(r, u.Ints[:12]))
			}
			return a
		},
		func(r *rand.Rand, u *Universe, now int64) []string {
			a := []string{"ZMPOP"}
			for i, n := 0, 1+r.Intn(3); i < n; i++ {
				a = append(a, k(r, u))
			}
			if r.Intn(10) > 0 {
				a = append(a, kw(r, pick(r, []string{"MIN", "MAX"})))
			}
			if r.Intn(2) == 0 {
				a = append(a, kw(r, "COUNT"), pick(r, u.Ints[:12]))
			}
			return a
		},
		func(r *rand.Rand, u *Universe, now int64) []string {
			return []string{"ZREMRANGEBYSCORE", k(r, u), bound(r, u), bound(r, u)}
		},
		func(r *rand.Rand, u *Universe, now int64) []string {
			return []string{"ZREMRANGEBYRANK", k(r, u), pick(r, u.Ints[:12]), pick(r, u.Ints[:12])}
		},
		func(r *rand.Rand, u *Universe, now int64) []string {
			return []string{"ZREMRANGEBYLEX", k(r, u), lexBound(r, u), lexBound(r, u)}
		},
		// ZRANGE by score (twice) and by lex
		func(r *rand.Rand, u *Universe, now int64) []string {
			return rangeOpts(r, u, []string{"ZRANGE", k(r, u), bound(r, u), bound(r, u)}, false)
		},
		func(r *rand.Rand, u *Universe, now int64) []string {
			return rangeOpts(r, u, []string{"ZRANGE", k(r, u), "-inf", "+inf"}, false)
		},
		func(r *rand.Rand, u *Universe, now int64) []string {
			return rangeOpts(r, u, []string{"ZRANGE", k(r, u), lexBound(r, u), lexBound(r, u)}, true)
		},
		func(r *rand.Rand, u *Universe, now int64) []string {
			if r.Intn(3) == 0 {
				return rangeOpts(r, u, []string{"ZRANGESTORE", k(r, u), k(r, u), lexBound(r, u), lexBound(r, u)}, true)
			}
			return rangeOpts(r, u, []string{"ZRANGESTORE", k(r, u), k(r, u), bound(r, u), bound(r, u)}, false)
		},
		func(r *rand.Rand, u *Universe, now int64) []string {
			a := []string{"ZDIFF"}
			for i, n := 0, 1+r.Intn(3); i < n; i++ {
				a = append(a, k(r, u))
			}
			if r.Intn(2) == 0 {
				a = append(a, kw(r, "WITHSCORES"))
			}
			return a
		},
		func(r *rand.Rand, u *Universe, now int64) []string {
			a := []string{"ZDIFFSTORE", k(r, u)}
			for i, n := 0, 1+r.Intn(3); i < n; i++ {
				a = append(a, k(r, u))
			}
			return a
		},
		func(r *rand.Rand, u *Universe, now int64) []string { return algebra(r, u, []string{"ZUNION"}) },
		func(r *rand.Rand, u *Universe, now int64) []string { return algebra(r, u, []string{"ZINTER"}) },
		func(r *rand.Rand, u *Universe, now int64) []string {
			return algebra(r, u, []string{"ZUNIONSTORE", k(r, u)})
		},
		func(r *rand.Rand, u *Universe, now int64) []string {
			return algebra(r, u, []string{"ZINTERSTORE", k(r, u)})
		},
		// equal-score sets so that the lexicographic commands are exercised
		func(r *rand.Rand, u *Universe, now int64) []string {
			a := []string{"ZADD", k(r, u)}
			s := pick(r, []string{"0", "1", "-2.25"})
			for i, n := 0, 2+r.Intn(5); i < n; i++ {
				a = append(a, s, m(r, u))
			}
			return a
		},
		// other types, deletion, expiry
		func(r *rand.Rand, u *Universe, now int64) []string {
			switch r.Intn(8) {
			case 0:
				return []string{"SET", k(r, u), "str"}
			case 1:
				return []string{"RPUSH", k(r, u), "e1", "e2"}
			case 2:
				return []string{"HSET", k(r, u), "f1", "v1"}
			case 3:
				return []string{"SADD", k(r, u), "m1", "m2"}
			case 4:
				return []string{"EXPIRE", k(r, u), pick(r, []string{"1", "10", "100"})}
			case 5:
				return []string{"PERSIST", k(r, u)}
			case 6:
				return []string{"TYPE", k(r, u)}
			}
			return []string{"DEL", k(r, u)}
		},
	}
}

func lower(s string) string {
	b := []byte(s)
	for i, c := range b {
		if c >= 'A' && c <= 'Z' {
			b[i] = c + 32
		}
	}
	return string(b)
}

func checkC17(ctx *Ctx) {
	ctx.Rule("one evaluation = one program (sequence of sorted-set commands) run on a fresh instance in lock step with the reference " +
		"member->score map ordered by (score, member); after every step the strict-parsed reply must be allowed by the model and the " +
		"side-effect-free dump of the whole store must equal the model state. " +
		"distinct_nontrivial = distinct (command/arity/options, pre-state kind of the first key, outcome class, state-changed) transition classes observed")
	ctx.Assume("virtual clock injected through the verif build",
		"embedded raw-reply API (ExecuteCommand) is the same dispatch path as TCP minus framing (framing is C12)",
		"scores drawn by the generators are small dyadic rationals and ±inf, so that weighted sums are exact in any order of association",
		"reply shapes (flat or nested member/score lists) are not fixed by the statement: both are accepted")
	runWitnesses(ctx, lightInst)
	alpha := c17Alphabet()
	exhaustiveLane(ctx, "exhaustive-d1", alpha, c17InitStates(), 1)
	exhaustiveLane(ctx, "exhaustive-d2", alpha, c17InitStates(), 2)
	exhaustiveLane(ctx, "alias-d2", c17AliasAlphabet(), c17AliasInits(), 2)
	if !ctx.Quick() {
		exhaustiveLane(ctx, "exhaustive-d3", c17Reduced(), c17InitStates()[:4], 3)
		exhaustiveLane(ctx, "alias-d3", c17AliasAlphabet(), c17AliasInits(), 3)
	}
	ctx.exhaustive = false
	randomLane(ctx, "random", ctx.N(1200, 12000), c17Gens(), nil, c17Universe(), 40, 60, 0.04, lightInst)
}
