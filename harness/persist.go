package main

import (
	"fmt"
	"math/rand"
	"os"
	"path/filepath"
	"strconv"
	"strings"
	"sync"
	"sync/atomic"
	"time"

	"github.com/echovault/sugardb/sugardb"

	"verif/harness/model"
)

// ---------------------------------------------------------------------------
// process-wide hook dispatch

type hookFn func(name string, args ...interface{})

var curHook atomic.Pointer[hookFn]
var hookInstall sync.Once

func setHook(h hookFn) {
	hookInstall.Do(func() {
		sugardb.VerifSetHookHandler(func(name string, args ...interface{}) {
			if h := curHook.Load(); h != nil {
				(*h)(name, args...)
			}
		})
	})
	if h == nil {
		curHook.Store(nil)
		return
	}
	curHook.Store(&h)
}

// ---------------------------------------------------------------------------
// persistence workloads

type pOp struct {
	Caller string   `json:"caller"` // emb | t1 | t2
	Argv   []string `json:"argv,omitempty"`
	SelDB  *int     `json:"select_db,omitempty"` // embedded SelectDB (caller emb) before argv
}

func (o pOp) String() string {
	s := o.Caller + ":"
	if o.SelDB != nil {
		s += fmt.Sprintf("[SelectDB %d]", *o.SelDB)
	}
	return s + " " + Step{Argv: o.Argv}.String()
}

type pWorkload struct {
	Name   string `json:"name"`
	Policy string `json:"policy"`
	Ops    []pOp  `json:"ops"`
}

var pDBs = []int{0, 1, 3, 12}

// genWriteOp generates one deterministic write command (absolute expiries only
// unless relOK), over a small key universe, covering all value types.
func genWriteOp(r *rand.Rand, now int64, relOK bool, spopOK bool) []string {
	k := func() string { return "k" + strconv.Itoa(1+r.Intn(5)) }
	v := func() string {
		return pick(r, []string{"x", "yy", "", "10", "-3", "1.5", "a\r\nb", "hello world", "007", "ünï", "nul\x00x", "9999999999",
			"\"quoted\"", "\"a\\tb\"", "\"", "\"\"", "back\\slash", "{\"k\":1}", "[1,2]", "null", "\xff\xfe", "'single'"})
	}
	absMs := func() string { return itoa(now/1e6 + int64(1000*(1+r.Intn(5000)))) }
	absS := func() string { return itoa(now/1e9 + int64(1+r.Intn(5000))) }
	for {
		switch r.Intn(40) {
		case 0, 1, 2:
			return []string{"SET", k(), v()}
		case 3:
			return []string{"SET", k(), v(), "PXAT", absMs()}
		case 4:
			return []string{"SET", k(), v(), "EXAT", absS()}
		case 5:
			return []string{"MSET", k(), v(), k(), v()}
		case 6:
			return []string{"DEL", k(), k()}
		case 7:
			return []string{"INCR", k()}
		case 8:
			return []string{"INCRBY", k(), pick(r, []string{"5", "-7", "100"})}
		case 9:
			return []string{"DECR", k()}
		case 10:
			return []string{"APPEND", k(), v()}
		case 11:
			return []string{"SETRANGE", k(), pick(r, []string{"0", "2", "9"}), v()}
		case 12:
			return []string{"RENAME", k(), k()}
		case 13:
			return []string{"GETDEL", k()}
		case 14:
			return []string{"EXPIREAT", k(), absS()}
		case 15:
			return []string{"PEXPIREAT", k(), absMs(), pick(r, []string{"NX", "XX", "GT", "LT"})}
		case 16:
			return []string{"PERSIST", k()}
		case 17:
			return []string{"RPUSH", k(), v(), v()}
		case 18:
			return []string{"LPUSH", k(), v()}
		case 19:
			return []string{"LPOP", k()}
		case 20:
			return []string{"RPOP", k()}
		case 21:
			return []string{"LSET", k(), "0", v()}
		case 22:
			return []string{"HSET", k(), pick(r, []string{"f1", "f2", "f3"}), v()}
		case 23:
			return []string{"HDEL", k(), pick(r, []string{"f1", "f2"})}
		case 24:
			return []string{"HINCRBY", k(), "cnt", pick(r, []string{"1", "-2"})}
		case 25:
			return []string{"SADD", k(), v(), v(), "m"}
		case 26:
			return []string{"SREM", k(), v(), "m"}
		case 27:
			return []string{"ZADD", k(), pick(r, []string{"1", "2.5", "-1", "+inf"}), v(), "0", "m"}
		case 28:
			return []string{"ZINCRBY", k(), "1.5", "m"}
		case 29:
			return []string{"ZREM", k(), "m"}
		case 30:
			return []string{"SUNIONSTORE", k(), k(), k()}
		case 31:
			if r.Intn(6) == 0 {
				return []string{"FLUSHDB"}
			}
		case 32:
			return []string{"GETEX", k(), "PXAT", absMs()}
		case 33:
			return []string{"INCRBYFLOAT", k(), "0.5"}
		case 34:
			return []string{"GET", k()} // a read in between
		case 35:
			return []string{"HSETNX", k(), "f1", v()}
		case 36:
			if relOK {
				switch r.Intn(4) {
				case 0:
					return []string{"SET", k(), v(), "EX", "100"}
				case 1:
					return []string{"EXPIRE", k(), "50"}
				case 2:
					return []string{"PEXPIRE", k(), "5000"}
				case 3:
					return []string{"GETEX", k(), "EX", "30"}
				}
			}
		case 37:
			if spopOK {
				return []string{"SPOP", k()}
			}
		case 38:
			return []string{"ZADD", k(), "XX", "CH", "3", "m"}
		case 39:
			return []string{"LTRIM", k(), "0", "1"}
		}
	}
}

func genWorkload(r *rand.Rand, name, policy string, n int, now int64) pWorkload {
	w := pWorkload{Name: name, Policy: policy}
	for len(w.Ops) < n {
		caller := pick(r, []string{"emb", "emb", "t1", "t2"})
		if r.Intn(6) == 0 {
			db := pDBs[r.Intn(len(pDBs))]
			if caller == "emb" {
				w.Ops = append(w.Ops, pOp{Caller: "emb", SelDB: &db})
			} else {
				w.Ops = append(w.Ops, pOp{Caller: caller, Argv: []string{"SELECT", strconv.Itoa(db)}})
			}
			continue
		}
		argv := genWriteOp(r, now, false, false)
		if id := matchPersistFinding(argv); id != "" {
			continue
		}
		w.Ops = append(w.Ops, pOp{Caller: caller, Argv: argv})
	}
	return w
}

// matchPersistFinding filters write commands that exercise a listed
// persistence finding (relative expiries re-based on replay, randomised pops).
func matchPersistFinding(argv []string) string {
	for _, id := range []string{"C02-KF1", "C02-KF2"} {
		if findingOpen(id) {
			if p, ok := stepPreds[id]; ok && p(nil, model.Env{}, argv) {
				return id
			}
		}
	}
	return ""
}

// pRunner runs a workload against a fresh instance on dir.
type pRunner struct {
	in      *Inst
	port    int
	clients map[string]*Client
}

func newPRunner(dir, policy string, restoreAOF, restoreSnap bool, clk *VClock, extra ...func(*InstOpts)) (*pRunner, error) {
	port := freePort()
	o := InstOpts{DataDir: dir, AOFStrategy: policy, RestoreAOF: restoreAOF, RestoreSnapshot: restoreSnap, Clock: clk, Extra: withTCP(port)}
	for _, f := range extra {
		f(&o)
	}
	in, err := NewInst(o)
	if err != nil {
		return nil, err
	}
	return &pRunner{in: in, port: port, clients: map[string]*Client{}}, nil
}

func (p *pRunner) exec(op pOp) (string, error) {
	if op.Caller == "emb" {
		if op.SelDB != nil {
			if err := p.in.S.SelectDB(*op.SelDB); err != nil {
				return "", err
			}
		}
		if len(op.Argv) == 0 {
			return "ok", nil
		}
		switch op.Argv[0] {
		case "@SNAP": // synchronous snapshot; a returned error is a result, not a failure of the run
			var res string
			func() {
				defer func() {
					if r := recover(); r != nil {
						res = fmt.Sprintf("panic: %v", r)
					}
				}()
				if err := p.in.S.VerifSnapshotSync(); err != nil {
					res = "err: " + err.Error()
				} else {
					res = "ok"
				}
			}()
			if strings.HasPrefix(res, "panic") {
				return "", fmt.Errorf("crash: %s", res)
			}
			return res, nil
		case "@ADV":
			ms, _ := strconv.ParseInt(op.Argv[1], 10, 64)
			p.in.Clk.Advance(ms * 1e6)
			return "ok", nil
		}
		v, _, crash := p.in.Do(op.Argv...)
		if crash != "" {
			return "", fmt.Errorf("crash: %s", crash)
		}
		return v.String(), nil
	}
	c, ok := p.clients[op.Caller]
	if !ok {
		if len(p.clients) == 0 {
			if err := p.in.StartTCP(p.port); err != nil {
				return "", err
			}
		}
		var err error
		c, err = Dial(p.port)
		if err != nil {
			return "", err
		}
		p.clients[op.Caller] = c
	}
	v, _, err := c.Do(op.Argv...)
	if err != nil {
		return "", fmt.Errorf("tcp %v: %w", op.Argv, err)
	}
	return v.String(), nil
}

func (p *pRunner) close() {
	for _, c := range p.clients {
		c.Close()
	}
	p.in.Close()
	// give the listener goroutine a moment to release the port / files
	time.Sleep(time.Millisecond)
}

func (p *pRunner) canon() map[int]map[string]string {
	return CanonDump(p.in.S.VerifDump(), p.in.Clk.NowNs())
}

func canonEq(a, b map[int]map[string]string) bool { return model.DiffCanon(a, b) == "" }

func fileSize(p string) int64 {
	st, err := os.Stat(p)
	if err != nil {
		return -1
	}
	return st.Size()
}

// pImage is one data-directory image taken at a hook point (or after an ack).
type pImage struct {
	Point   string
	Op      int   // index of the op in flight (for "ack": the op just acknowledged)
	Hit     int   // n-th hit of this point in the run
	Dir     string
	LogSize int64 // size of log.aof in the image
	Synced  int64 // size of log.aof at the last fsync before the image
	PreSize int64
}

// restoreDump restores a fresh instance from a copy of the image directory and
// returns its canonical dump. mutate, if non-nil, edits the copy first.
func restoreDump(imgDir string, policy string, clk *VClock, aof, snap bool, mutate func(dir string) error) (map[int]map[string]string, string, error) {
	dir := mkScratch("restore")
	if err := copyDir(imgDir, dir); err != nil {
		return nil, dir, err
	}
	if mutate != nil {
		if err := mutate(dir); err != nil {
			return nil, dir, err
		}
	}
	in, err := NewInst(InstOpts{DataDir: dir, AOFStrategy: policy, RestoreAOF: aof, RestoreSnapshot: snap, Clock: clk})
	if err != nil {
		return nil, dir, err
	}
	d := CanonDump(in.S.VerifDump(), clk.NowNs())
	in.Close()
	return d, dir, nil
}

func truncateFile(p string, n int64) error {
	if n < 0 {
		return nil
	}
	return os.Truncate(p, n)
}

func logPath(dir string) string      { return filepath.Join(dir, "aof", "log.aof") }
func preamblePath(dir string) string { return filepath.Join(dir, "aof", "preamble.bin") }

// whichState returns the index i such that d == states[i] (searching from hi
// down to lo), or -2. Index -1 is the empty state.
func whichState(d map[int]map[string]string, states []map[int]map[string]string, lo, hi int) int {
	for i := hi; i >= lo; i-- {
		var s map[int]map[string]string
		if i >= 0 {
			s = states[i]
		} else {
			s = map[int]map[string]string{}
		}
		if canonEq(s, d) {
			return i
		}
	}
	return -2
}
