package main

import (
	"errors"
	"fmt"
	"net"
	"os"
	"sync"
	"sync/atomic"
	"time"

	"github.com/echovault/sugardb/sugardb"

	"verif/harness/resp"
)

var portSeq struct {
	mu   sync.Mutex
	next int
}

// freePort returns a loopback TCP port that is free right now. Ports are handed out sequentially
// from a range derived from the process id, so that concurrently running worker processes do not
// race for the same kernel-chosen port between the probe and the server's own Listen.
func freePort() int {
	portSeq.mu.Lock()
	defer portSeq.mu.Unlock()
	if portSeq.next == 0 {
		portSeq.next = 12000 + (os.Getpid()%100)*500
	}
	for tries := 0; tries < 5000; tries++ {
		p := portSeq.next
		portSeq.next++
		if portSeq.next >= 62000 {
			portSeq.next = 12000
		}
		l, err := net.Listen("tcp", fmt.Sprintf("127.0.0.1:%d", p))
		if err != nil {
			continue
		}
		l.Close()
		return p
	}
	panic("no free port")
}

// StartTCP starts the instance's listener and waits until a connection made by the harness is
// registered by THIS instance (so a port grabbed by another process can never be mistaken for it).
func (in *Inst) StartTCP(port int) error {
	go in.S.Start()
	deadline := time.Now().Add(10 * time.Second)
	for time.Now().Before(deadline) {
		before := in.S.VerifTCPClientCount()
		c, err := net.DialTimeout("tcp", fmt.Sprintf("127.0.0.1:%d", port), 200*time.Millisecond)
		if err == nil {
			ok := false
			for i := 0; i < 200 && !ok; i++ {
				if in.S.VerifTCPClientCount() > before {
					ok = true
					break
				}
				time.Sleep(time.Millisecond)
			}
			c.Close()
			if ok {
				return nil
			}
			return errors.New("the port is served by another process")
		}
		time.Sleep(2 * time.Millisecond)
	}
	return errors.New("listener did not come up")
}

func withTCP(port int) []func(*sugardb.SugarDB) {
	return []func(*sugardb.SugarDB){sugardb.WithPort(uint16(port)), sugardb.WithBindAddr("127.0.0.1")}
}

// Client is a minimal RESP client over one TCP connection using the strict parser.
type Client struct {
	c   net.Conn
	buf []byte
}

func Dial(port int) (*Client, error) { return DialHost("127.0.0.1", port) }

func DialHost(host string, port int) (*Client, error) {
	c, err := net.DialTimeout("tcp", fmt.Sprintf("%s:%d", host, port), 5*time.Second)
	if err != nil {
		return nil, err
	}
	cl := &Client{c: c}
	// one round trip, so that the server has registered the connection before anything else happens
	if _, _, err := cl.Do("PING"); err != nil {
		c.Close()
		return nil, err
	}
	return cl, nil
}

func (c *Client) Close() { _ = c.c.Close() }

func (c *Client) Send(b []byte) error {
	_ = c.c.SetWriteDeadline(time.Now().Add(10 * time.Second))
	_, err := c.c.Write(b)
	return err
}

// Read reads exactly one reply (strictly parsed). timeout is a watchdog.
func (c *Client) Read(timeout time.Duration) (resp.Value, []byte, error) {
	deadline := time.Now().Add(timeout)
	tmp := make([]byte, 65536)
	for {
		if len(c.buf) > 0 {
			v, n, err := resp.Parse(c.buf)
			if err == nil {
				raw := append([]byte{}, c.buf[:n]...)
				c.buf = c.buf[n:]
				return v, raw, nil
			}
			if !errors.Is(err, resp.ErrIncomplete) {
				raw := append([]byte{}, c.buf...)
				c.buf = nil
				return resp.Value{}, raw, err
			}
		}
		_ = c.c.SetReadDeadline(deadline)
		n, err := c.c.Read(tmp)
		if n > 0 {
			c.buf = append(c.buf, tmp[:n]...)
			continue
		}
		if err != nil {
			return resp.Value{}, append([]byte{}, c.buf...), err
		}
	}
}

// Do sends one command and reads one reply.
func (c *Client) Do(argv ...string) (resp.Value, []byte, error) {
	if err := c.Send(resp.Encode(argv...)); err != nil {
		return resp.Value{}, nil, err
	}
	v, raw, err := c.Read(20 * time.Second)
	if err != nil {
		var ne net.Error
		if errors.As(err, &ne) && ne.Timeout() {
			// a watchdog that fires on a loaded machine decides nothing: the same read is continued once,
			// for a minute, before the reply is called missing
			clientWatchdogExtended.Add(1)
			return c.Read(60 * time.Second)
		}
	}
	return v, raw, err
}

var clientWatchdogExtended atomic.Int64

// Drain returns whatever arrives within d (used to detect extra bytes).
func (c *Client) Drain(d time.Duration) []byte {
	tmp := make([]byte, 65536)
	_ = c.c.SetReadDeadline(time.Now().Add(d))
	n, _ := c.c.Read(tmp)
	out := append(c.buf, tmp[:n]...)
	c.buf = nil
	return out
}
