package main

import (
	"fmt"
	"math/rand"
	"runtime"
	"strings"
	"sync"
	"time"

	"verif/harness/model"
)

func init() {
	registerCheck("C04", "exploration", checkC04)
}

// c04Alphabet: time-line steps on keys a, b — writes with deadlines, every expiry command with
// every option, every kind of reader and existence-conditional writer, clock moves that land just
// before / exactly on / just after the deadlines the other steps create, and sampler rounds.
func c04Alphabet() []Step {
	bs, bm := BaseTimeNs/1e9, BaseTimeNs/1e6
	cmds := [][]string{
		{"SET", "a", "x", "EX", "10"}, {"SET", "a", "x", "PX", "10000"}, {"SET", "a", "y"}, {"SET", "a", "x", "PXAT", itoa(bm + 10000)},
		{"SET", "b", "w", "EX", "10"},
		{"EXPIRE", "a", "10"}, {"EXPIRE", "a", "20", "NX"}, {"EXPIRE", "a", "20", "XX"}, {"EXPIRE", "a", "20", "GT"}, {"EXPIRE", "a", "5", "GT"},
		{"EXPIRE", "a", "5", "LT"}, {"EXPIRE", "a", "20", "LT"}, {"PEXPIRE", "a", "10000"}, {"EXPIREAT", "a", itoa(bs + 10)},
		{"PEXPIREAT", "a", itoa(bm + 10000), "NX"}, {"EXPIRE", "a", "-1"}, {"PERSIST", "a"},
		{"GETEX", "a", "EX", "10"}, {"GETEX", "a", "PERSIST"},
		{"TTL", "a"}, {"PTTL", "a"}, {"EXPIRETIME", "a"}, {"PEXPIRETIME", "a"},
		{"GET", "a"}, {"TYPE", "a"}, {"STRLEN", "a"}, {"MGET", "a", "b"}, {"GETDEL", "a"}, {"GETRANGE", "a", "0", "-1"},
		{"SET", "a", "z", "NX"}, {"SET", "a", "z", "XX"}, {"APPEND", "a", "q"}, {"INCR", "a"}, {"RENAME", "a", "b"}, {"RENAME", "b", "a"}, {"DEL", "a"},
		{"HSET", "a", "f", "v"}, {"HGET", "a", "f"}, {"HLEN", "a"}, {"HSETNX", "a", "g", "v"},
		{"RPUSH", "a", "e"}, {"LLEN", "a"}, {"LRANGE", "a", "0", "-1"}, {"RPUSHX", "a", "e"}, {"LPOP", "a"},
		{"SADD", "a", "m"}, {"SCARD", "a"}, {"SMEMBERS", "a"}, {"SUNION", "a", "b"},
		{"ZADD", "a", "1", "m"}, {"ZCARD", "a"}, {"ZSCORE", "a", "m"},
	}
	var out []Step
	for _, c := range cmds {
		out = append(out, Step{Argv: c})
	}
	out = append(out, Step{Adv: 9999e6}, Step{Adv: 1e6}, Step{Adv: 4999e6}, Step{Adv: 100e9}, Step{Tick: true}, Step{Adv: 10001e6, Tick: true})
	return out
}

func exhaustiveStepsLane(ctx *Ctx, lane string, alphabet []Step, inits [][]Step, depth int, mk func() *Inst) {
	n := len(alphabet)
	total := 1
	for i := 0; i < depth; i++ {
		total *= n
	}
	jobs := total * len(inits)
	parallel(jobs, runtime.NumCPU(), func(j int) {
		idx := j % total
		prog := append([]Step{}, inits[j/total]...)
		for d := 0; d < depth; d++ {
			prog = append(prog, alphabet[idx%n])
			idx /= n
		}
		v, steps := RunProgram(ctx, lane, mk, prog, false)
		ctx.Eval(1)
		ctx.Count("steps_"+lane, int64(steps))
		if j == jobs/3 {
			ctx.Sample(lane, progStrings(prog))
		}
		if v != nil {
			reportProgramViolation(ctx, lane, mk, prog, v)
		}
	})
	ctx.Count("programs_"+lane, int64(jobs))
}

func checkC04(ctx *Ctx) {
	ctx.Rule("one evaluation = one time-line program (writes, expiry commands with all options, readers and existence-conditional writers of every type, virtual-clock moves to just before / exactly at / just after deadlines, synchronous sampler rounds) " +
		"run on a fresh instance in lock step with the reference model with deadlines: every reply and the whole-store dump (minus keys whose deadline has passed) must match after every step, so an expired key must be unobservable to every command and a live key must never disappear. " +
		"Free-running sampler lane: every eviction event must carry a deadline earlier than the clock value the sampler used. distinct_nontrivial = distinct (command/options, pre-state kind incl. +ttl, outcome, state-changed) classes")
	ctx.Assume("virtual clock injected through the verif build: deadlines pass only when the harness moves the clock",
		"PTTL/PEXPIRETIME compared exactly, TTL may be the floor or the ceiling of the remaining seconds")
	if inRaceLane() {
		// race-build child: the lanes with real concurrency (free-running sampler against writers) and a
		// slice of the random time lines under two policies
		quietLogs()
		gens := allGens()
		weights := make([]int, len(gens))
		for i := range weights {
			weights[i] = 1
		}
		for pi, pol := range []string{"allkeys-lru", "volatile-lfu"} {
			pol := pol
			mk := func() *Inst {
				in, err := NewInst(InstOpts{Policy: pol, EvictionSample: 20})
				if err != nil {
					panic(err)
				}
				return in
			}
			c04RandomLane(ctx, "random-"+pol, ctx.N(12, 100), gens, weights, mk, pi%2 == 1)
		}
		c04SamplerLane(ctx)
		c04SamplerRaceLane(ctx)
		return
	}
	raceDone := ctx.startRaceLane(ctx.Watchdog())
	defer func() { <-raceDone }()
	runWitnesses(ctx, lightInst)
	alpha := c04Alphabet()
	inits := [][]Step{
		{},
		{{Argv: []string{"SET", "a", "v", "EX", "10"}}},
		{{Argv: []string{"SET", "a", "v", "EX", "10"}}, {Adv: 10001e6}}, // expired but still in the store
		{{Argv: []string{"RPUSH", "a", "e1"}}, {Argv: []string{"EXPIRE", "a", "10"}}, {Argv: []string{"SET", "b", "5"}}},
		{{Argv: []string{"SADD", "a", "m"}}, {Argv: []string{"PEXPIRE", "a", "10000"}}, {Adv: 10001e6}},
	}
	exhaustiveStepsLane(ctx, "timeline-d1", alpha, inits, 1, lightInst)
	exhaustiveStepsLane(ctx, "timeline-d2", alpha, inits, 2, lightInst)
	if !ctx.Quick() {
		exhaustiveStepsLane(ctx, "timeline-d3", alpha, inits[:3], 3, lightInst)
	}
	// random time lines over all commands of all types, lazy expiry only and with sampler rounds,
	// under every eviction policy name (no memory limit) and sample sizes 1, 2, 20
	policies := []string{"noeviction", "allkeys-lru", "allkeys-lfu", "volatile-lru", "volatile-lfu", "allkeys-random", "volatile-random"}
	gens := allGens()
	weights := make([]int, len(gens))
	for i := range weights {
		weights[i] = 1
	}
	for i := 0; i < len(genericGens())+len(expiryGens()); i++ {
		weights[i] = 3
	}
	for pi, pol := range policies {
		pol := pol
		sample := []uint{1, 2, 20}[pi%3]
		mk := func() *Inst {
			in, err := NewInst(InstOpts{Policy: pol, EvictionSample: sample})
			if err != nil {
				panic(err)
			}
			return in
		}
		c04RandomLane(ctx, "random-"+pol, ctx.N(60, 800), gens, weights, mk, pi%2 == 1)
	}
	c04SamplerLane(ctx)
	c04SamplerRaceLane(ctx)
	c04Interleave(ctx)
	c04KeyspaceReaders(ctx)
}

// c04KeyspaceReaders: many keys whose deadline has passed but which are still stored (no sampler runs), writers
// that re-create them without a deadline, and clients that meanwhile run the readers of the whole keyspace
// (RANDOMKEY, KEYS *) and of single keys (TYPE, TTL, GET). Whatever those readers do about the expired entries
// they come across - now or in a goroutine they leave behind - a key that was re-created (acknowledged SET,
// no deadline) must still hold its new value when everything is at rest.
func c04KeyspaceReaders(ctx *Ctx) {
	rounds := ctx.N(3, 20)
	for rd := 0; rd < rounds; rd++ {
		ac := &asyncCounter{}
		setHook(ac.hook)
		in, err := NewInst(InstOpts{})
		if err != nil {
			setHook(nil)
			ctx.Broken(err.Error())
			return
		}
		nkeys := 800
		for i := 0; i < nkeys; i++ {
			in.Do("SET", fmt.Sprintf("kr%04d", i), "old", "PX", "10")
		}
		in.Clk.Advance(1e9)
		var wg sync.WaitGroup
		stop := make(chan struct{})
		for g := 0; g < 3; g++ {
			go func(g int) {
				for i := 0; ; i++ {
					select {
					case <-stop:
						return
					default:
					}
					switch (i + g) % 5 {
					case 0, 1, 2:
						in.Do("RANDOMKEY")
					case 3:
						in.Do("KEYS", "kr0*")
					default:
						k := fmt.Sprintf("kr%04d", (i*37+g)%nkeys)
						in.Do("TYPE", k)
						in.Do("TTL", k)
					}
				}
			}(g)
		}
		acked := make([]bool, nkeys)
		for w := 0; w < 4; w++ {
			wg.Add(1)
			go func(w int) {
				defer wg.Done()
				for i := w; i < nkeys; i += 4 {
					if v, _, crash := in.Do("SET", fmt.Sprintf("kr%04d", i), "new"); crash == "" && !v.IsError() {
						acked[i] = true
					}
				}
			}(w)
		}
		wg.Wait()
		close(stop)
		ac.wait(20 * time.Second)
		time.Sleep(5 * time.Millisecond)
		ac.wait(20 * time.Second)
		setHook(nil)
		d := in.S.VerifDump()
		lost, first := 0, ""
		for i := 0; i < nkeys; i++ {
			if !acked[i] {
				continue
			}
			k := fmt.Sprintf("kr%04d", i)
			if v, ok := d.DBs[0][k]; !ok || v.Str != "new" || v.ExpireAt != 0 {
				lost++
				if first == "" {
					first = fmt.Sprintf("%s is %+v (present=%v)", k, v.Str, ok)
				}
			}
		}
		in.Close()
		ctx.Eval(1)
		ctx.Class("keyspace-readers|expired-entries-recreated")
		if lost > 0 {
			ctx.Violate(Violation{Kind: "lost_write", Lane: "keyspace-readers",
				What: fmt.Sprintf("%d of %d keys that were re-created without a deadline (acknowledged SET over an expired, still stored entry) while other clients ran RANDOMKEY / KEYS / TYPE / TTL do not hold their new value at rest; first: %s", lost, nkeys, first),
				Case: map[string]interface{}{"keys": nkeys, "round": rd}, Key: "c04|keyspace-readers"})
			return
		}
	}
}

// c04Interleave: a command that gives, moves or removes a deadline does so in two keyspace steps (value, then
// deadline). It is parked at each of its steps while a reader of the key's deadline or existence (TTL, PTTL,
// EXPIRETIME, PEXPIRETIME, TYPE, GET) is issued by another client; replies and final dataset must be those of
// the reader running wholly before or wholly after the command (same-build serial oracle): a key must never
// be seen with its value and without the deadline the same command gives it.
func c04Interleave(ctx *Ctx) {
	old := c05SetupCmds
	defer func() { c05SetupCmds = old }()
	c05SetupCmds = [][]string{{"SET", "a", "v", "EXAT", "1999999999"}, {"SET", "p", "v"}, {"RPUSH", "l", "x"}, {"EXPIREAT", "l", "1999999998"}}
	writers := [][]string{
		{"SET", "n", "v", "EXAT", "1999999990"}, {"SET", "p", "w", "PXAT", "1999999990000"}, {"SET", "a", "w"}, {"RENAME", "a", "b"}, {"RENAME", "l", "p"},
		{"GETEX", "a", "PERSIST"}, {"GETEX", "p", "EXAT", "1999999991"}, {"EXPIREAT", "p", "1999999992"}, {"PERSIST", "a"}, {"GETDEL", "a"}, {"DEL", "a", "l"},
	}
	readers := []string{"TTL", "PTTL", "EXPIRETIME", "PEXPIRETIME", "TYPE", "GET"}
	n := 0
	for _, a := range writers {
		for _, key := range []string{a[1], a[len(a)-1]} {
			if key == a[len(a)-1] && (len(a) < 3 || strings.ToUpper(a[0]) != "RENAME") {
				continue
			}
			for _, rd := range readers {
				b := []string{rd, key}
				ab := c05Serial(a, b)
				baRaw := c05Serial(b, a)
				ba := c05Outcome{ReplyA: baRaw.ReplyB, ReplyB: baRaw.ReplyA, State: baRaw.State}
				for k := 1; k <= 8; k++ {
					out, points, blocked, note := c05Paused(a, b, k)
					if strings.HasPrefix(note, "watchdog") {
						ctx.Inconclusive(note)
						break
					}
					if note != "" || k > points {
						break
					}
					n++
					ctx.Eval(1)
					ctx.Class(fmt.Sprintf("interleave|%s|%s|k=%d|blocked=%v", strings.ToLower(a[0]), strings.ToLower(rd), k, blocked))
					if !sameOutcome(out, ab) && !sameOutcome(out, ba) {
						ctx.Violate(Violation{Kind: "intermediate_state", Lane: "interleave",
							What: fmt.Sprintf("%s was at its keyspace step %d of %d when another client sent %s: it replied %s (the command itself %s); running wholly before the command it replies %s, wholly after it %s",
								Step{Argv: a}.String(), k, points, Step{Argv: b}.String(), out.ReplyB, out.ReplyA, ba.ReplyB, ab.ReplyB),
							Case: map[string]interface{}{"setup": c05SetupCmds, "command": a, "reader": b, "parked_at_step": k},
							Key:  fmt.Sprintf("c04|interleave|%s|%s", strings.ToLower(a[0]), strings.ToLower(rd))})
						break
					}
				}
			}
		}
	}
	ctx.Count("interleavings", int64(n))
}

// c04SamplerRaceLane: many keys whose deadline has passed, the real sampler running with a sample as large
// as the index, and writers that re-create the expired keys (plain SET: the new value has no deadline) as
// soon as the first eviction event is observed. Every key a writer re-created and was acknowledged for has
// no deadline, so expiry must never remove it: at the end all of them must hold the value written.
func c04SamplerRaceLane(ctx *Ctx) {
	rounds := ctx.N(4, 20)
	for rd := 0; rd < rounds; rd++ {
		nkeys := 1500
		started := make(chan struct{})
		var once sync.Once
		var events int64
		var mu sync.Mutex
		setHook(func(name string, args ...interface{}) {
			if name == "evict.ttl" {
				mu.Lock()
				events++
				mu.Unlock()
				once.Do(func() { close(started) })
			}
		})
		in, err := NewInst(InstOpts{Policy: "allkeys-lru", EvictionSample: uint(nkeys), EvictionInterval: 20 * time.Millisecond})
		if err != nil {
			setHook(nil)
			ctx.Broken(err.Error())
			return
		}
		for i := 0; i < nkeys; i++ {
			in.Do("SET", fmt.Sprintf("k%04d", i), "old", "PX", "10")
		}
		in.Clk.Advance(1e9) // every key is now expired but still in the store
		select {
		case <-started:
		case <-time.After(10 * time.Second):
			setHook(nil)
			in.Close()
			ctx.Inconclusive("sampler race lane: no eviction event within the watchdog")
			continue
		}
		var wg sync.WaitGroup
		acked := make([]bool, nkeys)
		for w := 0; w < 8; w++ {
			wg.Add(1)
			go func(w int) {
				defer wg.Done()
				for i := w; i < nkeys; i += 8 {
					if v, _, crash := in.Do("SET", fmt.Sprintf("k%04d", i), "new"); crash == "" && !v.IsError() {
						acked[i] = true
					}
				}
			}(w)
		}
		wg.Wait()
		time.Sleep(60 * time.Millisecond) // a few more sampler rounds
		setHook(nil)
		lost := 0
		first := ""
		for i := 0; i < nkeys; i++ {
			if !acked[i] {
				continue
			}
			v, _, _ := in.Do("GET", fmt.Sprintf("k%04d", i))
			if t, _ := v.Text(); v.IsNull() || t != "new" {
				lost++
				if first == "" {
					first = fmt.Sprintf("k%04d reads %s", i, v.String())
				}
			}
		}
		in.Close()
		ctx.Eval(1)
		mu.Lock()
		ev := events
		mu.Unlock()
		ctx.Count("sampler_race_eviction_events", ev)
		ctx.Class(fmt.Sprintf("sampler-race|events>%d", ev/500*500))
		if lost > 0 {
			ctx.Violate(Violation{Kind: "sampler", Lane: "sampler-race",
				What: fmt.Sprintf("%d of %d keys that were re-created without a deadline (acknowledged SET) while the expiry sampler was running were removed by expiry; first: %s", lost, nkeys, first),
				Case: map[string]interface{}{"keys": nkeys, "writers": 8, "round": rd}, Key: "c04|sampler-race"})
			return
		}
	}
}

func c04RandomLane(ctx *Ctx, lane string, nprog int, gens []cmdGen, weights []int, mk func() *Inst, ticks bool) {
	u := allUniverse()
	parallel(nprog, runtime.NumCPU(), func(i int) {
		r := rand.New(rand.NewSource(ctx.Seed*4_000_037 + int64(i)*13 + int64(len(lane))))
		in := mk()
		defer in.Close()
		s := NewSession(ctx, lane, in)
		var prog []Step
		for k, ln := 0, 40+r.Intn(40); k < ln; k++ {
			st := Step{Argv: gens[weightedPick(r, weights, len(gens))](r, &u, in.Clk.NowNs())}
			if r.Intn(5) == 0 {
				st.Adv = []int64{1e6, 499e6, 999e6, 1e9, 1001e6, 1500e6, 2e9, 10e9, 100e9, 3600e9}[r.Intn(10)]
			}
			if ticks && r.Intn(6) == 0 {
				st.Tick = true
			}
			prog = append(prog, st)
			if res := s.Exec(st); res.Vio != nil {
				reportProgramViolation(ctx, lane, mk, prog, res.Vio)
				break
			}
		}
		ctx.Eval(1)
		ctx.Count("steps_random", int64(len(s.trace)))
		if i == 0 {
			ctx.Sample(lane, progStrings(s.trace))
		}
	})
}

// c04SamplerLane runs the real background sampler (5 ms ticker) while the harness writes volatile
// keys and moves the virtual clock. Monitors: (1) at the hook, every evicted key's deadline is
// before the clock value the sampler used; (2) lock step with the model: live keys never vanish.
func c04SamplerLane(ctx *Ctx) {
	var mu sync.Mutex
	events, bad := 0, 0
	var firstBad string
	setHook(func(name string, args ...interface{}) {
		if name != "evict.ttl" || len(args) < 4 {
			return
		}
		exp, ok1 := args[2].(time.Time)
		now, ok2 := args[3].(time.Time)
		mu.Lock()
		defer mu.Unlock()
		events++
		if !ok1 || !ok2 || !exp.Before(now) {
			bad++
			if firstBad == "" {
				firstBad = fmt.Sprintf("db %v key %v deadline %v clock %v", args[0], args[1], args[2], args[3])
			}
		}
	})
	defer setHook(nil)
	n := ctx.N(6, 40)
	for i := 0; i < n; i++ {
		r := rand.New(rand.NewSource(ctx.Seed*17 + int64(i)))
		pol := []string{"allkeys-lru", "volatile-lfu", "allkeys-random"}[i%3]
		in, err := NewInst(InstOpts{Policy: pol, EvictionSample: []uint{1, 3, 20}[i%3], EvictionInterval: 5 * time.Millisecond})
		if err != nil {
			ctx.Broken(err.Error())
			return
		}
		s := NewSession(ctx, "sampler-"+pol, in)
		var prog []Step
		for k := 0; k < 60; k++ {
			key := fmt.Sprintf("k%d", r.Intn(12))
			var st Step
			switch r.Intn(6) {
			case 0:
				st = Step{Argv: []string{"SET", key, "v", "PX", itoa(int64(1 + r.Intn(3000)))}}
			case 1:
				st = Step{Argv: []string{"RPUSH", key, "e"}}
			case 2:
				st = Step{Argv: []string{"PEXPIRE", key, itoa(int64(1 + r.Intn(3000)))}}
			case 3:
				st = Step{Argv: []string{"SET", key, "persistent"}}
			case 4:
				st = Step{Argv: []string{"PERSIST", key}}
			case 5:
				st = Step{Argv: []string{"GET", key}}
			}
			if r.Intn(3) == 0 {
				st.Adv = int64(1+r.Intn(1500)) * 1e6
			}
			if k%10 == 9 {
				time.Sleep(12 * time.Millisecond) // let the real sampler fire a few times
			}
			prog = append(prog, st)
			if res := s.Exec(st); res.Vio != nil {
				res.Vio.What = "with the background sampler running: " + res.Vio.What
				ctx.Violate(*res.Vio)
				break
			}
		}
		time.Sleep(12 * time.Millisecond)
		// final: nothing live was removed
		if d := model.DiffCanon(s.st.CanonAt(in.Clk.NowNs()), CanonDump(in.S.VerifDump(), in.Clk.NowNs())); d != "" {
			ctx.Violate(Violation{Kind: "state", Lane: "sampler", What: "with the background sampler running, keys whose deadline has not passed changed: " + d,
				Case: map[string]interface{}{"program": prog, "policy": pol}, Key: "c04|sampler|state"})
		}
		in.Close()
		ctx.Eval(1)
	}
	mu.Lock()
	defer mu.Unlock()
	ctx.Count("sampler_eviction_events", int64(events))
	if bad > 0 {
		ctx.Violate(Violation{Kind: "sampler", Lane: "sampler", What: fmt.Sprintf("%d of %d sampler evictions removed a key whose deadline had not passed; first: %s", bad, events, firstBad),
			Case: map[string]interface{}{"first": firstBad}, Key: "c04|sampler|event"})
	}
	if events == 0 {
		ctx.Inconclusive("sampler lane observed no eviction event")
	}
}
