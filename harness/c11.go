package main

import (
	"crypto/sha256"
	"encoding/hex"
	"encoding/json"
	"fmt"
	"math/rand"
	"os"
	"path/filepath"
	"sort"
	"strings"
	"sync"
	"time"

	"github.com/echovault/sugardb/sugardb"

	"verif/harness/resp"
)

func init() {
	registerCheck("C11", "exploration", checkC11)
}

type c11User struct {
	Enabled bool
	NoPass  bool
	Plain   map[string]bool
	Hash    map[string]bool
}

func (u *c11User) clone() *c11User {
	c := &c11User{Enabled: u.Enabled, NoPass: u.NoPass, Plain: map[string]bool{}, Hash: map[string]bool{}}
	for k := range u.Plain {
		c.Plain[k] = true
	}
	for k := range u.Hash {
		c.Hash[k] = true
	}
	return c
}

func sha(s string) string {
	h := sha256.Sum256([]byte(s))
	return hex.EncodeToString(h[:])
}

// authOK is the reference credential rule of the statement.
func authOK(tab map[string]*c11User, user, pw string) bool {
	u, ok := tab[user]
	if !ok || !u.Enabled {
		return false
	}
	return u.NoPass || u.Plain[pw] || u.Hash[sha(pw)]
}

type c11Conn struct {
	c     *Client
	user  string
	authd bool
	// doomed: the connection's user was deleted while it was attached: the server de-authenticates it at
	// once and closes it as soon as its reader notices (before or after answering one more command)
	doomed bool
}

func checkC11(ctx *Ctx) {
	ctx.Rule("one evaluation = one history over 3 connections and the users default/u1/u2: ACL SETUSER with password and enable/disable tokens, ACL DELUSER (including default), AUTH with one and two arguments (right, wrong, hashed-form and other users' passwords), HELLO ... AUTH, " +
		"ACL SAVE, ACL LOAD MERGE|REPLACE, restart on the saved JSON/YAML file, new connections (plus: restricted rules saved by one server and taken in by another through ACL LOAD and through a start-up, compared decision by decision on a fixed probe set); after every step every connection is probed (ACL WHOAMI and a GET) and the outcome must be the one the reference user table and the per-connection identity predict. " +
		"distinct_nontrivial = distinct (step kind, expected outcome, user state class) classes")
	ctx.Assume("the probe user rules are maximally permissive (allCategories allCommands allKeys), so a probe fails exactly when the connection is unauthenticated or its user is disabled or deleted",
		"rule equality after SAVE/LOAD/restart is behavioural: the same AUTH outcomes and probe outcomes")
	if ctx.Fork(8, "", ctx.Watchdog()) {
		return
	}
	quietLogs()
	n := ctx.N(600, 4000)
	for i := 0; i < n; i++ {
		if !ctx.Mine(i) {
			continue
		}
		ctx.SetCurrent(fmt.Sprintf("C11 history %d seed %d", i, ctx.Seed))
		c11History(ctx, i)
	}
	for i := 0; i < ctx.N(24, 96); i++ {
		if ctx.Mine(i) {
			ctx.SetCurrent(fmt.Sprintf("C11 rules across servers %d", i))
			c11AcrossServers(ctx, i)
		}
	}
	for i := 0; i < ctx.N(4, 16); i++ {
		if ctx.Mine(i + 5) {
			ctx.SetCurrent(fmt.Sprintf("C11 concurrent edits %d", i))
			c11Concurrent(ctx, i)
		}
	}
	for i := 0; i < ctx.N(16, 64); i++ {
		if ctx.Mine(i + 3) {
			ctx.SetCurrent(fmt.Sprintf("C11 default user credentials across a restart %d", i))
			c11DefaultAcrossRestart(ctx, i)
		}
	}
}

// c11DefaultAcrossRestart: the credentials of the default user are changed at run time (password rotated,
// second password added, hashed password only, nopass), saved, and the server is restarted with the same
// configuration (RequirePass and the start-up password). The table of AUTH outcomes for a fixed set of
// candidate passwords on a new connection must be the same after the restart as before it.
func c11DefaultAcrossRestart(ctx *Ctx, i int) {
	root := mkScratch("c11d")
	defer os.RemoveAll(root)
	ext := []string{".json", ".yaml"}[i%2]
	aclFile := filepath.Join(root, "acl"+ext)
	variant := []string{"rotate", "second-password", "hashed-only", "nopass"}[(i/2)%4]
	toks := map[string][]string{
		"rotate":          {">newpw", "<adminpw"},
		"second-password": {">newpw"},
		"hashed-only":     {"#" + sha("newpw"), "<adminpw"},
		"nopass":          {"nopass"},
	}[variant]
	candidates := []string{"adminpw", "newpw", "wrong", sha("newpw")}
	start := func() (*Inst, int) {
		port := freePort()
		in, err := NewInst(InstOpts{Extra: append(withTCP(port), sugardb.WithAclConfig(aclFile), sugardb.WithRequirePass(true), sugardb.WithPassword("adminpw"))})
		if err != nil {
			return nil, 0
		}
		if err := in.StartTCP(port); err != nil {
			in.Close()
			return nil, 0
		}
		return in, port
	}
	outcomes := func(port int) ([]string, string) {
		var out []string
		// a fresh connection: may it act without authenticating?
		c, err := Dial(port)
		if err != nil {
			return nil, "dial"
		}
		v, _, _ := c.Do("ACL", "WHOAMI")
		out = append(out, fmt.Sprintf("fresh connection acts=%v", !v.IsError()))
		c.Close()
		for _, pw := range candidates {
			for _, form := range [][]string{{"AUTH", pw}, {"AUTH", "default", pw}, {"HELLO", "2", "AUTH", "default", pw}} {
				c, err := Dial(port)
				if err != nil {
					return nil, "dial"
				}
				v, _, err := c.Do(form...)
				c.Close()
				if err != nil {
					return nil, "connection lost at " + Step{Argv: form}.String()
				}
				out = append(out, fmt.Sprintf("%s ok=%v", Step{Argv: form}.String(), !v.IsError()))
			}
		}
		return out, ""
	}
	in, port := start()
	if in == nil {
		ctx.Inconclusive("default-across-restart: server did not start")
		return
	}
	if v, _, crash := in.Do(append([]string{"ACL", "SETUSER", "default"}, toks...)...); crash != "" || v.IsError() {
		in.Close()
		ctx.Inconclusive("default-across-restart: SETUSER refused: " + v.String())
		return
	}
	want, why := outcomes(port)
	in.Do("ACL", "SAVE")
	in.Close()
	if why != "" {
		ctx.Inconclusive("default-across-restart: " + why)
		return
	}
	in2, port2 := start()
	if in2 == nil {
		ctx.Violate(Violation{Kind: "startup", Lane: "default-across-restart", What: "the server did not start on the ACL file it had saved (" + variant + ")",
			Case: map[string]interface{}{"variant": variant, "file": ext}, Key: "c11|default-restart|start"})
		return
	}
	defer in2.Close()
	got, why := outcomes(port2)
	ctx.Eval(1)
	ctx.Class(fmt.Sprintf("default-across-restart|%s|%s", variant, ext))
	if why != "" || fmt.Sprint(got) != fmt.Sprint(want) {
		diff := why
		for k := range want {
			if why == "" && k < len(got) && got[k] != want[k] {
				diff = fmt.Sprintf("after the restart: %s; before it: %s", got[k], want[k])
				break
			}
		}
		ctx.Violate(Violation{Kind: "credentials_not_reproduced", Lane: "default-across-restart",
			What: fmt.Sprintf("ACL SETUSER default %s; ACL SAVE; restart with the same configuration (RequirePass, start-up password adminpw, %s file): %s", strings.Join(toks, " "), ext, diff),
			Case: map[string]interface{}{"variant": variant, "file": ext, "before": want, "after": got}, Key: "c11|default-restart|" + variant})
	}
}

// c11AcrossServers: "ACL SAVE followed by ACL LOAD or a restart reproduces the same users and rules" — also
// when the file comes from another server. Server A gives a user restricted rules (key and channel
// patterns spelled so that server B has never seen them) and saves them; server B, which was started
// before the file existed, takes them in with ACL LOAD MERGE / REPLACE, and a third server C is started on
// the file. The same fixed probe set, sent by a connection authenticated as that user, must get the same
// decision (executed / refused as unauthorised / other error) on B and C as on A.
func c11AcrossServers(ctx *Ctx, i int) {
	root := mkScratch("c11x")
	defer os.RemoveAll(root)
	ext := []string{".json", ".yaml"}[i%2]
	mode := []string{"MERGE", "REPLACE"}[(i/2)%2]
	aclFile := filepath.Join(root, "acl"+ext)
	tag := fmt.Sprintf("x%d", i)
	rules := [][]string{
		{"on", ">pw", "allCategories", "allCommands", "%R~" + tag + "r:*", "%W~" + tag + "w:*", "%RW~" + tag + "rw:*", "allChannels"},
		{"on", ">pw", "allCategories", "allCommands", "~" + tag + "rw:*", "+&" + tag + "ch:*"},
		{"on", ">pw", "allCategories", "allCommands", "allKeys", "allChannels", "-&" + tag + "ch:x"},
		{"on", "nopass", "+@read", "+@fast", "+@slow", "+@keyspace", "+@string", "+@connection", "+@pubsub", "allCommands", "%R~" + tag + "r:*", "+&" + tag + "ch:?"},
	}[(i/4)%4]
	probes := [][]string{
		{"GET", tag + "r:1"}, {"GET", tag + "w:1"}, {"GET", tag + "rw:1"}, {"GET", "other"},
		{"SET", tag + "r:1", "v"}, {"SET", tag + "w:1", "v"}, {"SET", tag + "rw:1", "v"}, {"SET", "other", "v"},
		{"MGET", tag + "r:1", tag + "rw:1"}, {"MGET", tag + "r:1", "other"},
		{"PUBLISH", tag + "ch:1", "m"}, {"PUBLISH", tag + "ch:x", "m"}, {"PUBLISH", "elsewhere", "m"},
		{"PING"}, {"ACL", "WHOAMI"},
	}
	type server struct {
		in   *Inst
		port int
	}
	start := func() *server {
		port := freePort()
		in, err := NewInst(InstOpts{Extra: append(withTCP(port), sugardb.WithAclConfig(aclFile), sugardb.WithRequirePass(true), sugardb.WithPassword("adminpw"))})
		if err != nil {
			return nil
		}
		if err := in.StartTCP(port); err != nil {
			in.Close()
			return nil
		}
		return &server{in, port}
	}
	decide := func(s *server) ([]string, string) {
		c, err := Dial(s.port)
		if err != nil {
			return nil, "dial"
		}
		defer c.Close()
		pw := "pw"
		if v, _, err := c.Do("AUTH", "ux", pw); err != nil || v.IsError() {
			return nil, "AUTH ux pw -> " + v.String()
		}
		var out []string
		for _, p := range probes {
			v, _, err := c.Do(p...)
			switch {
			case err != nil:
				return nil, "connection lost at " + Step{Argv: p}.String()
			case !v.IsError():
				out = append(out, "executed")
			case strings.Contains(strings.ToLower(v.Str), "authori"):
				out = append(out, "refused")
			default:
				out = append(out, "error: "+trunc(v.Str, 80))
			}
		}
		return out, ""
	}
	b := start() // B exists before the file does
	if b == nil {
		ctx.Inconclusive("across-servers: server did not start")
		return
	}
	defer b.in.Close()
	a := start()
	if a == nil {
		ctx.Inconclusive("across-servers: server did not start")
		return
	}
	if v, _, crash := a.in.Do(append([]string{"ACL", "SETUSER", "ux"}, rules...)...); crash != "" || v.IsError() {
		a.in.Close()
		ctx.Inconclusive("across-servers: SETUSER refused")
		return
	}
	want, why := decide(a)
	a.in.Do("ACL", "SAVE")
	a.in.Close()
	if why != "" {
		ctx.Inconclusive("across-servers: reference decisions: " + why)
		return
	}
	check := func(s *server, how string) {
		got, why := decide(s)
		ctx.Eval(1)
		ctx.Class(fmt.Sprintf("across-servers|%s|%s|rules%d", how, ext, (i/4)%4))
		if why == "" && fmt.Sprint(got) == fmt.Sprint(want) {
			return
		}
		diff := why
		for k := range want {
			if why == "" && got[k] != want[k] {
				diff = fmt.Sprintf("%s is %s where the server that saved the rules says %s", Step{Argv: probes[k]}.String(), got[k], want[k])
				break
			}
		}
		ctx.Violate(Violation{Kind: "rules_not_reproduced", Lane: "across-servers",
			What: fmt.Sprintf("user ux with rules %v saved by one server (%s) and taken in by another through %s: %s", rules, ext, how, diff),
			Case: map[string]interface{}{"rules": rules, "file": ext, "how": how, "probes": probes, "want": want, "got": got}, Key: "c11|across-servers|" + how})
	}
	admin, err := Dial(b.port)
	if err != nil {
		ctx.Inconclusive("dial")
		return
	}
	defer admin.Close()
	admin.Do("AUTH", "adminpw")
	if v, _, err := admin.Do("ACL", "LOAD", mode); err != nil || v.IsError() {
		ctx.Violate(Violation{Kind: "load", Lane: "across-servers", What: fmt.Sprintf("ACL LOAD %s of a file saved by another server failed: %v %s", mode, err, v.String()),
			Case: map[string]interface{}{"rules": rules, "file": ext}, Key: "c11|across-servers|load-failed"})
		return
	}
	check(b, "ACL LOAD "+mode)
	c := start()
	if c == nil {
		ctx.Violate(Violation{Kind: "startup", Lane: "across-servers", What: "a server did not start on the ACL file saved by another server",
			Case: map[string]interface{}{"rules": rules, "file": ext}, Key: "c11|across-servers|start-failed"})
		return
	}
	defer c.in.Close()
	check(c, "restart on the file")
}

func c11History(ctx *Ctx, hi int) {
	r := rand.New(rand.NewSource(ctx.Seed*12_000_017 + int64(hi)))
	root := mkScratch("c11")
	defer os.RemoveAll(root)
	ext := []string{".json", ".yaml", ".yml"}[hi%3]
	aclFile := filepath.Join(root, "acl"+ext)
	requirePass := hi%5 != 4
	var in *Inst
	var port int
	var admin *Client
	var conns []*c11Conn
	var trace []string
	tab := map[string]*c11User{}
	fail := func(kind, what string) {
		ctx.Violate(Violation{Kind: kind, Lane: "auth", What: what, Case: map[string]interface{}{"history": trace, "require_pass": requirePass, "file": ext}, Key: "c11|" + kind})
	}
	closeAll := func() {
		for _, c := range conns {
			if c.c != nil {
				c.c.Close()
			}
		}
		if admin != nil {
			admin.Close()
		}
		if in != nil {
			in.Close()
		}
	}
	defer func() { closeAll() }()
	newConn := func() *c11Conn {
		c, err := Dial(port)
		if err != nil {
			return &c11Conn{}
		}
		// a new connection is the default user, authenticated only if default needs no password
		return &c11Conn{c: c, user: "default", authd: tab["default"].NoPass}
	}
	start := func(first bool) bool {
		port = freePort()
		extra := append(withTCP(port), sugardb.WithAclConfig(aclFile))
		if requirePass {
			extra = append(extra, sugardb.WithRequirePass(true), sugardb.WithPassword("adminpw"))
		}
		var err error
		in, err = NewInst(InstOpts{Extra: extra})
		if err != nil {
			fail("startup", "server did not start: "+err.Error())
			return false
		}
		if err := in.StartTCP(port); err != nil {
			ctx.Inconclusive("listener did not come up")
			return false
		}
		in.Do("SET", "probe", "v")
		if first {
			// without RequirePass the default user has neither a password nor the nopass flag: like any user
			// created without password tokens nobody can AUTH as it (and nobody needs to: the gate is off)
			tab["default"] = &c11User{Enabled: true, NoPass: false, Plain: map[string]bool{}, Hash: map[string]bool{}}
			if requirePass {
				tab["default"].Plain["adminpw"] = true
			}
		}
		admin, err = Dial(port)
		if err != nil {
			ctx.Inconclusive("dial")
			return false
		}
		if requirePass {
			// with a password the reference says the default user has now (it may have been rotated and saved)
			pw := "adminpw"
			if d := tab["default"]; d != nil && !d.Plain["adminpw"] {
				for _, cand := range keysOfSet(d.Plain) {
					pw = cand
					break
				}
			}
			if v, _, _ := admin.Do("AUTH", pw); v.IsError() {
				fail("auth", fmt.Sprintf("the default user could not authenticate with its password %q after (re)start: %s", pw, v.String()))
				return false
			}
		}
		conns = nil
		for i := 0; i < 3; i++ {
			conns = append(conns, newConn())
		}
		return true
	}
	if !start(true) {
		return
	}
	users := []string{"u1", "u2", "u3"}
	pws := []string{"p1", "p2", "p3"}
	// probe every connection against the reference
	probe := func(after string) bool {
		for ci, c := range conns {
			if c.c == nil {
				continue
			}
			v, _, err := c.c.Do("ACL", "WHOAMI")
			u, exists := tab[c.user]
			canAct := !requirePass || (c.authd && exists && u.Enabled)
			if err != nil {
				// the server closed the connection: legitimate only for a connection of a deleted user
				if !exists || c.doomed {
					c.c.Close()
					*c = *newConn()
					continue
				}
				fail("probe", fmt.Sprintf("after %s: connection %d (user %s) was closed by the server", after, ci, c.user))
				return false
			}
			ctx.Eval(1)
			if canAct {
				t, _ := v.Text()
				if v.IsError() || t != c.user {
					fail("identity", fmt.Sprintf("after %s: connection %d should be acting as %q (authenticated=%v) but ACL WHOAMI replied %s", after, ci, c.user, c.authd, v.String()))
					return false
				}
				if g, _, _ := c.c.Do("GET", "probe"); g.IsError() {
					fail("identity", fmt.Sprintf("after %s: connection %d (user %s, enabled, authenticated) was refused a GET: %s", after, ci, c.user, g.String()))
					return false
				}
			} else {
				if !v.IsError() {
					fail("identity", fmt.Sprintf("after %s: connection %d must not be able to act (user %q exists=%v enabled=%v authenticated=%v) but ACL WHOAMI replied %s", after, ci, c.user, exists, exists && u.Enabled, c.authd, v.String()))
					return false
				}
				if g, _, gerr := c.c.Do("GET", "probe"); gerr == nil && !g.IsError() {
					fail("identity", fmt.Sprintf("after %s: connection %d must not be able to act (user %q) but GET replied %s", after, ci, c.user, g.String()))
					return false
				}
			}
		}
		// the set of users the server knows is the reference's
		if admin != nil {
			if v, _, err := admin.Do("ACL", "USERS"); err == nil && v.IsSeq() {
				got := map[string]bool{}
				for _, e := range v.Elems {
					t, _ := e.Text()
					got[t] = true
				}
				var missing, extra []string
				for n := range tab {
					if !got[n] {
						missing = append(missing, n)
					}
				}
				for n := range got {
					if _, ok := tab[n]; !ok {
						extra = append(extra, n)
					}
				}
				sort.Strings(missing)
				sort.Strings(extra)
				ctx.Eval(1)
				if len(missing)+len(extra) > 0 {
					fail("users", fmt.Sprintf("after %s: ACL USERS lists %s; users that should exist and do not: %v; users that should not exist and do: %v", after, trunc(v.String(), 120), missing, extra))
					return false
				}
			}
		}
		return true
	}
	saved := map[string]*c11User(nil)
	steps := 20 + r.Intn(20)
	for k := 0; k < steps; k++ {
		var desc string
		switch x := r.Intn(12); {
		case x < 3: // SETUSER
			u := users[r.Intn(len(users))]
			if r.Intn(8) == 0 {
				u = "default"
			}
			var toks []string
			cur, exists := tab[u]
			if !exists {
				cur = &c11User{Enabled: true, Plain: map[string]bool{}, Hash: map[string]bool{}}
			} else {
				cur = cur.clone()
			}
			if u != "default" || r.Intn(3) == 0 {
				if u == "default" || r.Intn(4) != 0 {
					toks = append(toks, "on")
					cur.Enabled = true
				} else {
					toks = append(toks, "off")
					cur.Enabled = false
				}
			}
			rotate := u == "default" && requirePass && r.Intn(2) == 0
			if rotate {
				// rotate the default user's password at run time: a new one in, the start-up one out (or back in)
				if cur.Plain["adminpw"] {
					p := pws[r.Intn(len(pws))]
					toks = append(toks, ">"+p, "<adminpw")
					cur.Plain[p], cur.NoPass = true, false
					delete(cur.Plain, "adminpw")
				} else {
					toks = append(toks, ">adminpw")
					cur.Plain["adminpw"], cur.NoPass = true, false
				}
			}
			switch sel := r.Intn(7); {
			case rotate:
			case sel == 0:
				if u != "default" {
					toks = append(toks, "nopass")
					cur.NoPass, cur.Plain, cur.Hash = true, map[string]bool{}, map[string]bool{}
				}
			case sel == 1:
				if u != "default" {
					toks = append(toks, "resetpass")
					cur.NoPass, cur.Plain, cur.Hash = false, map[string]bool{}, map[string]bool{}
				}
			default:
				for j, nn := 0, 1+r.Intn(2); j < nn; j++ {
					p := pws[r.Intn(len(pws))]
					switch r.Intn(5) {
					case 0, 1:
						toks = append(toks, ">"+p)
						cur.Plain[p], cur.NoPass = true, false
					case 2:
						toks = append(toks, "#"+sha(p))
						cur.Hash[sha(p)], cur.NoPass = true, false
					case 3:
						if u != "default" {
							toks = append(toks, "<"+p)
							delete(cur.Plain, p)
						}
					case 4:
						if u != "default" {
							toks = append(toks, "!"+sha(p))
							delete(cur.Hash, sha(p))
						}
					}
				}
			}
			if !exists {
				toks = append(toks, "allCategories", "allCommands", "allKeys", "allChannels")
			}
			if len(toks) == 0 {
				continue
			}
			desc = fmt.Sprintf("ACL SETUSER %s %s", u, strings.Join(toks, " "))
			v, _, err := admin.Do(append([]string{"ACL", "SETUSER", u}, toks...)...)
			if err != nil || v.IsError() {
				fail("setuser", fmt.Sprintf("%s failed: %v %s", desc, err, v.String()))
				return
			}
			tab[u] = cur
			ctx.Class(fmt.Sprintf("setuser|new=%v|enabled=%v|nopass=%v|pw=%d", !exists, cur.Enabled, cur.NoPass, len(cur.Plain)+len(cur.Hash)))
		case x == 3: // DELUSER
			u := append(append([]string{}, users...), "default", "ghost")[r.Intn(len(users)+2)]
			// one user, or several users in one command (in any order, possibly with repeats)
			names := []string{u}
			if r.Intn(3) == 0 {
				for len(names) < 2+r.Intn(2) {
					names = append(names, append(append([]string{}, users...), "ghost")[r.Intn(len(users)+1)])
				}
			}
			desc = "ACL DELUSER " + strings.Join(names, " ")
			v, _, err := admin.Do(append([]string{"ACL", "DELUSER"}, names...)...)
			if err != nil {
				fail("deluser", desc+": admin connection lost")
				return
			}
			_ = v
			for _, u := range names {
				if u != "default" {
					if _, had := tab[u]; had {
						for _, c := range conns {
							if c.c != nil && c.user == u {
								c.authd, c.doomed = false, true
							}
						}
					}
					delete(tab, u)
				}
			}
			ctx.Class("deluser|" + map[bool]string{true: "default", false: "other"}[u == "default"])
		case x < 8: // AUTH
			c := conns[r.Intn(len(conns))]
			if c.c == nil {
				continue
			}
			u := append(append([]string{}, users...), "default", "ghost")[r.Intn(len(users)+2)]
			pool := append([]string{}, pws...)
			pool = append(pool, "adminpw", "wrong", sha("p1"), "")
			pw := pool[r.Intn(len(pool))]
			if pw == "" {
				continue
			}
			args := []string{"AUTH", u, pw}
			if u == "default" && r.Intn(2) == 0 {
				args = []string{"AUTH", pw}
			}
			if r.Intn(6) == 0 {
				args = []string{"HELLO", []string{"2", "3"}[r.Intn(2)], "AUTH", u, pw}
			}
			desc = fmt.Sprintf("conn%d> %s", indexOfConn(conns, c), strings.Join(args, " "))
			want := authOK(tab, u, pw)
			v, _, err := c.c.Do(args...)
			if err != nil {
				if _, exists := tab[c.user]; !exists || c.doomed {
					// the connection of a deleted user: the server closes it when its reader notices (see probe)
					c.c.Close()
					*c = *newConn()
					trace = append(trace, desc+" (connection of a deleted user, closed by the server; reconnected)")
					continue
				}
				fail("auth", desc+": connection lost: "+err.Error())
				return
			}
			ctx.Eval(1)
			ctx.Class(fmt.Sprintf("auth|%s|want=%v|exists=%v", strings.ToLower(args[0]), want, tab[u] != nil))
			if want == v.IsError() {
				st := "absent"
				if t := tab[u]; t != nil {
					st = fmt.Sprintf("enabled=%v nopass=%v plaintext=%v sha256=%d", t.Enabled, t.NoPass, keysOfSet(t.Plain), len(t.Hash))
				}
				fail("auth", fmt.Sprintf("%s replied %s but the stored credentials of %q (%s) say it must %s", desc, trunc(v.String(), 120), u, st, map[bool]string{true: "succeed", false: "fail"}[want]))
				return
			}
			if want {
				c.user, c.authd = u, true
			}
		case x == 8: // new connection replaces one
			i := r.Intn(len(conns))
			if conns[i].c != nil {
				conns[i].c.Close()
			}
			conns[i] = newConn()
			desc = fmt.Sprintf("conn%d reconnects", i)
			ctx.Class("reconnect")
		case x == 9: // SAVE
			desc = "ACL SAVE"
			if v, _, err := admin.Do("ACL", "SAVE"); err != nil || v.IsError() {
				fail("save", fmt.Sprintf("ACL SAVE failed: %v %s", err, v.String()))
				return
			}
			saved = map[string]*c11User{}
			for n, u := range tab {
				saved[n] = u.clone()
			}
			ctx.Class("save")
		case x == 10: // LOAD
			if saved == nil {
				continue
			}
			mode := []string{"MERGE", "REPLACE"}[r.Intn(2)]
			desc = "ACL LOAD " + mode
			if v, _, err := admin.Do("ACL", "LOAD", mode); err != nil || v.IsError() {
				fail("load", fmt.Sprintf("%s failed: %v %s", desc, err, v.String()))
				return
			}
			for n, f := range saved {
				cur, ok := tab[n]
				if !ok || mode == "REPLACE" {
					tab[n] = f.clone()
					continue
				}
				cur.Enabled, cur.NoPass = f.Enabled, f.NoPass
				for p := range f.Plain {
					cur.Plain[p] = true
				}
				for h := range f.Hash {
					cur.Hash[h] = true
				}
			}
			ctx.Class("load|" + mode)
		case x == 11: // restart on the saved file
			if saved == nil {
				continue
			}
			desc = "restart with the saved ACL file"
			closeAll()
			admin, in = nil, nil
			tab = map[string]*c11User{}
			for n, u := range saved {
				tab[n] = u.clone()
			}
			if !start(false) {
				return
			}
			ctx.Class("restart")
		}
		if desc == "" {
			continue
		}
		trace = append(trace, desc)
		if !probe(desc) {
			return
		}
	}
	if hi == 0 {
		ctx.Sample("history", trace)
	}
}

func indexOfConn(cs []*c11Conn, c *c11Conn) int {
	for i, x := range cs {
		if x == c {
			return i
		}
	}
	return -1
}

func keysOfSet(m map[string]bool) []string {
	var out []string
	for k := range m {
		out = append(out, k)
	}
	return out
}

// c11Concurrent: rule edits racing authentication and ACL SAVE.
// (a) AUTH as a user against ACL DELUSER of that user, both sent at (nearly) the same moment, the user having
//
//	thousands of passwords so that checking them takes a while: once both are answered, the user is gone,
//	so the connection must not be acting as it.
//
// (b) ACL SAVE while another caller adds password generation g first to user a-first and then to user z-last
//
//	(thousands of users between them): every saved file must hold a table that existed, i.e. z-last's
//	passwords are a subset of a-first's.
func c11Concurrent(ctx *Ctx, i int) {
	root := mkScratch("c11c")
	defer os.RemoveAll(root)
	aclFile := filepath.Join(root, "acl.json")
	port := freePort()
	in, err := NewInst(InstOpts{Extra: append(withTCP(port), sugardb.WithAclConfig(aclFile), sugardb.WithRequirePass(true), sugardb.WithPassword("adminpw"))})
	if err != nil {
		ctx.Broken(err.Error())
		return
	}
	defer in.Close()
	if err := in.StartTCP(port); err != nil {
		ctx.Inconclusive("listener did not come up")
		return
	}
	if i%2 == 0 {
		admin, err := Dial(port)
		if err != nil {
			return
		}
		defer admin.Close()
		admin.Do("AUTH", "adminpw")
		filler := []string{"ACL", "SETUSER", "ux", "on", "allCategories", "allCommands", "allKeys", "allChannels"}
		for f := 0; f < 6000; f++ {
			filler = append(filler, fmt.Sprintf(">filler-%05d", f))
		}
		filler = append(filler, ">pw")
		for round := 0; round < 150; round++ {
			if v, _, err := admin.Do(filler...); err != nil || v.IsError() {
				ctx.Inconclusive("c11 concurrent: SETUSER refused")
				return
			}
			c, err := Dial(port)
			if err != nil {
				return
			}
			var av resp.Value
			var aerr error
			done := make(chan struct{})
			go func() {
				av, _, aerr = c.Do("AUTH", "ux", "pw")
				close(done)
			}()
			time.Sleep(time.Duration((round*37)%400) * time.Microsecond)
			dv, _, derr := admin.Do("ACL", "DELUSER", "ux")
			<-done
			ctx.Eval(1)
			if derr == nil && !dv.IsError() && aerr == nil && !av.IsError() {
				// both answered: the user does not exist any more
				w, _, werr := c.Do("ACL", "WHOAMI")
				ctx.Class("concurrent|auth-vs-deluser|auth-ok")
				if t, _ := w.Text(); werr == nil && !w.IsError() && t == "ux" {
					g, _, _ := c.Do("SET", "c11c", "v")
					ctx.Violate(Violation{Kind: "deleted_user_acts", Lane: "concurrent-auth-deluser",
						What: fmt.Sprintf("AUTH ux pw and ACL DELUSER ux were sent at nearly the same moment (round %d) and both answered OK; afterwards ACL WHOAMI on that connection replies %q and SET replies %s: the deleted user keeps acting", round, t, trunc(g.String(), 40)),
						Case: map[string]interface{}{"round": round}, Key: "c11|concurrent|auth-deluser"})
					c.Close()
					return
				}
			} else {
				ctx.Class("concurrent|auth-vs-deluser|auth-refused")
			}
			c.Close()
		}
		return
	}
	// (b)
	in.Do("ACL", "SETUSER", "a-first", "on", ">g0")
	for u := 0; u < 2500; u++ {
		in.Do("ACL", "SETUSER", fmt.Sprintf("m%04d", u), "on", ">p")
	}
	in.Do("ACL", "SETUSER", "z-last", "on", ">g0")
	stop := make(chan struct{})
	var wg sync.WaitGroup
	wg.Add(1)
	go func() {
		defer wg.Done()
		for g := 1; ; g++ {
			select {
			case <-stop:
				return
			default:
			}
			pw := fmt.Sprintf(">g%d", g)
			in.Do("ACL", "SETUSER", "a-first", pw)
			in.Do("ACL", "SETUSER", "z-last", pw)
		}
	}()
	defer func() { close(stop); wg.Wait() }()
	for k := 0; k < 12; k++ {
		if v, _, crash := in.Do("ACL", "SAVE"); crash != "" || v.IsError() {
			ctx.Inconclusive("c11 concurrent: ACL SAVE refused")
			return
		}
		b, err := os.ReadFile(aclFile)
		if err != nil {
			continue
		}
		var users []struct {
			Username  string
			Passwords []struct{ PasswordValue string }
		}
		if json.Unmarshal(b, &users) != nil {
			continue
		}
		pw := map[string]map[string]bool{}
		for _, u := range users {
			if u.Username == "a-first" || u.Username == "z-last" {
				pw[u.Username] = map[string]bool{}
				for _, p := range u.Passwords {
					pw[u.Username][p.PasswordValue] = true
				}
			}
		}
		ctx.Eval(1)
		ctx.Class("concurrent|save-vs-setuser")
		for p := range pw["z-last"] {
			if !pw["a-first"][p] {
				ctx.Violate(Violation{Kind: "saved_table_never_existed", Lane: "concurrent-save-setuser",
					What: fmt.Sprintf("while another caller added each new password first to a-first and then to z-last, ACL SAVE number %d wrote a file in which z-last has password %q and a-first does not: no user table that ever existed", k+1, p),
					Case: map[string]interface{}{"save": k + 1}, Key: "c11|concurrent|save-setuser"})
				return
			}
		}
	}
}
