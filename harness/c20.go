package main

import (
	"fmt"
	"math/rand"
	"os"
	"path/filepath"
	"reflect"
	"runtime"
	"strconv"
	"strings"
	"sync"
	"sync/atomic"
	"time"

	"github.com/echovault/sugardb/sugardb"

	"verif/harness/model"
)

func init() {
	registerCheck("C20", "exploration", checkC20)
}

var c20DBs = []int{0, 1, 2, 9, 10, 11, 123}

// bookkeepingOf extracts the per-database bookkeeping (volatile-key index and eviction heaps) of a dump.
func bookkeepingOf(d sugardb.VerifDumpResult, db int) map[string]interface{} {
	return map[string]interface{}{"volatile": d.Volatile[db], "lru": d.LRU[db], "lfu": d.LFU[db], "lfu_count": d.LFUCount[db]}
}

func checkC20(ctx *Ctx) {
	ctx.Rule("one evaluation = one history of data commands, SELECT, SWAPDB, FLUSHDB and FLUSHALL issued by three TCP connections and the embedded caller over databases {0,1,2,9,10,11,123}, run in lock step with a family of independent reference maps indexed by database and a per-connection selected index: " +
		"after every step the dump of EVERY database must equal the reference (so a command with database i selected changed nothing in database j), the volatile-key index and eviction heaps of the other databases must be unchanged, and SELECT must affect only the issuing connection. " +
		"Persistence legs: multi-database datasets written by TCP and embedded callers must come back in the same databases after an AOF restart and a snapshot restore. distinct_nontrivial = distinct (caller kind, database, command/options, outcome) classes")
	ctx.Assume("SWAPDB is checked for the TCP connections that exist when it is issued (SugarDB documents that the embedded caller is not swapped)", "replication leg: see C07")
	if ctx.Fork(8, "", ctx.Watchdog()) {
		return
	}
	quietLogs()
	n := ctx.N(2400, 12000)
	gens := allGens()
	u := allUniverse()
	u.Keys = []string{"a", "b", "c", "d"}
	done := make(chan struct{}, runtime.NumCPU())
	_ = done
	for i := 0; i < n; i++ {
		if !ctx.Mine(i) {
			continue
		}
		ctx.SetCurrent(fmt.Sprintf("C20 history %d seed %d", i, ctx.Seed))
		c20History(ctx, i, gens, u)
	}
	for i := 0; i < ctx.N(24, 96); i++ {
		if ctx.Mine(i) {
			c20Persistence(ctx, i)
		}
	}
	for i := 0; i < ctx.N(8, 48); i++ {
		if ctx.Mine(i + 2) {
			ctx.SetCurrent(fmt.Sprintf("C20 concurrent select/swapdb %d", i))
			c20Concurrent(ctx, i)
		}
	}
	if ctx.Shard == 3 || ctx.NShards == 1 {
		// the database of a key is the one its command ran in, also when another actor re-points the caller
		// (SWAPDB, SelectDB) between the command's handler and its log record
		ctx.SetCurrent("C20 database-change lane")
		c02DBChange(ctx)
	}
}

func c20History(ctx *Ctx, i int, gens []cmdGen, u Universe) {
	r := rand.New(rand.NewSource(ctx.Seed*8_000_009 + int64(i)))
	port := freePort()
	opts := InstOpts{Extra: withTCP(port)}
	if i%3 == 1 {
		// eviction bookkeeping is only maintained with a memory limit: a limit that is never reached
		opts.MaxMemory = 1 << 40
		opts.Policy = []string{"allkeys-lfu", "allkeys-lru", "volatile-lfu"}[(i/3)%3]
	}
	in, err := NewInst(opts)
	if err != nil {
		ctx.Broken(err.Error())
		return
	}
	defer in.Close()
	if err := in.StartTCP(port); err != nil {
		ctx.Inconclusive("listener did not come up")
		return
	}
	ac := &asyncCounter{}
	setHook(ac.hook)
	defer setHook(nil)
	s := NewSession(ctx, "history", in)
	s.port = port
	s.conns = map[string]*Client{}
	s.connDB = map[string]int{}
	defer s.closeConns()
	conns := []string{"", "c1", "c2", "c3"}
	for _, c := range conns[1:] {
		cl, err := Dial(port)
		if err != nil {
			ctx.Inconclusive("dial failed")
			return
		}
		s.conns[c] = cl
		s.connDB[c] = 0
	}
	// each history works on three of the database indices, so that the same key names meet in several of them
	dbs := []int{c20DBs[r.Intn(len(c20DBs))], c20DBs[r.Intn(len(c20DBs))], c20DBs[r.Intn(len(c20DBs))]}
	var prog []Step
	for k, ln := 0, 40+r.Intn(40); k < ln; k++ {
		st := Step{Conn: conns[r.Intn(len(conns))]}
		switch x := r.Intn(20); {
		case x < 3:
			db := dbs[r.Intn(len(dbs))]
			if st.Conn == "" {
				st.DB = &db
			} else {
				st.Argv = []string{"SELECT", strconv.Itoa(db)}
			}
		case x == 3 && st.Conn != "":
			st.Argv = []string{"SWAPDB", strconv.Itoa(dbs[r.Intn(len(dbs))]), strconv.Itoa(dbs[r.Intn(len(dbs))])}
		case x == 4:
			st.Argv = []string{pick(r, []string{"FLUSHDB", "FLUSHDB", "FLUSHALL"})}
		case x == 5 && st.Conn != "":
			st.Argv = []string{"SELECT", pick(r, []string{"-1", "x", ""})}
		case x == 6 && st.Conn != "":
			// handshake commands in the middle of a session (protocol 2 is kept, so replies stay comparable)
			st.Argv = [][]string{{"HELLO", "2"}, {"HELLO"}, {"PING"}, {"ECHO", "x"}, {"HELLO", "2", "SETNAME", "n" + st.Conn}}[r.Intn(5)]
		default:
			st.Argv = gens[r.Intn(len(gens))](r, &u, in.Clk.NowNs())
		}
		if len(st.Argv) == 0 && st.DB == nil {
			continue
		}
		prog = append(prog, st)
		db := s.dbOf(st)
		ac.wait(2 * time.Second)
		before := in.S.VerifDump()
		res := s.Exec(st)
		if res.Vio != nil {
			ctx.Violate(*res.Vio)
			break
		}
		if st.DB != nil {
			db = *st.DB
		}
		// bookkeeping of the other databases must be untouched (FLUSHALL excepted)
		ac.wait(2 * time.Second)
		after := in.S.VerifDump()
		flushAll := len(st.Argv) == 1 && (st.Argv[0] == "FLUSHALL")
		if !flushAll && res.Skipped == "" {
			for j := range before.DBs {
				if j == db {
					continue
				}
				if b, a := bookkeepingOf(before, j), bookkeepingOf(after, j); !reflect.DeepEqual(b, a) {
					ctx.Violate(Violation{Kind: "bookkeeping", Lane: "history",
						What: fmt.Sprintf("%s executed with database %d selected changed the expiry/eviction bookkeeping of database %d: %v -> %v", st.String(), db, j, b, a),
						Case: map[string]interface{}{"program": prog, "program_text": progStrings(prog)}, Key: "c20|bookkeeping|" + argShape(append([]string{"x"}, st.Argv...))})
				}
			}
		}
		kind := "tcp"
		if st.Conn == "" {
			kind = "emb"
		}
		if len(st.Argv) > 0 && res.Skipped == "" {
			ctx.Class(fmt.Sprintf("%s|db%d|%s|%s", kind, db, argShape(st.Argv), res.Outcome))
		}
	}
	ctx.Eval(1)
	ctx.Count("steps", int64(len(s.trace)))
	if i == 0 {
		ctx.Sample("history", progStrings(s.trace))
	}
}

// c20Persistence: a multi-database dataset written by TCP and embedded callers must come back in
// the same databases after an AOF restart and after a snapshot restore.
func c20Persistence(ctx *Ctx, i int) {
	r := rand.New(rand.NewSource(ctx.Seed*77 + int64(i)))
	root := mkScratch("c20")
	defer os.RemoveAll(root)
	dir := filepath.Join(root, "data")
	_ = os.MkdirAll(dir, 0o755)
	clk := NewVClock()
	run, err := newPRunner(dir, "always", false, false, clk)
	if err != nil {
		ctx.Broken(err.Error())
		return
	}
	w := pWorkload{Policy: "always"}
	for len(w.Ops) < 40 {
		caller := pick(r, []string{"emb", "t1", "t2"})
		if r.Intn(3) == 0 {
			db := c20DBs[r.Intn(len(c20DBs))]
			if caller == "emb" {
				w.Ops = append(w.Ops, pOp{Caller: "emb", SelDB: &db})
			} else {
				w.Ops = append(w.Ops, pOp{Caller: caller, Argv: []string{"SELECT", strconv.Itoa(db)}})
			}
			continue
		}
		if i%2 == 1 && len(w.Ops) > 8 && r.Intn(10) == 0 {
			// a log rewrite between writes (the next write may be in the same database as the last one)
			w.Ops = append(w.Ops, pOp{Caller: caller, Argv: []string{"REWRITEAOF"}})
			continue
		}
		argv := genWriteOp(r, clk.NowNs(), false, false)
		if matchPersistFinding(argv) != "" {
			continue
		}
		w.Ops = append(w.Ops, pOp{Caller: caller, Argv: argv})
	}
	for _, op := range w.Ops {
		if _, err := run.exec(op); err != nil {
			ctx.Count("persistence_runs_stopped", 1)
			run.close()
			return
		}
	}
	want := run.canon()
	_, _ = run.exec(pOp{Caller: "emb", Argv: []string{"@SNAP"}})
	run.close()
	// further generations on the same directory: restart, write in other databases (database 0 first), stop, restart
	gdir := mkScratch("c20gen")
	defer os.RemoveAll(gdir)
	if err := copyDir(dir, gdir); err == nil {
		for gen := 0; gen < 3; gen++ {
			in, err := NewInst(InstOpts{DataDir: gdir, AOFStrategy: "always", RestoreAOF: true, Clock: clk})
			if err != nil {
				break
			}
			var cmds []string
			for k := 0; k < 4; k++ {
				db := 0
				if gen > 0 || k > 1 {
					db = c20DBs[r.Intn(len(c20DBs))]
				}
				_ = in.S.SelectDB(db)
				argv := genWriteOp(r, clk.NowNs(), false, false)
				if matchPersistFinding(argv) != "" {
					continue
				}
				in.Do(argv...)
				cmds = append(cmds, fmt.Sprintf("[db %d] %s", db, Step{Argv: argv}.String()))
				if k == 1 && (i+gen)%2 == 0 {
					// a rewrite in the middle of a generation: the writes that follow stay in their database
					if rewriteAndWait(in) == "" {
						cmds = append(cmds, "REWRITEAOF")
					}
				}
			}
			wantG := CanonDump(in.S.VerifDump(), clk.NowNs())
			in.Close()
			d, rdir, err := restoreDump(gdir, "always", clk, true, false, nil)
			os.RemoveAll(rdir)
			ctx.Eval(1)
			ctx.Class(fmt.Sprintf("persistence|aof|generation=%d", gen+2))
			if err != nil || !canonEq(wantG, d) {
				ctx.Violate(Violation{Kind: "placement", Lane: "persistence-aof-generations",
					What: fmt.Sprintf("generation %d: after a restart, writes %v, a clean stop and another restart, keys are not in the databases they were written to: %v %s", gen+2, cmds, err, model.DiffCanon(wantG, d)),
					Case: map[string]interface{}{"workload": w, "generation": gen + 2, "writes": cmds}, Key: "c20|persistence|generations"})
				break
			}
		}
	}
	for _, mode := range []string{"aof", "snapshot"} {
		d, rdir, err := restoreDump(dir, "always", clk, mode == "aof", mode == "snapshot", nil)
		os.RemoveAll(rdir)
		ctx.Eval(1)
		ctx.Class(fmt.Sprintf("persistence|%s|dbs=%d", mode, len(want)))
		if err != nil || !canonEq(want, d) {
			ctx.Violate(Violation{Kind: "placement", Lane: "persistence-" + mode,
				What: fmt.Sprintf("after a %s restore keys are not in the databases they were written to: %v %s", mode, err, model.DiffCanon(want, d)),
				Case: map[string]interface{}{"workload": w}, Key: "c20|persistence|" + mode})
		}
	}
}

// c20Concurrent: SELECT affects only the issuing connection, also while other connections swap databases.
// Six connections select databases 7, 8 or 9 again and again and write a key whose name says which database
// they had just selected; two connections swap databases 0 and 1 all the time (which concerns nobody on 7..9);
// a few hundred idle connections make the connection table long. At the end every key must be in the
// database its name says.
func c20Concurrent(ctx *Ctx, i int) {
	port := freePort()
	in, err := NewInst(InstOpts{Extra: withTCP(port)})
	if err != nil {
		ctx.Broken(err.Error())
		return
	}
	defer in.Close()
	if err := in.StartTCP(port); err != nil {
		ctx.Inconclusive("listener did not come up")
		return
	}
	var idle []*Client
	for k := 0; k < 300; k++ {
		if c, err := Dial(port); err == nil {
			idle = append(idle, c)
		}
	}
	defer func() {
		for _, c := range idle {
			c.Close()
		}
	}()
	stop := make(chan struct{})
	var swaps atomic.Int64
	var sw sync.WaitGroup
	for g := 0; g < 2; g++ {
		sw.Add(1)
		go func() {
			defer sw.Done()
			c, err := Dial(port)
			if err != nil {
				return
			}
			defer c.Close()
			for {
				select {
				case <-stop:
					return
				default:
				}
				if _, _, err := c.Do("SWAPDB", "0", "1"); err != nil {
					return
				}
				swaps.Add(1)
			}
		}()
	}
	var wg sync.WaitGroup
	var writes atomic.Int64
	for id := 0; id < 6; id++ {
		wg.Add(1)
		go func(id int) {
			defer wg.Done()
			c, err := Dial(port)
			if err != nil {
				return
			}
			defer c.Close()
			r := rand.New(rand.NewSource(ctx.Seed*131 + int64(i*10+id)))
			for k := 0; k < 120; k++ {
				d := 7 + r.Intn(3)
				if v, _, err := c.Do("SELECT", strconv.Itoa(d)); err != nil || v.IsError() {
					return
				}
				if v, _, err := c.Do("SET", fmt.Sprintf("c20c:%d:%d:db%d", id, k, d), "v"); err != nil || v.IsError() {
					return
				}
				writes.Add(1)
			}
		}(id)
	}
	wg.Wait()
	close(stop)
	sw.Wait()
	d := in.S.VerifDump()
	ctx.Eval(1)
	ctx.Count("concurrent_selects", writes.Load())
	ctx.Count("concurrent_swaps", swaps.Load())
	ctx.Class("concurrent|select-vs-swapdb")
	for db, keys := range d.DBs {
		for k := range keys {
			if !strings.HasPrefix(k, "c20c:") {
				continue
			}
			if want := k[strings.LastIndex(k, ":db")+3:]; want != strconv.Itoa(db) {
				ctx.Violate(Violation{Kind: "select", Lane: "concurrent",
					What: fmt.Sprintf("a connection was answered OK for SELECT %s and then wrote %s, which is in database %d: its selection was undone while other connections were running SWAPDB 0 1 (%d swaps, %d select+write pairs)", want, k, db, swaps.Load(), writes.Load()),
					Case: map[string]interface{}{"key": k, "found_in": db}, Key: "c20|concurrent|select-lost"})
				return
			}
		}
	}
}
