package main

import (
	"strings"

	"verif/harness/model"
)

// Predicates of the listed findings of property C14 (see known_findings.json).

func init() {
	// C14-KF1: HSET/HSETNX pass every value through the numeric value typing
	// helper, so a numeric-looking value that is not the canonical rendering of
	// its number is not preserved byte for byte ("007" -> 7, "1e3" -> 1000,
	// "1.5e-07" is read back as 0.00000015). The predicate matches exactly the
	// well-formed HSET/HSETNX steps that would write such a value.
	registerPred("C14-KF1", func(st *model.State, env model.Env, argv []string) bool {
		if len(argv) < 4 || len(argv)%2 != 0 {
			return false
		}
		cmd := strings.ToLower(argv[0])
		if cmd != "hset" && cmd != "hsetnx" {
			return false
		}
		e := st.DBs[env.DB][argv[1]]
		if e != nil && e.Kind != model.KHash {
			e = nil // the value is overwritten as if the key had been absent (pinned by the suite)
		}
		for i := 2; i+1 < len(argv); i += 2 {
			if model.HashValueStable(argv[i+1]) {
				continue
			}
			if cmd == "hsetnx" && e != nil {
				if _, present := e.H[argv[i]]; present {
					continue // not written
				}
			}
			return true
		}
		return false
	})
}
