package main

import (
	"errors"
	"fmt"
	"math/rand"
	"net"
	"os"
	"sort"
	"strconv"
	"strings"
	"sync"
	"sync/atomic"
	"time"

	"verif/harness/model"
	"verif/harness/resp"
)

func init() {
	registerCheck("C12", "exploration", checkC12)
}

var c12Hostile = []string{"", "0", "1", "-1", "2", "10", "9223372036854775807", "-9223372036854775808", "99999999999999999999", "1.5", "-inf", "nan",
	"\r\n", "a\r\nb", "\x00", "x\x00y", "$-1", "*3", "+OK", "-ERR x", ":1",
	"NX", "XX", "GT", "CH", "INCR", "WITHSCORES", "WITHVALUES", "LIMIT", "WEIGHTS", "AGGREGATE", "MIN", "MAX", "COUNT", "LEFT", "RIGHT", "BYSCORE", "BYLEX", "REV", "MATCH",
	"EX", "PX", "PERSIST", "GET", "k", "k2", "key with spaces", "ünï",
	"[a", "[", "\\", "{a,b", "*[!", "a\xffb", "\xe2\x82", "h?llo*", // malformed globs, invalid UTF-8
	strings.Repeat("A", 9000), strings.Repeat("B", 70000)}

type c12Server struct {
	in   *Inst
	port int
}

func c12Start() (*c12Server, error) {
	port := freePort()
	in, err := NewInst(InstOpts{Extra: withTCP(port)})
	if err != nil {
		return nil, err
	}
	if err := in.StartTCP(port); err != nil {
		return nil, err
	}
	return &c12Server{in, port}, nil
}

// c12Alive: the process answers a PING on a brand-new connection.
func (s *c12Server) alive() bool {
	c, err := net.DialTimeout("tcp", fmt.Sprintf("127.0.0.1:%d", s.port), 10*time.Second)
	if err != nil {
		return false
	}
	defer c.Close()
	cl := &Client{c: c}
	v, _, err := cl.Do("PING")
	return err == nil && (v.Str == "PONG")
}

// expectedReplies: one reply per complete command; the subscribe family confirms once per channel.
func expectedReplies(argv []string) int {
	n := strings.ToLower(argv[0])
	if (n == "subscribe" || n == "psubscribe") && len(argv) > 1 {
		return len(argv) - 1
	}
	return 1
}

func checkC12(ctx *Ctx) {
	ctx.Rule("one evaluation = one byte stream sent to a real listener: (a) every registered command and subcommand with argument vectors of arity 0..n+2 drawn from hostile bytes (empty, huge and negative integers, CR LF, NUL, RESP type bytes, option keywords, 9 KB and 70 KB), each followed by a unique ECHO sentinel; " +
		"(b) pipelines of 2-50 commands in one write; (c) the same streams cut into 2-3 TCP writes at every offset (short streams) or at random offsets; (d) truncated, corrupted, inline and oversized-length frames; (e) 32 connections at once; (f) the same after HELLO 3. " +
		"The strict parser must find exactly the expected number of well-formed replies between consecutive sentinels, in order; payloads read back must be byte-identical to what the same stream stored; the process must answer PING on a new connection after every stream; " +
		"typed embedded API results must equal the decoded wire reply of the same command. distinct_nontrivial = distinct (lane, command, arity, reply class) classes")
	ctx.Assume("the strict RESP2/RESP3 parser of the harness (never the server's lenient one) decides well-formedness", "a malformed frame may make the server close THAT connection; the process and other connections must be unaffected")
	if ctx.Fork(8, "", ctx.Watchdog()) {
		return
	}
	quietLogs()
	srv, err := c12Start()
	if err != nil {
		ctx.Broken(err.Error())
		return
	}
	defer srv.in.Close()
	table := srv.in.S.VerifCommandTable()
	sort.Slice(table, func(i, j int) bool {
		return table[i].Command+table[i].SubCommand < table[j].Command+table[j].SubCommand
	})
	// (a) per-command hostile argument vectors
	per := ctx.N(120, 600)
	for ti, t := range table {
		if !ctx.Mine(ti) {
			continue
		}
		name := strings.ToLower(t.Command)
		if name == "module" || (name == "acl" && (strings.EqualFold(t.SubCommand, "load") || strings.EqualFold(t.SubCommand, "save"))) {
			continue // need files on disk; exercised by C11
		}
		ctx.SetCurrent("C12 hostile arguments for " + t.Command + " " + t.SubCommand)
		r := rand.New(rand.NewSource(ctx.Seed*14_000_029 + int64(ti)))
		c, err := Dial(srv.port)
		if err != nil {
			ctx.Inconclusive("dial")
			return
		}
		for k := 0; k < per; k++ {
			if ctx.NReports() >= 4 {
				c.Close()
				return // enough evidence: a broken framing layer would otherwise cost one watchdog per stream
			}
			argv := []string{strings.ToUpper(t.Command)}
			if t.SubCommand != "" {
				argv = append(argv, strings.ToUpper(t.SubCommand))
			}
			arity := r.Intn(7)
			if k < 7 {
				arity = k
			}
			for a := 0; a < arity; a++ {
				pool := c12Hostile
				if r.Intn(3) == 0 {
					pool = c12Hostile[:len(c12Hostile)-2] // fewer huge arguments
				}
				argv = append(argv, pool[r.Intn(len(pool))])
			}
			if !c12Exchange(ctx, srv, &c, "hostile", [][]string{argv}, nil, k) {
				return
			}
		}
		c.Close()
		if !c12DeepProbe(ctx, srv, "hostile argument vectors for "+t.Command+" "+t.SubCommand) {
			return
		}
	}
	// (g) command and subcommand names that are themselves hostile (errors raised before any handler runs)
	{
		parents := []string{"", "PUBSUB", "ACL", "COMMAND", "CLIENT", "MODULE", "CONFIG", "OBJECT"}
		names := append([]string{"NOSUCH\r\n+OK\r\n:1", "NO\nSUCH", "NO\rSUCH", "get\r\n", "\r\n$3\r\nfoo", "-ERR injected\r\n", "PING\r\nPING"}, c12Hostile[:len(c12Hostile)-2]...)
		cs := 0
		for _, par := range parents {
			for _, nm := range names {
				cs++
				if !ctx.Mine(cs) {
					continue
				}
				ctx.SetCurrent("C12 hostile command name")
				c, err := Dial(srv.port)
				if err != nil {
					ctx.Inconclusive("dial")
					return
				}
				argv := []string{nm, "k"}
				if par != "" {
					argv = []string{par, nm, "k"}
				}
				okx := c12Exchange(ctx, srv, &c, "hostile-name", [][]string{argv, {"PING"}, {"ECHO", "one"}}, nil, cs)
				c.Close()
				if !okx || ctx.NReports() >= 4 {
					return
				}
			}
		}
	}
	// (j) commands that echo names (keys, fields, members, elements) back: hostile names must come back well framed
	if ctx.Mine(3) {
		ctx.SetCurrent("C12 name echo")
		c, err := Dial(srv.port)
		if err != nil {
			ctx.Inconclusive("dial")
			return
		}
		for ni, nm := range []string{"cr\r\nlf", "\r\n", "+OK", "$5", "*2\r\n$1\r\na", "nul\x00x", "sp ace", "-ERR x\r\n", ":1\r\n", strings.Repeat("N", 1500)} {
			cmds := [][]string{{"SELECT", "7"}, {"FLUSHDB"},
				{"SET", nm, "v"}, {"RANDOMKEY"}, {"KEYS", "*"}, {"TYPE", nm}, {"RENAME", nm, nm + "2"}, {"RANDOMKEY"}, {"DEL", nm + "2"},
				{"HSET", "h", nm, nm}, {"HKEYS", "h"}, {"HVALS", "h"}, {"HGETALL", "h"}, {"HRANDFIELD", "h", "1", "WITHVALUES"}, {"HGET", "h", nm}, {"HMGET", "h", nm},
				{"SADD", "s", nm}, {"SMEMBERS", "s"}, {"SRANDMEMBER", "s"}, {"SRANDMEMBER", "s", "2"}, {"SUNION", "s", "s"}, {"SPOP", "s"},
				{"ZADD", "z", "1", nm}, {"ZRANGE", "z", "0", "-1", "WITHSCORES"}, {"ZRANDMEMBER", "z", "1", "WITHSCORES"}, {"ZRANGEBYLEX", "z", "-", "+"}, {"ZPOPMIN", "z"},
				{"RPUSH", "l", nm, nm}, {"LRANGE", "l", "0", "-1"}, {"LINDEX", "l", "0"}, {"LPOP", "l"}, {"RPOP", "l", "1"},
				{"SET", "k", nm}, {"GET", "k"}, {"GETRANGE", "k", "0", "-1"}, {"GETDEL", "k"}, {"ECHO", nm}, {"PING", nm},
				{"PUBSUB", "CHANNELS", nm}, {"PUBSUB", "NUMSUB", nm}, {"SELECT", "0"}}
			if !c12Exchange(ctx, srv, &c, "name-echo", cmds, nil, 7000+ni) || ctx.NReports() >= 4 {
				c.Close()
				return
			}
		}
		c.Close()
		if !c12DeepProbe(ctx, srv, "the name-echo lane") {
			return
		}
	}
	// (l) large pub/sub frames from several publishers to one subscriber that is also being answered
	for i := 0; i < ctx.N(24, 96); i++ {
		if !ctx.Mine(i + 5) {
			continue
		}
		ctx.SetCurrent(fmt.Sprintf("C12 large pub/sub frames %d", i))
		if !c12PubSubLarge(ctx, srv, i) || ctx.NReports() >= 4 {
			return
		}
	}
	// (k) stop-and-wait: a write that ends in the middle of the next command; the complete commands in it must
	// be answered before anything more is sent. And pipelines in which (P)SUBSCRIBE confirmations, which the
	// pub/sub module writes itself, must not overtake the replies of earlier commands.
	for i := 0; i < ctx.N(24, 120); i++ {
		if !ctx.Mine(i + 11) {
			continue
		}
		ctx.SetCurrent(fmt.Sprintf("C12 stop-and-wait %d", i))
		if !c12StopAndWait(ctx, srv, i) || ctx.NReports() >= 4 {
			return
		}
	}
	// (i) reply sizes around the boundaries of the server's write chunks (1 KiB) and read buffer
	{
		var sizes []int
		for k := 1; k <= 9; k++ {
			for d := -20; d <= 6; d++ {
				sizes = append(sizes, k*1024+d)
			}
		}
		for _, base := range []int{16384, 65536} {
			for d := -12; d <= 4; d++ {
				sizes = append(sizes, base+d)
			}
		}
		for si, n := range sizes {
			if !ctx.Mine(si) {
				continue
			}
			ctx.SetCurrent(fmt.Sprintf("C12 reply size %d", n))
			c, err := Dial(srv.port)
			if err != nil {
				ctx.Inconclusive("dial")
				return
			}
			val := strings.Repeat("v", n)
			okx := c12Exchange(ctx, srv, &c, "reply-size", [][]string{{"SET", "size:k", val}, {"GET", "size:k"}, {"PING"}, {"MGET", "size:k", "size:k"}, {"ECHO", val}, {"PING"}}, nil, si)
			c.Close()
			if !okx || ctx.NReports() >= 4 {
				return
			}
		}
	}
	// (b)+(c)+(f) pipelines and segmentations with payload checks
	np := ctx.N(400, 1200)
	for i := 0; i < np; i++ {
		if !ctx.Mine(i) {
			continue
		}
		ctx.SetCurrent(fmt.Sprintf("C12 pipeline %d", i))
		if ctx.NReports() >= 4 || !c12Pipeline(ctx, srv, i) {
			return
		}
	}
	// (d) broken frames
	for i := 0; i < ctx.N(60, 600); i++ {
		if !ctx.Mine(i) {
			continue
		}
		ctx.SetCurrent(fmt.Sprintf("C12 broken frame %d", i))
		if ctx.NReports() >= 4 || !c12Broken(ctx, srv, i) {
			return
		}
	}
	// (e) many connections at once
	if ctx.Shard == 0 {
		var wg sync.WaitGroup
		ok := true
		var mu sync.Mutex
		stormStop := make(chan struct{})
		stormDone := make(chan struct{})
		go func() { c12AdminStorm(ctx, srv, stormStop); close(stormDone) }()
		defer func() { <-stormDone }()
		defer close(stormStop)
		for g := 0; g < 32; g++ {
			wg.Add(1)
			go func(g int) {
				defer wg.Done()
				for j := 0; j < ctx.N(3, 20); j++ {
					if !c12Pipeline(ctx, srv, 100000+g*100+j) {
						mu.Lock()
						ok = false
						mu.Unlock()
						return
					}
				}
			}(g)
		}
		wg.Wait()
		ctx.Class("concurrent|32-connections")
		if !ok {
			return
		}
		if !c12DeepProbe(ctx, srv, "32 pipelining connections and an admin storm") {
			return
		}
	}
	// (h) embedded API vs wire
	if ctx.Shard == 1 || ctx.NShards == 0 {
		c12Embedded(ctx, srv)
	}
}

// c12Exchange sends the commands (one write, or the given segmentation) each followed by a unique
// ECHO sentinel, and checks the replies. It returns false when the check cannot go on.
func c12Exchange(ctx *Ctx, srv *c12Server, cp **Client, lane string, cmds [][]string, cuts []int, salt int) bool {
	c := *cp
	var stream []byte
	ids := make([]string, len(cmds))
	for i, argv := range cmds {
		ids[i] = fmt.Sprintf("sentinel-%d-%d-%d", salt, i, time.Now().UnixNano()%1000003)
		stream = append(stream, resp.Encode(argv...)...)
		stream = append(stream, resp.Encode("ECHO", ids[i])...)
	}
	describe := func() string {
		var sb strings.Builder
		for i, a := range cmds {
			if i > 0 {
				sb.WriteString(" | ")
			}
			sb.WriteString(trunc(Step{Argv: a}.String(), 200))
			if i > 4 {
				sb.WriteString(fmt.Sprintf(" | ...(%d commands)", len(cmds)))
				break
			}
		}
		if len(cuts) > 0 {
			sb.WriteString(fmt.Sprintf(" [stream of %d bytes cut at %v]", len(stream), cuts))
		}
		return sb.String()
	}
	vio := func(kind, what string) bool {
		ctx.Violate(Violation{Kind: kind, Lane: lane, What: what + " — stream: " + describe(),
			Case: map[string]interface{}{"commands": cmds, "cuts": cuts}, Key: fmt.Sprintf("c12|%s|%s|%s", lane, kind, strings.ToLower(cmds[0][0]))})
		// reconnect for the next stream
		c.Close()
		nc, err := Dial(srv.port)
		if err != nil {
			return false
		}
		*cp = nc
		return true
	}
	// write in segments
	prev := 0
	for _, cut := range append(append([]int{}, cuts...), len(stream)) {
		if cut <= prev || cut > len(stream) {
			continue
		}
		if err := c.Send(stream[prev:cut]); err != nil {
			return vio("io", "the server closed the connection while a well-formed stream was being sent: "+err.Error())
		}
		prev = cut
		if len(cuts) > 0 {
			time.Sleep(300 * time.Microsecond)
		}
	}
	ctx.Eval(1)
	ctx.Sample(lane, map[string]interface{}{"commands": cmds, "cuts": cuts})
	for i, argv := range cmds {
		want := expectedReplies(argv)
		got := 0
		var first resp.Value
		for {
			v, raw, err := readPatient(ctx, srv, c, 12*time.Second)
			if err != nil {
				if !srv.alive() {
					ctx.Violate(Violation{Kind: "down", Lane: lane, What: "the server stopped answering PING on a new connection after: " + describe(),
						Case: map[string]interface{}{"commands": cmds}, Key: "c12|down"})
					return false
				}
				return vio("framing", fmt.Sprintf("command %d (%s): while waiting for its reply and sentinel: %v (unparsed bytes %q)", i, trunc(Step{Argv: argv}.String(), 120), err, trunc(string(raw), 80)))
			}
			if t, ok := v.Text(); ok && t == ids[i] && !v.IsError() {
				break
			}
			if got == 0 {
				first = v
			}
			got++
			if got > want+8 {
				return vio("framing", fmt.Sprintf("command %d (%s): more than %d replies before its sentinel", i, trunc(Step{Argv: argv}.String(), 120), got))
			}
		}
		cls := "none"
		if got > 0 {
			cls = outcomeClass(first)
		}
		ctx.Class(fmt.Sprintf("%s|%s|argc=%d|%s", lane, strings.ToLower(argv[0]), len(argv), cls))
		if got != want {
			// the subscribe family with unauthorized/duplicate channels may confirm fewer times only by replying an error once
			if want > 1 && got == 1 && first.IsError() {
				continue
			}
			return vio("reply_count", fmt.Sprintf("command %d (%s) received %d replies before its sentinel, expected exactly %d (first: %s)", i, trunc(Step{Argv: argv}.String(), 160), got, want, trunc(first.String(), 80)))
		}
	}
	// leave subscriptions behind us
	for _, argv := range cmds {
		n := strings.ToLower(argv[0])
		if n == "subscribe" || n == "psubscribe" {
			c.Do("UNSUBSCRIBE")
			c.Do("PUNSUBSCRIBE")
			break
		}
	}
	return true
}

// readPatient reads one reply. A read watchdog that fires while the server still answers on another
// connection decides nothing on a loaded machine: the read is continued, much longer, before the reply
// is called missing.
func readPatient(ctx *Ctx, srv *c12Server, c *Client, first time.Duration) (resp.Value, []byte, error) {
	v, raw, err := c.Read(first)
	if err != nil && isTimeout(err) && srv.alive() {
		ctx.Count("read_watchdog_extended", 1)
		v, raw, err = c.Read(75 * time.Second)
	}
	return v, raw, err
}

func isTimeout(err error) bool {
	var ne net.Error
	return errors.As(err, &ne) && ne.Timeout()
}

var c12Payloads = []string{"a\xffb", "\xe2\x82", "caf\xc3", "\xff\xfe\xfd\xfc", "", "x", "a\r\nb", "\r\n", "nul\x00byte", "$5\r\nhello\r\n", "*1\r\n", "+OK\r\n", "ünï", strings.Repeat("0123456789", 900), strings.Repeat("x0123456789", 900), strings.Repeat("abcdefg", 10000), " lead", "trail "}

// c12Pipeline: store payloads and read them back inside one pipelined (and possibly segmented) stream.
func c12Pipeline(ctx *Ctx, srv *c12Server, i int) bool {
	r := rand.New(rand.NewSource(ctx.Seed*15_000_017 + int64(i)))
	c, err := Dial(srv.port)
	if err != nil {
		ctx.Inconclusive("dial")
		return false
	}
	defer func() { c.Close() }()
	proto3 := i%4 == 3
	if proto3 {
		if v, _, err := c.Do("HELLO", "3"); err != nil || v.IsError() {
			ctx.Violate(Violation{Kind: "hello", Lane: "pipeline", What: fmt.Sprintf("HELLO 3 failed: %v %s", err, v.String()), Case: nil, Key: "c12|hello3"})
			return true
		}
	}
	key := fmt.Sprintf("pk%d", i)
	n := 2 + r.Intn(24)
	var cmds [][]string
	type expect struct {
		idx  int
		want []string // exact texts (bag if unordered)
		bag  bool
	}
	var exps []expect
	var lst []string
	cur := ""
	hasCur := false
	for len(cmds) < n {
		p := c12Payloads[r.Intn(len(c12Payloads))]
		switch r.Intn(9) {
		case 8:
			// a range read of whatever the string key holds: forward, backward (start after end), and windows
			// that cut through multi-byte sequences; only the framing of the reply is decided here
			if hasCur {
				a, b := r.Intn(8)-2, r.Intn(8)-2
				cmds = append(cmds, []string{pickStr(r, []string{"GETRANGE", "SUBSTR"}), key + ":s", strconv.Itoa(a), strconv.Itoa(b)})
			}
		case 0, 1:
			cmds = append(cmds, []string{"SET", key + ":s", p})
			cur, hasCur = p, true
		case 2:
			if hasCur && model_stable(cur) {
				cmds = append(cmds, []string{"GET", key + ":s"})
				exps = append(exps, expect{len(cmds) - 1, []string{cur}, false})
			}
		case 3:
			cmds = append(cmds, []string{"RPUSH", key + ":l", p})
			lst = append(lst, p)
		case 4:
			if len(lst) > 0 {
				cmds = append(cmds, []string{"LRANGE", key + ":l", "0", "-1"})
				exps = append(exps, expect{len(cmds) - 1, append([]string{}, lst...), false})
			}
		case 5:
			cmds = append(cmds, []string{"ECHO", p})
			exps = append(exps, expect{len(cmds) - 1, []string{p}, false})
		case 6:
			cmds = append(cmds, []string{"SADD", key + ":t", p})
		case 7:
			cmds = append(cmds, []string{"PING"})
		}
	}
	// build the stream ourselves so that the replies can be matched with payload expectations
	var stream []byte
	ids := make([]string, len(cmds))
	for k, argv := range cmds {
		ids[k] = fmt.Sprintf("s-%d-%d", i, k)
		stream = append(stream, resp.Encode(argv...)...)
		stream = append(stream, resp.Encode("ECHO", ids[k])...)
	}
	var cuts []int
	switch i % 3 {
	case 1:
		cuts = []int{1 + r.Intn(len(stream)-1)}
	case 2:
		a, b := 1+r.Intn(len(stream)-1), 1+r.Intn(len(stream)-1)
		if a > b {
			a, b = b, a
		}
		cuts = []int{a, b}
	}
	prev := 0
	for _, cut := range append(append([]int{}, cuts...), len(stream)) {
		if cut <= prev {
			continue
		}
		if err := c.Send(stream[prev:cut]); err != nil {
			ctx.Violate(Violation{Kind: "io", Lane: "pipeline", What: "the server closed the connection during a well-formed pipeline: " + err.Error(), Case: map[string]interface{}{"commands": cmds, "cuts": cuts}, Key: "c12|pipeline|io"})
			return true
		}
		prev = cut
		time.Sleep(200 * time.Microsecond)
	}
	ctx.Eval(1)
	replies := make([]resp.Value, len(cmds))
	for k := range cmds {
		got := 0
		for {
			v, raw, err := readPatient(ctx, srv, c, 12*time.Second)
			if err != nil {
				if !srv.alive() {
					ctx.Violate(Violation{Kind: "down", Lane: "pipeline", What: "the server stopped answering PING after a pipeline", Case: map[string]interface{}{"commands": cmds}, Key: "c12|down"})
					return false
				}
				ctx.Violate(Violation{Kind: "framing", Lane: "pipeline",
					What: fmt.Sprintf("pipeline of %d commands in %d write(s) (resp%d): reading the reply of command %d (%s): %v (unparsed %q)", len(cmds), len(cuts)+1, map[bool]int{true: 3, false: 2}[proto3], k, trunc(Step{Argv: cmds[k]}.String(), 100), err, trunc(string(raw), 60)),
					Case: map[string]interface{}{"commands": cmds, "cuts": cuts}, Key: fmt.Sprintf("c12|pipeline|framing|%v", len(cuts) > 0)})
				return true
			}
			if t, ok := v.Text(); ok && t == ids[k] {
				break
			}
			replies[k] = v
			got++
			if got > 3 {
				break
			}
		}
		if got != 1 {
			ctx.Violate(Violation{Kind: "reply_count", Lane: "pipeline",
				What: fmt.Sprintf("pipeline of %d commands in %d write(s): command %d (%s) received %d replies before its sentinel", len(cmds), len(cuts)+1, k, trunc(Step{Argv: cmds[k]}.String(), 100), got),
				Case: map[string]interface{}{"commands": cmds, "cuts": cuts}, Key: fmt.Sprintf("c12|pipeline|count|%v", len(cuts) > 0)})
			return true
		}
	}
	ctx.Class(fmt.Sprintf("pipeline|n=%d|writes=%d|resp3=%v", len(cmds)/8*8, len(cuts)+1, proto3))
	for _, e := range exps {
		v := replies[e.idx]
		var got []string
		if v.IsSeq() {
			for _, x := range v.Elems {
				t, _ := x.Text()
				got = append(got, t)
			}
		} else {
			t, _ := v.Text()
			got = []string{t}
		}
		if fmt.Sprintf("%q", got) != fmt.Sprintf("%q", e.want) {
			ctx.Violate(Violation{Kind: "payload", Lane: "pipeline",
				What: fmt.Sprintf("%s returned %s; the bytes stored by the same stream were %s", trunc(Step{Argv: cmds[e.idx]}.String(), 80), trunc(fmt.Sprintf("%q", got), 200), trunc(fmt.Sprintf("%q", e.want), 200)),
				Case: map[string]interface{}{"commands": cmds}, Key: "c12|payload|" + strings.ToLower(cmds[e.idx][0])})
			return true
		}
		ctx.Class("payload|" + strings.ToLower(cmds[e.idx][0]))
	}
	c.Do("DEL", key+":s", key+":l", key+":t")
	return true
}

// model_stable: payloads the numeric value typing rewrites are listed finding C01-KF1, not C12's business.
func model_stable(s string) bool { return model.AdaptStable(s) }

// c12Broken: truncated, corrupted, inline and oversized frames. The connection may be closed; the process must stay up.
func c12Broken(ctx *Ctx, srv *c12Server, i int) bool {
	r := rand.New(rand.NewSource(ctx.Seed*16_000_057 + int64(i)))
	good := resp.Encode("SET", "bk", "value")
	var frame []byte
	kind := ""
	switch i % 9 {
	case 0:
		kind = "truncated"
		frame = good[:1+r.Intn(len(good)-1)]
	case 1:
		kind = "corrupted-byte"
		frame = append([]byte{}, good...)
		frame[r.Intn(len(frame))] = byte(r.Intn(256))
	case 2:
		kind = "inline"
		frame = []byte(pickStr(r, []string{"PING\r\n", "SET a b\r\n", "GET a\r\n", "\r\n", "   \r\n", "ECHO \"quoted arg\"\r\n", "NOSUCH\r\n"}))
	case 3:
		kind = "oversized-bulk-length"
		frame = []byte(fmt.Sprintf("*2\r\n$4\r\nECHO\r\n$%s\r\nabc\r\n", pickStr(r, []string{"999999999999", "9223372036854775807", "2147483648", "-5", "1e9", ""})))
	case 4:
		kind = "oversized-array-length"
		frame = []byte(fmt.Sprintf("*%s\r\n$4\r\nPING\r\n", pickStr(r, []string{"999999999", "9223372036854775807", "-3", "x", ""})))
	case 5:
		kind = "random-bytes"
		frame = make([]byte, 1+r.Intn(400))
		r.Read(frame)
	case 6:
		kind = "non-array-value"
		frame = []byte(pickStr(r, []string{"+OK\r\n", "-ERR\r\n", ":5\r\n", "$3\r\nabc\r\n", "$-1\r\n", "*-1\r\n", "*0\r\n", "_\r\n", "#t\r\n"}))
	case 7:
		kind = "nested-array"
		frame = []byte("*2\r\n*1\r\n$4\r\nPING\r\n$1\r\nx\r\n")
	case 8:
		kind = "exactly-8192"
		frame = resp.Encode("ECHO", strings.Repeat("e", 8192-len("*2\r\n$4\r\nECHO\r\n$8170\r\n\r\n")))
	}
	conn, err := net.DialTimeout("tcp", fmt.Sprintf("127.0.0.1:%d", srv.port), 2*time.Second)
	if err != nil {
		ctx.Violate(Violation{Kind: "down", Lane: "broken", What: "cannot connect any more", Key: "c12|down"})
		return false
	}
	c := &Client{c: conn}
	_ = c.Send(frame)
	// whatever comes back must be well-formed RESP (or nothing / a close)
	time.Sleep(2 * time.Millisecond)
	rest := c.Drain(30 * time.Millisecond)
	conn.Close()
	ctx.Eval(1)
	ctx.Class("broken|" + kind)
	ctx.Sample("broken|"+kind, map[string]interface{}{"frame": trunc(string(frame), 200), "answer": trunc(string(rest), 200)})
	if len(rest) > 0 {
		if _, err := resp.ParseAll(rest); err != nil && err.Error() != "" && !strings.Contains(err.Error(), "incomplete") {
			ctx.Violate(Violation{Kind: "malformed_reply", Lane: "broken", What: fmt.Sprintf("after a %s frame %q the server sent bytes that are not well-formed RESP: %q (%v)", kind, trunc(string(frame), 80), trunc(string(rest), 120), err),
				Case: map[string]interface{}{"frame": string(frame), "kind": kind}, Key: "c12|broken|malformed|" + kind})
		}
	}
	if !srv.alive() {
		ctx.Violate(Violation{Kind: "down", Lane: "broken", What: fmt.Sprintf("after a %s frame %q the server no longer answers PING on a new connection", kind, trunc(string(frame), 120)),
			Case: map[string]interface{}{"frame": string(frame), "kind": kind}, Key: "c12|down|" + kind})
		return false
	}
	return true
}

func pickStr(r *rand.Rand, xs []string) string { return xs[r.Intn(len(xs))] }

// c12Embedded: the typed embedded API must return what the wire reply of the same command encodes.
func c12Embedded(ctx *Ctx, srv *c12Server) {
	c, err := Dial(srv.port)
	if err != nil {
		return
	}
	defer c.Close()
	s := srv.in.S
	vals := []string{"plain", "", "a\r\nb", "nul\x00", "ünï", strings.Repeat("z", 5000), "with space"}
	for i, v := range vals {
		k := fmt.Sprintf("emb%d", i)
		c.Do("SET", k, v)
		c.Do("RPUSH", k+":l", v, "second")
		c.Do("HSET", k+":h", "f", v)
		c.Do("SADD", k+":t", v)
		c.Do("ZADD", k+":z", "1.5", v)
		type probe struct {
			name string
			wire []string
			api  func() (string, error)
		}
		join := func(xs []string) string { sort.Strings(xs); return fmt.Sprintf("%q", xs) }
		probes := []probe{
			{"GET", []string{"GET", k}, func() (string, error) { r, e := s.Get(k); return fmt.Sprintf("%q", []string{r}), e }},
			{"STRLEN", []string{"STRLEN", k}, func() (string, error) { r, e := s.StrLen(k); return fmt.Sprintf("%q", []string{strconv.Itoa(r)}), e }},
			{"LRANGE", []string{"LRANGE", k + ":l", "0", "-1"}, func() (string, error) { r, e := s.LRange(k+":l", 0, -1); return fmt.Sprintf("%q", r), e }},
			{"LLEN", []string{"LLEN", k + ":l"}, func() (string, error) {
				r, e := s.LLen(k + ":l")
				return fmt.Sprintf("%q", []string{strconv.Itoa(r)}), e
			}},
			{"LINDEX", []string{"LINDEX", k + ":l", "0"}, func() (string, error) { r, e := s.LIndex(k+":l", 0); return fmt.Sprintf("%q", []string{r}), e }},
			{"SMEMBERS", []string{"SMEMBERS", k + ":t"}, func() (string, error) { r, e := s.SMembers(k + ":t"); return join(r), e }},
			{"SCARD", []string{"SCARD", k + ":t"}, func() (string, error) {
				r, e := s.SCard(k + ":t")
				return fmt.Sprintf("%q", []string{strconv.Itoa(r)}), e
			}},
			{"HLEN", []string{"HLEN", k + ":h"}, func() (string, error) {
				r, e := s.HLen(k + ":h")
				return fmt.Sprintf("%q", []string{strconv.Itoa(r)}), e
			}},
			{"ZCARD", []string{"ZCARD", k + ":z"}, func() (string, error) {
				r, e := s.ZCard(k + ":z")
				return fmt.Sprintf("%q", []string{strconv.Itoa(r)}), e
			}},
			{"TYPE", []string{"TYPE", k + ":l"}, func() (string, error) { r, e := s.Type(k + ":l"); return fmt.Sprintf("%q", []string{r}), e }},
			{"MGET", []string{"MGET", k, "absent-key"}, func() (string, error) { r, e := s.MGet(k, "absent-key"); return fmt.Sprintf("%q", r), e }},
		}
		for _, p := range probes {
			w, _, err := c.Do(p.wire...)
			if err != nil {
				continue
			}
			var wt []string
			if w.IsSeq() {
				for _, x := range w.Elems {
					t, _ := x.Text()
					wt = append(wt, t)
				}
				if p.name == "SMEMBERS" {
					sort.Strings(wt)
				}
			} else {
				t, _ := w.Text()
				wt = []string{t}
			}
			a, aerr := p.api()
			ctx.Eval(1)
			ctx.Class("embedded|" + p.name)
			if aerr != nil || a != fmt.Sprintf("%q", wt) {
				ctx.Violate(Violation{Kind: "embedded_mismatch", Lane: "embedded",
					What: fmt.Sprintf("%s: the wire reply decodes to %s but the embedded API returned %s (error %v) for value %q", p.name, trunc(fmt.Sprintf("%q", wt), 160), trunc(a, 160), aerr, trunc(v, 40)),
					Case: map[string]interface{}{"command": p.wire, "value": v}, Key: "c12|embedded|" + p.name})
			}
		}
	}
}

// c12StopAndWait: see lane (k).
func c12StopAndWait(ctx *Ctx, srv *c12Server, i int) bool {
	r := rand.New(rand.NewSource(ctx.Seed*18_000_041 + int64(i)))
	c, err := Dial(srv.port)
	if err != nil {
		ctx.Inconclusive("dial")
		return false
	}
	defer c.Close()
	id := func(k int) string { return fmt.Sprintf("sw-%d-%d-%d", i, k, ctx.Seed) }
	if i%3 == 2 {
		// ECHO, SUBSCRIBE, ECHO-less tail: the confirmation must come after the ECHO's reply
		ch := fmt.Sprintf("swch%d", i)
		stream := append(append(resp.Encode("ECHO", id(0)), resp.Encode("SET", "sw:k", "v")...), resp.Encode("SUBSCRIBE", ch)...)
		if r.Intn(2) == 0 {
			stream = append(append(resp.Encode("ECHO", id(0)), resp.Encode("GET", "sw:k")...), resp.Encode("PSUBSCRIBE", ch+"*")...)
		}
		_ = c.Send(stream)
		ctx.Eval(1)
		ctx.Class("stop-and-wait|subscribe-after-commands")
		var got []string
		for k := 0; k < 3; k++ {
			v, raw, err := readPatient(ctx, srv, c, 12*time.Second)
			if err != nil {
				ctx.Violate(Violation{Kind: "framing", Lane: "stop-and-wait", What: fmt.Sprintf("pipeline ECHO | SET/GET | (P)SUBSCRIBE: reply %d: %v (unparsed %q; replies so far %v)", k, err, trunc(string(raw), 80), got),
					Case: map[string]interface{}{"stream": string(stream)}, Key: "c12|stop-and-wait|subscribe|io"})
				return srv.alive()
			}
			got = append(got, trunc(v.String(), 60))
		}
		if !strings.Contains(got[0], id(0)) || !strings.Contains(strings.ToLower(got[2]), "subscribe") {
			ctx.Violate(Violation{Kind: "order", Lane: "stop-and-wait", What: fmt.Sprintf("pipeline ECHO | SET/GET | (P)SUBSCRIBE was answered in the order %v: the subscription confirmation must follow the replies of the commands before it", got),
				Case: map[string]interface{}{"stream": string(stream)}, Key: "c12|stop-and-wait|subscribe|order"})
		}
		return true
	}
	// k complete commands and the first bytes of the next one in a single write
	n := 1 + r.Intn(4)
	var first []byte
	for k := 0; k < n; k++ {
		first = append(first, resp.Encode("ECHO", id(k))...)
	}
	next := resp.Encode("ECHO", id(n))
	cut := 1 + r.Intn(len(next)-1)
	if err := c.Send(append(first, next[:cut]...)); err != nil {
		ctx.Inconclusive("send")
		return true
	}
	ctx.Eval(1)
	ctx.Class(fmt.Sprintf("stop-and-wait|complete=%d|partial-bytes=%d", n, cut))
	for k := 0; k < n; k++ {
		v, raw, err := readPatient(ctx, srv, c, 8*time.Second)
		if err != nil {
			// confirm that the reply was being withheld: it arrives once the rest of the next command is sent
			_ = c.Send(next[cut:])
			v2, _, err2 := c.Read(8 * time.Second)
			ctx.Violate(Violation{Kind: "withheld", Lane: "stop-and-wait",
				What: fmt.Sprintf("%d complete ECHO commands followed by the first %d bytes of another one in a single write: reply %d did not arrive within 8 s (%v, unparsed %q); after the rest of the command was sent the connection answered %s (%v): replies to complete commands were withheld until more input arrived", n, cut, k, err, trunc(string(raw), 60), trunc(v2.String(), 60), err2),
				Case: map[string]interface{}{"complete": n, "cut": cut}, Key: "c12|stop-and-wait|withheld"})
			return srv.alive()
		}
		if t, _ := v.Text(); t != id(k) {
			ctx.Violate(Violation{Kind: "framing", Lane: "stop-and-wait", What: fmt.Sprintf("reply %d is %s, expected the echo of %s", k, trunc(v.String(), 60), id(k)),
				Case: map[string]interface{}{"complete": n, "cut": cut}, Key: "c12|stop-and-wait|wrong"})
			return true
		}
	}
	_ = c.Send(next[cut:])
	if v, _, err := readPatient(ctx, srv, c, 12*time.Second); err != nil || !strings.Contains(v.String(), id(n)) {
		ctx.Violate(Violation{Kind: "framing", Lane: "stop-and-wait", What: fmt.Sprintf("the command completed by the second write was answered with %s (%v)", trunc(v.String(), 60), err),
			Case: map[string]interface{}{"complete": n, "cut": cut}, Key: "c12|stop-and-wait|tail"})
	}
	return true
}


// c12DeepProbe: "other connections are unaffected" — after hostile input on one connection, a fresh pair of
// connections must still be able to do what any client can do: a keyspace round trip, a subscription with a
// delivery, an unsubscription, and PUBSUB introspection. (A PING alone does not notice, for example, a lock
// of the pub/sub table that a panicking handler never released.) Watchdogs are the patient ones of Client.Do.
func c12DeepProbe(ctx *Ctx, srv *c12Server, after string) bool {
	fail := func(what string) bool {
		ctx.Violate(Violation{Kind: "other_connections", Lane: "deep-probe", What: fmt.Sprintf("after %s: %s", trunc(after, 200), what),
			Case: map[string]interface{}{"after": after}, Key: "c12|deep-probe|" + strings.SplitN(what, ":", 2)[0]})
		return false
	}
	a, err := Dial(srv.port)
	if err != nil {
		return fail("a new connection could not be opened: " + err.Error())
	}
	defer a.Close()
	b, err := Dial(srv.port)
	if err != nil {
		return fail("a new connection could not be opened: " + err.Error())
	}
	defer b.Close()
	ctx.Count("deep_probes", 1)
	ch := fmt.Sprintf("probe:ch:%d", os.Getpid())
	if v, _, err := a.Do("SET", "probe:k", "v"); err != nil || v.IsError() {
		return fail(fmt.Sprintf("SET on a new connection: %v %s", err, v.String()))
	}
	if v, _, err := a.Do("GET", "probe:k"); err != nil || v.IsError() {
		return fail(fmt.Sprintf("GET on a new connection: %v %s", err, v.String()))
	}
	if v, _, err := a.Do("SUBSCRIBE", ch); err != nil || !v.IsSeq() {
		return fail(fmt.Sprintf("SUBSCRIBE on a new connection: no confirmation (%v %s)", err, trunc(v.String(), 80)))
	}
	if v, _, err := b.Do("PUBLISH", ch, "hello"); err != nil || v.IsError() {
		return fail(fmt.Sprintf("PUBLISH on a new connection: %v %s", err, v.String()))
	}
	if v, _, err := a.Read(80 * time.Second); err != nil || !strings.Contains(v.String(), "hello") {
		return fail(fmt.Sprintf("delivery to a new subscriber: the published message did not arrive (%v %s)", err, trunc(v.String(), 80)))
	}
	if v, _, err := a.Do("UNSUBSCRIBE", ch); err != nil || !v.IsSeq() {
		return fail(fmt.Sprintf("UNSUBSCRIBE on a new connection: %v %s", err, trunc(v.String(), 80)))
	}
	if v, _, err := b.Do("PUBSUB", "CHANNELS"); err != nil || !v.IsSeq() {
		return fail(fmt.Sprintf("PUBSUB CHANNELS on a new connection: %v %s", err, trunc(v.String(), 80)))
	}
	if v, _, err := b.Do("PUBSUB", "NUMPAT"); err != nil || v.IsError() {
		return fail(fmt.Sprintf("PUBSUB NUMPAT on a new connection: %v %s", err, trunc(v.String(), 80)))
	}
	b.Do("DEL", "probe:k")
	return true
}

// c12PubSubLarge: one subscriber connection receives large messages (6 KB, larger than any single buffer
// the server may use) from four publishers on four channels at once, while its own SUBSCRIBE / UNSUBSCRIBE
// requests are being answered on the same socket. Every frame the subscriber receives must be well formed
// (strict parser), every message must arrive exactly once, whole, and in its publisher's order.
func c12PubSubLarge(ctx *Ctx, srv *c12Server, i int) bool {
	sub, err := Dial(srv.port)
	if err != nil {
		ctx.Inconclusive("dial")
		return true
	}
	defer sub.Close()
	const nPub, nMsg = 6, 120
	chans := make([]string, nPub)
	for p := range chans {
		chans[p] = fmt.Sprintf("big:%d:%d", i, p)
	}
	if err := sub.Send(resp.Encode(append([]string{"SUBSCRIBE"}, chans...)...)); err != nil {
		return true
	}
	for k := 0; k < nPub; k++ {
		if v, raw, err := sub.Read(80 * time.Second); err != nil || !v.IsSeq() {
			ctx.Violate(Violation{Kind: "framing", Lane: "pubsub-large", What: fmt.Sprintf("SUBSCRIBE to %d channels: confirmation %d: %v %q", nPub, k, err, trunc(string(raw), 60)), Key: "c12|pubsub-large|confirm"})
			return true
		}
	}
	body := strings.Repeat("0123456789abcdef", 375) // 6000 bytes
	var wg sync.WaitGroup
	var pubErr atomic.Value
	for p := 0; p < nPub; p++ {
		wg.Add(1)
		go func(p int) {
			defer wg.Done()
			c, err := Dial(srv.port)
			if err != nil {
				return
			}
			defer c.Close()
			var stream []byte
			for m := 0; m < nMsg; m++ {
				payload := fmt.Sprintf("p%d-m%03d-", p, m)
				if m%3 != 2 {
					payload += body
				}
				stream = append(stream, resp.Encode("PUBLISH", chans[p], payload)...)
			}
			if err := c.Send(stream); err != nil {
				pubErr.Store(err.Error())
				return
			}
			for m := 0; m < nMsg; m++ {
				if v, _, err := c.Read(80 * time.Second); err != nil || v.IsError() {
					pubErr.Store(fmt.Sprintf("publisher %d reply %d: %v %s", p, m, err, v.String()))
					return
				}
			}
		}(p)
	}
	// the subscriber's own requests, answered on the same socket while deliveries are in flight
	extra := fmt.Sprintf("big:%d:x", i)
	churn := 12
	go func() {
		for k := 0; k < churn; k++ {
			_ = sub.Send(resp.Encode("SUBSCRIBE", extra))
			time.Sleep(300 * time.Microsecond)
			_ = sub.Send(resp.Encode("UNSUBSCRIBE", extra))
			time.Sleep(300 * time.Microsecond)
		}
	}()
	next := make([]int, nPub)
	got, confirms := 0, 0
	for got < nPub*nMsg || confirms < 2*churn {
		v, raw, err := sub.Read(80 * time.Second)
		if err != nil {
			what := fmt.Sprintf("after %d of %d messages and %d of %d confirmations the subscriber's stream is broken: %v (unparsed %q)", got, nPub*nMsg, confirms, 2*churn, err, trunc(string(raw), 80))
			if pe, _ := pubErr.Load().(string); pe != "" {
				what += "; " + pe
			}
			ctx.Violate(Violation{Kind: "framing", Lane: "pubsub-large", What: "one subscriber, six publishers of 6 KB messages, own requests on the same socket: " + what,
				Case: map[string]interface{}{"publishers": nPub, "messages_each": nMsg}, Key: "c12|pubsub-large|framing"})
			wg.Wait()
			return srv.alive()
		}
		if !v.IsSeq() || len(v.Elems) == 0 {
			ctx.Violate(Violation{Kind: "framing", Lane: "pubsub-large", What: "the subscriber received a frame that is neither a message nor a confirmation: " + trunc(v.String(), 120), Key: "c12|pubsub-large|frame"})
			wg.Wait()
			return true
		}
		kind, _ := v.Elems[0].Text()
		if v.Elems[0].IsSeq() || strings.Contains(strings.ToLower(kind), "subscribe") {
			confirms++ // subscribe confirmation or the nested unsubscribe reply
			continue
		}
		if kind != "message" || len(v.Elems) != 3 {
			ctx.Violate(Violation{Kind: "framing", Lane: "pubsub-large", What: "the subscriber received an unexpected frame: " + trunc(v.String(), 120), Key: "c12|pubsub-large|frame"})
			wg.Wait()
			return true
		}
		data, _ := v.Elems[2].Text()
		var p, m int
		if _, err := fmt.Sscanf(data, "p%d-m%03d-", &p, &m); err != nil || p < 0 || p >= nPub {
			ctx.Violate(Violation{Kind: "payload", Lane: "pubsub-large", What: "the subscriber received a message nobody published: " + trunc(data, 60), Key: "c12|pubsub-large|spurious"})
			wg.Wait()
			return true
		}
		wantLen := len(fmt.Sprintf("p%d-m%03d-", p, m))
		if m%3 != 2 {
			wantLen += len(body)
		}
		if m != next[p] || len(data) != wantLen {
			ctx.Violate(Violation{Kind: "payload", Lane: "pubsub-large", What: fmt.Sprintf("publisher %d: expected message %d of %d bytes next, received message %d of %d bytes (lost, duplicated, reordered or truncated)", p, next[p], wantLen, m, len(data)), Key: "c12|pubsub-large|order"})
			wg.Wait()
			return true
		}
		next[p]++
		got++
	}
	wg.Wait()
	ctx.Eval(1)
	ctx.Count("pubsub_large_messages", int64(got))
	ctx.Class("pubsub-large|6-publishers|6KB")
	return true
}

// c12AdminStorm: connections that change connection-level state (SWAPDB of two databases nobody uses, SELECT,
// HELLO) as fast as they can while others pipeline; every command must be answered and the process must live.
func c12AdminStorm(ctx *Ctx, srv *c12Server, stop chan struct{}) {
	roles := [][][]string{
		{{"SWAPDB", "5", "6"}}, {{"SWAPDB", "6", "5"}},
		{{"SELECT", "5"}, {"SET", "storm:k", "v"}, {"SELECT", "6"}, {"GET", "storm:k"}},
		{{"HELLO", "3"}, {"PING"}, {"HELLO", "2"}, {"ECHO", "x"}},
	}
	var wg sync.WaitGroup
	var n atomic.Int64
	for ri, cmds := range roles {
		wg.Add(1)
		go func(ri int, cmds [][]string) {
			defer wg.Done()
			c, err := Dial(srv.port)
			if err != nil {
				return
			}
			defer c.Close()
			for k := 0; ; k++ {
				select {
				case <-stop:
					return
				default:
				}
				argv := cmds[k%len(cmds)]
				v, _, err := c.Do(argv...)
				n.Add(1)
				if err != nil || (v.IsError() && argv[0] != "HELLO") {
					ctx.Violate(Violation{Kind: "reply", Lane: "admin-storm", What: fmt.Sprintf("%s while other connections pipeline and swap databases: %v %s", Step{Argv: argv}.String(), err, trunc(v.String(), 100)),
						Case: map[string]interface{}{"argv": argv}, Key: "c12|admin-storm|" + strings.ToLower(argv[0])})
					return
				}
			}
		}(ri, cmds)
	}
	wg.Wait()
	ctx.Count("admin_storm_commands", n.Load())
	ctx.Class("concurrent|admin-storm")
}
