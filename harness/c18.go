package main

import (
	"fmt"
	"math/rand"
	"os"
	"sort"
	"strconv"
	"strings"
	"sync"
	"sync/atomic"
	"time"

	"verif/harness/resp"
)

func init() {
	registerCheck("C18", "exploration", checkC18)
}

// globMatch implements * and ? (the only metacharacters the histories use), independently of the server.
func globMatch(p, s string) bool {
	if p == "" {
		return s == ""
	}
	switch p[0] {
	case '*':
		for i := 0; i <= len(s); i++ {
			if globMatch(p[1:], s[i:]) {
				return true
			}
		}
		return false
	case '?':
		return s != "" && globMatch(p[1:], s[1:])
	}
	return s != "" && p[0] == s[0] && globMatch(p[1:], s[1:])
}

type psEvent struct {
	T    int64
	Kind string // message | confirm | unsubreply | other
	A    string // action / "message"
	Name string // channel or pattern name carried by the frame
	Data string // payload or count
	Raw  resp.Value
}

// psConn is one subscriber connection with a reader goroutine that timestamps everything it receives.
type psConn struct {
	name   string
	c      *Client // nil for an embedded subscriber
	in     *Inst   // embedded subscriber: the instance whose Subscribe/PSubscribe API is used
	tag    string  // embedded subscriber: the tag that names its connection inside the server
	readFn func() []string
	mu     sync.Mutex
	events []psEvent
	clock  *atomic.Int64
	dead   atomic.Bool
	malf   string
}

func (p *psConn) reader() {
	for {
		v, _, err := p.c.Read(60 * time.Second)
		if err != nil {
			p.dead.Store(true)
			if !strings.Contains(err.Error(), "closed") && !strings.Contains(err.Error(), "EOF") && !strings.Contains(err.Error(), "timeout") {
				p.mu.Lock()
				p.malf = err.Error()
				p.mu.Unlock()
			}
			return
		}
		e := psEvent{T: p.clock.Add(1), Kind: "other", Raw: v}
		if v.IsSeq() && len(v.Elems) == 3 {
			a, _ := v.Elems[0].Text()
			n, _ := v.Elems[1].Text()
			d, _ := v.Elems[2].Text()
			e.A, e.Name, e.Data = strings.ToLower(a), n, d
			switch e.A {
			case "message", "pmessage":
				e.Kind = "message"
			case "subscribe", "psubscribe":
				e.Kind = "confirm"
			}
		}
		if e.Kind == "other" && v.IsSeq() {
			// UNSUBSCRIBE replies: an array of [action, name, n] triples (possibly empty)
			ok := true
			for _, x := range v.Elems {
				if !x.IsSeq() || len(x.Elems) != 3 {
					ok = false
				}
			}
			if ok {
				e.Kind = "unsubreply"
			}
		}
		p.mu.Lock()
		p.events = append(p.events, e)
		p.mu.Unlock()
	}
}

var embTagSeq atomic.Int64

// embReader reads what the embedded subscription API delivers (one call = one message or confirmation).
func (p *psConn) embReader(read func() []string) {
	empty := 0
	for !p.dead.Load() {
		arr := read()
		if len(arr) == 0 {
			empty++
			if empty > 50 {
				p.dead.Store(true)
				return
			}
			time.Sleep(time.Millisecond)
			continue
		}
		empty = 0
		e := psEvent{T: p.clock.Add(1), Kind: "other"}
		if len(arr) == 3 {
			e.A, e.Name, e.Data = strings.ToLower(arr[0]), arr[1], arr[2]
			switch e.A {
			case "message", "pmessage":
				e.Kind = "message"
			case "subscribe", "psubscribe":
				e.Kind = "confirm"
			}
		}
		if e.Kind == "other" {
			p.mu.Lock()
			p.malf = fmt.Sprintf("embedded subscriber read %q", arr)
			p.mu.Unlock()
		}
		p.mu.Lock()
		p.events = append(p.events, e)
		p.mu.Unlock()
	}
}

// send issues a (P)SUBSCRIBE / (P)UNSUBSCRIBE on behalf of the subscriber. For an embedded subscriber
// the unsubscribe calls return nothing: the reply the checker works with is synthesised from the
// names it asked for (withdrawn), after the synchronous call has returned.
func (p *psConn) send(cmd string, names []string, withdrawn []string) error {
	if p.c != nil {
		return p.c.Send(resp.Encode(append([]string{cmd}, names...)...))
	}
	switch cmd {
	case "SUBSCRIBE", "PSUBSCRIBE":
		var fn func() []string
		var err error
		if cmd == "SUBSCRIBE" {
			var f sugardbReadFn
			f, err = p.in.S.Subscribe(p.tag, names...)
			fn = f
		} else {
			var f sugardbReadFn
			f, err = p.in.S.PSubscribe(p.tag, names...)
			fn = f
		}
		if err != nil {
			return err
		}
		if p.readFn == nil {
			p.readFn = fn
			go p.embReader(fn)
		}
	case "UNSUBSCRIBE", "PUNSUBSCRIBE":
		if cmd == "UNSUBSCRIBE" {
			p.in.S.Unsubscribe(p.tag, names...)
		} else {
			p.in.S.PUnsubscribe(p.tag, names...)
		}
		var elems []resp.Value
		for _, nm := range withdrawn {
			elems = append(elems, resp.Value{Kind: resp.Array, Elems: []resp.Value{
				{Kind: resp.Bulk, Str: strings.ToLower(cmd)}, {Kind: resp.Bulk, Str: nm}, {Kind: resp.Int, Int: 0}}})
		}
		p.mu.Lock()
		p.events = append(p.events, psEvent{T: p.clock.Add(1), Kind: "unsubreply", Raw: resp.Value{Kind: resp.Array, Elems: elems}})
		p.mu.Unlock()
	}
	return nil
}

func (p *psConn) close() {
	if p.c != nil {
		p.c.Close()
		return
	}
	p.dead.Store(true)
}

func (p *psConn) count(kind string) int {
	p.mu.Lock()
	defer p.mu.Unlock()
	n := 0
	for _, e := range p.events {
		if e.Kind == kind {
			n++
		}
	}
	return n
}

// waitCount waits for the n-th event of a kind. A watchdog of ten seconds or more that fires is extended
// once by a minute (a loaded machine decides nothing; a reply that never comes is still reported, later);
// the extensions are counted.
func (p *psConn) waitCount(kind string, n int, d time.Duration) bool {
	deadline := time.Now().Add(d)
	extended := false
	for p.count(kind) < n {
		if p.dead.Load() {
			return false
		}
		if time.Now().After(deadline) {
			if extended || d < 10*time.Second {
				return false
			}
			extended = true
			c18WatchdogExtended.Add(1)
			deadline = time.Now().Add(60 * time.Second)
		}
		time.Sleep(200 * time.Microsecond)
	}
	return true
}

var c18WatchdogExtended atomic.Int64

type sugardbReadFn = func() []string

type psSub struct {
	conn      string
	name      string
	pattern   bool
	confirmed int64 // logical time the confirmation was received
	unsubSent int64 // logical time the unsubscribe request was sent (0 = never)
}

type psPub struct {
	id        string
	channel   string
	publisher int
	seq       int
	call, ret int64
}

func checkC18(ctx *Ctx) {
	ctx.Rule("one evaluation = one history of SUBSCRIBE/PSUBSCRIBE/UNSUBSCRIBE/PUNSUBSCRIBE/PUBLISH over 2-4 subscribers (TCP connections; in every second history one of them is an embedded subscriber using the Subscribe/PSubscribe/Unsubscribe/PUnsubscribe API) and 1-3 publishers (TCP and embedded), 4 channels and the patterns a*, ?b, *, with bursts of 50-500 publishes, " +
		"recorded at the client boundary on one logical clock and closed by a drain (a final marker per channel). Interval rules: a message is received only through a subscription that existed while it was published, at most once per (message, connection, subscription), " +
		"every message published after a subscription was confirmed and before it was withdrawn is received, messages of one publisher on one channel arrive in publish order, confirmations carry the running count, and PUBSUB CHANNELS/NUMSUB/NUMPAT equal the reference table at quiescent points. " +
		"distinct_nontrivial = distinct (rule, subscription kind, burst size class, overlap class) checked")
	ctx.Assume("'not received' is decided only after the drain marker of the same channel object has arrived (delivery per channel is FIFO); a drain watchdog firing is inconclusive",
		"subscriptions that overlap a publish in time may or may not receive it (at most once)")
	if ctx.Fork(8, "", ctx.Watchdog()) {
		return
	}
	quietLogs()
	for i := 0; i < ctx.N(2, 12); i++ {
		if ctx.Mine(i) && !inRaceLane() { // the 48 MB burst is too slow under the race detector to decide anything

			ctx.SetCurrent(fmt.Sprintf("C18 stalled-subscriber burst %d", i))
			c18Stalled(ctx, i)
		}
	}
	n := ctx.N(64, 1200)
	for i := 0; i < n; i++ {
		if !ctx.Mine(i) {
			continue
		}
		ctx.SetCurrent(fmt.Sprintf("C18 history %d seed %d", i, ctx.Seed))
		c18History(ctx, i)
	}
	for i := 0; i < ctx.N(24, 240); i++ {
		if ctx.Mine(i) {
			ctx.SetCurrent(fmt.Sprintf("C18 concurrent history %d seed %d", i, ctx.Seed))
			c18Concurrent(ctx, i)
		}
	}
}

// c18Concurrent: the subscription table under concurrent use. Several connections subscribe at the same
// moment to the same names and patterns that nobody has subscribed to before; publishers publish to them;
// two connections leave and re-join a channel again and again while messages are being fanned out to the
// ones that stay; two connections withdraw the same pattern at the same moment, round after round. The
// recorded history goes through the same interval checker as the sequential histories (exactly once,
// in order, only through subscriptions alive during the publish, nothing lost), and PUBSUB CHANNELS /
// NUMSUB / NUMPAT are compared with the reference table at the quiescent points between the phases.
func c18Concurrent(ctx *Ctx, i int) {
	port := freePort()
	in, err := NewInst(InstOpts{Extra: withTCP(port)})
	if err != nil {
		ctx.Broken(err.Error())
		return
	}
	defer in.Close()
	if err := in.StartTCP(port); err != nil {
		ctx.Inconclusive("listener did not come up")
		return
	}
	var clock atomic.Int64
	const K = 5
	var conns []*psConn
	for k := 0; k < K; k++ {
		c, err := Dial(port)
		if err != nil {
			ctx.Inconclusive("dial")
			return
		}
		pc := &psConn{name: fmt.Sprintf("s%d", k), c: c, clock: &clock}
		conns = append(conns, pc)
		go pc.reader()
	}
	defer func() {
		for _, c := range conns {
			c.close()
		}
	}()
	admin, err := Dial(port)
	if err != nil {
		ctx.Inconclusive("dial")
		return
	}
	defer admin.Close()
	var pubClients []*Client
	for p := 0; p < 2; p++ {
		c, err := Dial(port)
		if err != nil {
			ctx.Inconclusive("dial")
			return
		}
		defer c.Close()
		pubClients = append(pubClients, c)
	}
	var trace []string
	var mu sync.Mutex
	var subs []*psSub
	var pubs []*psPub
	var failed atomic.Bool
	fail := func(kind, what string) {
		failed.Store(true)
		mu.Lock()
		tr := append([]string{}, trace...)
		mu.Unlock()
		ctx.Violate(Violation{Kind: kind, Lane: "pubsub-concurrent", What: what, Case: map[string]interface{}{"phases": tr, "index": i, "seed": ctx.Seed}, Key: "c18|concurrent|" + kind})
	}
	note := func(s string) { mu.Lock(); trace = append(trace, s); mu.Unlock() }
	seqs := make([]int, len(pubClients))
	publish := func(p int, ch string) *psPub {
		mu.Lock()
		seqs[p]++
		pb := &psPub{id: fmt.Sprintf("c-%d-%d-%d", i, p, seqs[p]), channel: ch, publisher: p, seq: seqs[p]}
		pubs = append(pubs, pb)
		mu.Unlock()
		pb.call = clock.Add(1)
		v, _, err := pubClients[p].Do("PUBLISH", ch, pb.id)
		if err != nil || v.IsError() {
			fail("publish", fmt.Sprintf("PUBLISH %s failed: %v %s", ch, err, v.String()))
		}
		pb.ret = clock.Add(1)
		return pb
	}
	// each connection is driven by one goroutine at a time
	subscribe := func(pc *psConn, pattern bool, names []string) bool {
		cmd := map[bool]string{false: "SUBSCRIBE", true: "PSUBSCRIBE"}[pattern]
		before := pc.count("confirm")
		if err := pc.send(cmd, names, nil); err != nil {
			return false
		}
		if !pc.waitCount("confirm", before+len(names), 10*time.Second) {
			fail("confirmation", fmt.Sprintf("%s %v on %s (sent while other connections were subscribing): %d confirmation(s) expected, %d received", cmd, names, pc.name, len(names), pc.count("confirm")-before))
			return false
		}
		pc.mu.Lock()
		var confs []psEvent
		for _, e := range pc.events {
			if e.Kind == "confirm" {
				confs = append(confs, e)
			}
		}
		pc.mu.Unlock()
		confs = confs[before:]
		mu.Lock()
		for k, nm := range names {
			if k < len(confs) {
				subs = append(subs, &psSub{conn: pc.name, name: nm, pattern: pattern, confirmed: confs[k].T})
			}
		}
		mu.Unlock()
		return true
	}
	unsubscribe := func(pc *psConn, pattern bool, name string) bool {
		cmd := map[bool]string{false: "UNSUBSCRIBE", true: "PUNSUBSCRIBE"}[pattern]
		t := clock.Add(1)
		before := pc.count("unsubreply")
		if err := pc.send(cmd, []string{name}, nil); err != nil {
			return false
		}
		if !pc.waitCount("unsubreply", before+1, 10*time.Second) {
			fail("confirmation", fmt.Sprintf("%s %s on %s: no reply", cmd, name, pc.name))
			return false
		}
		mu.Lock()
		for _, sb := range subs {
			if sb.conn == pc.name && sb.name == name && sb.pattern == pattern && sb.unsubSent == 0 {
				sb.unsubSent = t
			}
		}
		mu.Unlock()
		return true
	}
	together := func(n int, f func(k int)) {
		start := make(chan struct{})
		var wg sync.WaitGroup
		for k := 0; k < n; k++ {
			wg.Add(1)
			go func(k int) {
				defer wg.Done()
				<-start
				f(k)
			}(k)
		}
		close(start)
		wg.Wait()
	}
	introspect := func(names []string) {
		mu.Lock()
		cp := append([]*psSub{}, subs...)
		mu.Unlock()
		var tr []string
		c18IntrospectNames(ctx, admin, cp, fail, &tr, names)
	}
	names := []string{"fa1", "fa2", "fa3", "fa4", "fa5", "fa6"}
	pats := []string{"fa?", "f*6"}
	// phase A: everybody subscribes at once to names and patterns nobody has used before
	note(fmt.Sprintf("A: %d connections SUBSCRIBE %v and PSUBSCRIBE %v at the same moment", K, names, pats))
	together(K, func(k int) {
		if k%2 == 0 {
			subscribe(conns[k], false, names)
			subscribe(conns[k], true, pats)
		} else {
			subscribe(conns[k], true, pats)
			subscribe(conns[k], false, names)
		}
	})
	if failed.Load() {
		return
	}
	introspect(names)
	// phase B: two publishers at once, every name
	note("B: 2 publishers x 30 messages over all names")
	together(2, func(p int) {
		for j := 0; j < 30; j++ {
			publish(p, names[(j+p)%len(names)])
		}
	})
	// phase C: two connections leave and re-join fa1 while messages are fanned out to those that stay
	note("C: s3 and s4 UNSUBSCRIBE/SUBSCRIBE fa1 15 times each while 2 publishers send 2 x 100 messages to fa1")
	together(4, func(k int) {
		switch k {
		case 0, 1:
			for j := 0; j < 100 && !failed.Load(); j++ {
				publish(k, "fa1")
			}
		default:
			pc := conns[k+1] // s3, s4
			for j := 0; j < 15 && !failed.Load(); j++ {
				if !unsubscribe(pc, false, "fa1") || !subscribe(pc, false, []string{"fa1"}) {
					return
				}
			}
		}
	})
	if failed.Load() {
		return
	}
	introspect(names)
	// phase D: two connections withdraw the same pattern at the same moment, round after round
	note("D: s3 and s4 PSUBSCRIBE cp* and PUNSUBSCRIBE cp* at the same moment, 20 rounds")
	for round := 0; round < 20 && !failed.Load(); round++ {
		together(2, func(k int) { subscribe(conns[3+k], true, []string{"cp*"}) })
		together(2, func(k int) { unsubscribe(conns[3+k], true, "cp*") })
		if round%5 == 4 {
			introspect(names)
		}
	}
	if failed.Load() {
		return
	}
	// drain: one marker per name; every subscription still alive must see it
	markers := map[string]*psPub{}
	for _, ch := range names {
		markers[ch] = publish(0, ch)
	}
	deadline := time.Now().Add(30 * time.Second)
	mu.Lock()
	cp := append([]*psSub{}, subs...)
	mu.Unlock()
	for _, sb := range cp {
		if sb.unsubSent != 0 {
			continue
		}
		for _, ch := range names {
			if !((!sb.pattern && sb.name == ch) || (sb.pattern && globMatch(sb.name, ch))) {
				continue
			}
			var pc *psConn
			for _, c := range conns {
				if c.name == sb.conn {
					pc = c
				}
			}
			for {
				found := false
				pc.mu.Lock()
				for _, e := range pc.events {
					if e.Kind == "message" && e.Name == sb.name && e.Data == markers[ch].id {
						found = true
					}
				}
				pc.mu.Unlock()
				if found {
					break
				}
				if pc.dead.Load() {
					fail("lost", fmt.Sprintf("connection %s was closed by the server during the concurrent history", pc.name))
					return
				}
				if time.Now().After(deadline) {
					ctx.Inconclusive("concurrent history: drain marker did not arrive within the watchdog")
					saveArtefact(ctx.Prop, "concurrent-drain-watchdog", fmt.Sprintf("marker %s for subscription %q of %s", markers[ch].id, sb.name, pc.name))
					return
				}
				time.Sleep(300 * time.Microsecond)
			}
		}
	}
	time.Sleep(2 * time.Millisecond)
	mu.Lock()
	cpp := append([]*psPub{}, pubs...)
	mu.Unlock()
	c18CheckHistory(ctx, conns, cp, cpp, fail, 100)
	ctx.Eval(1)
	ctx.Class("concurrent|first-subscribers+churn-during-fanout+simultaneous-punsubscribe")
	ctx.Count("concurrent_publishes", int64(len(cpp)))
	ctx.Count("concurrent_subscriptions", int64(len(cp)))
	ctx.Count("reply_watchdog_extended", c18WatchdogExtended.Swap(0))
	if i == 0 {
		ctx.Sample("concurrent-history", map[string]interface{}{"phases": trace, "publishes": len(cpp), "subscriptions": len(cp)})
	}
}

var c18Channels = []string{"ab", "ac", "bb", "zz"}
var c18Patterns = []string{"a*", "?b", "*"}

func c18History(ctx *Ctx, hi int) {
	r := rand.New(rand.NewSource(ctx.Seed*10_000_019 + int64(hi)))
	port := freePort()
	in, err := NewInst(InstOpts{Extra: withTCP(port)})
	if err != nil {
		ctx.Broken(err.Error())
		return
	}
	defer in.Close()
	if err := in.StartTCP(port); err != nil {
		ctx.Inconclusive("listener did not come up")
		return
	}
	var clock atomic.Int64
	nsub := 2 + r.Intn(3)
	var conns []*psConn
	for i := 0; i < nsub; i++ {
		if i == nsub-1 && hi%2 == 1 {
			// an embedded subscriber (Subscribe/PSubscribe API of the embedding program)
			conns = append(conns, &psConn{name: fmt.Sprintf("e%d", i), in: in, tag: fmt.Sprintf("emb-%d-%d", os.Getpid(), embTagSeq.Add(1)), clock: &clock})
			continue
		}
		c, err := Dial(port)
		if err != nil {
			ctx.Inconclusive("dial")
			return
		}
		pc := &psConn{name: fmt.Sprintf("s%d", i), c: c, clock: &clock}
		conns = append(conns, pc)
		go pc.reader()
	}
	defer func() {
		for _, c := range conns {
			c.close()
		}
	}()
	admin, err := Dial(port)
	if err != nil {
		ctx.Inconclusive("dial")
		return
	}
	defer admin.Close()
	npub := 1 + r.Intn(3)
	var pubClients []*Client
	for i := 0; i < npub; i++ {
		if i%2 == 0 {
			c, err := Dial(port)
			if err != nil {
				ctx.Inconclusive("dial")
				return
			}
			defer c.Close()
			pubClients = append(pubClients, c)
		} else {
			pubClients = append(pubClients, nil) // embedded publisher
		}
	}
	var trace []string
	var subs []*psSub // all subscriptions ever made
	active := func(conn, name string) *psSub {
		for _, s := range subs {
			if s.conn == conn && s.name == name && s.unsubSent == 0 {
				return s
			}
		}
		return nil
	}
	activeCount := func(conn string) int {
		n := 0
		for _, s := range subs {
			if s.conn == conn && s.unsubSent == 0 {
				n++
			}
		}
		return n
	}
	var pubs []*psPub
	var pmu sync.Mutex
	seqs := make([]int, npub)
	fail := func(kind, what string) {
		ctx.Violate(Violation{Kind: kind, Lane: "pubsub", What: what, Case: map[string]interface{}{"history": trace, "seed_index": hi}, Key: "c18|" + kind})
	}
	publish := func(p int, ch string) *psPub {
		pmu.Lock()
		seqs[p]++
		pb := &psPub{id: fmt.Sprintf("m-%d-%d-%d", hi, p, seqs[p]), channel: ch, publisher: p, seq: seqs[p]}
		pubs = append(pubs, pb)
		pmu.Unlock()
		pb.call = clock.Add(1)
		if pubClients[p] != nil {
			v, _, err := pubClients[p].Do("PUBLISH", ch, pb.id)
			if err != nil || v.IsError() {
				fail("publish", fmt.Sprintf("PUBLISH %s failed: %v %s", ch, err, v.String()))
			}
		} else {
			v, _, crash := in.Do("PUBLISH", ch, pb.id)
			if crash != "" || v.IsError() {
				fail("publish", fmt.Sprintf("embedded PUBLISH %s failed: %s %s", ch, crash, v.String()))
			}
		}
		pb.ret = clock.Add(1)
		return pb
	}
	steps := 20 + r.Intn(40)
	burstMax := 0
	for k := 0; k < steps && ctx.NViolations() == 0; k++ {
		pc := conns[r.Intn(len(conns))]
		switch x := r.Intn(10); {
		case x < 3: // subscribe / psubscribe
			pattern := r.Intn(3) == 0
			pool := c18Channels
			cmd := "SUBSCRIBE"
			if pattern {
				pool, cmd = c18Patterns, "PSUBSCRIBE"
			}
			cnt := 1 + r.Intn(2)
			names := []string{}
			for len(names) < cnt {
				nm := pool[r.Intn(len(pool))]
				dup := false
				for _, x := range names {
					if x == nm {
						dup = true
					}
				}
				if !dup {
					names = append(names, nm)
				}
			}
			before := pc.count("confirm")
			trace = append(trace, fmt.Sprintf("%s> %s %s", pc.name, cmd, strings.Join(names, " ")))
			if err := pc.send(cmd, names, nil); err != nil {
				ctx.Inconclusive("send failed")
				return
			}
			if !pc.waitCount("confirm", before+len(names), 10*time.Second) {
				fail("confirmation", fmt.Sprintf("%s %v on %s: %d confirmation(s) expected, %d received", cmd, names, pc.name, len(names), pc.count("confirm")-before))
				return
			}
			pc.mu.Lock()
			var confs []psEvent
			for _, e := range pc.events {
				if e.Kind == "confirm" {
					confs = append(confs, e)
				}
			}
			pc.mu.Unlock()
			confs = confs[before:]
			for i, nm := range names {
				e := confs[i]
				if active(pc.name, nm) == nil {
					subs = append(subs, &psSub{conn: pc.name, name: nm, pattern: pattern, confirmed: e.T})
				}
				want := strconv.Itoa(activeCount(pc.name))
				ctx.Class(fmt.Sprintf("confirm|%s|running=%s", cmd, want))
				if e.Name != nm || e.A != strings.ToLower(cmd) || e.Data != want {
					fail("confirmation", fmt.Sprintf("%s %v on %s: confirmation %d is [%s %s %s], expected [%s %s %s] (running count of the connection's subscriptions)", cmd, names, pc.name, i, e.A, e.Name, e.Data, strings.ToLower(cmd), nm, want))
					return
				}
			}
		case x == 3: // unsubscribe / punsubscribe (named or all)
			pattern := r.Intn(3) == 0
			cmd := "UNSUBSCRIBE"
			pool := c18Channels
			if pattern {
				cmd, pool = "PUNSUBSCRIBE", c18Patterns
			}
			var names []string
			if r.Intn(4) != 0 {
				names = []string{pool[r.Intn(len(pool))]}
			}
			before := pc.count("unsubreply")
			var withdrawn []string
			if pc.c == nil {
				// embedded: nothing comes back from the call. What it must withdraw is known (exact names of the
				// right kind); a pattern that also matches names of regular subscriptions is not used here,
				// because what the call then withdraws could not be observed.
				skip := false
				for _, sb := range subs {
					if sb.conn != pc.name || sb.unsubSent != 0 {
						continue
					}
					if pattern && len(names) == 1 && sb.name != names[0] && globMatch(names[0], sb.name) {
						skip = true // PUNSUBSCRIBE <glob> may also withdraw other names the glob matches
					}
					if sb.pattern == pattern && (len(names) == 0 || sb.name == names[0]) {
						withdrawn = append(withdrawn, sb.name)
					}
				}
				if skip {
					continue
				}
			}
			t := clock.Add(1)
			trace = append(trace, fmt.Sprintf("%s> %s %s", pc.name, cmd, strings.Join(names, " ")))
			if err := pc.send(cmd, names, withdrawn); err != nil {
				ctx.Inconclusive("send failed")
				return
			}
			if !pc.waitCount("unsubreply", before+1, 10*time.Second) {
				fail("confirmation", fmt.Sprintf("%s %v on %s: no reply", cmd, names, pc.name))
				return
			}
			pc.mu.Lock()
			var rep psEvent
			c := 0
			for _, e := range pc.events {
				if e.Kind == "unsubreply" {
					if c == before {
						rep = e
					}
					c++
				}
			}
			pc.mu.Unlock()
			// which subscriptions must go: exact names of the right kind (all of that kind when no name is given)
			must := map[string]bool{}
			for _, s := range subs {
				if s.conn != pc.name || s.unsubSent != 0 || s.pattern != pattern {
					continue
				}
				if len(names) == 0 {
					must[s.name] = true
				}
				for _, nm := range names {
					if s.name == nm {
						must[s.name] = true
					}
				}
			}
			got := map[string]bool{}
			for _, x := range rep.Raw.Elems {
				a, _ := x.Elems[0].Text()
				nm, _ := x.Elems[1].Text()
				if strings.ToLower(a) != strings.ToLower(cmd) {
					fail("confirmation", fmt.Sprintf("%s reply entry has action %q", cmd, a))
					return
				}
				if got[nm] {
					fail("confirmation", fmt.Sprintf("%s %v on %s confirmed %q twice: %s", cmd, names, pc.name, nm, rep.Raw.String()))
					return
				}
				got[nm] = true
				s := active(pc.name, nm)
				if s == nil {
					fail("confirmation", fmt.Sprintf("%s %v on %s confirmed %q, which the connection is not subscribed to: %s", cmd, names, pc.name, nm, rep.Raw.String()))
					return
				}
				// PUNSUBSCRIBE is documented as unsubscribing "from a list of channels using patterns": it may also
				// withdraw regular subscriptions whose name matches; anything else it names must be an exact match
				if !must[nm] {
					okExtra := pattern && len(names) == 1 && globMatch(names[0], nm)
					if !okExtra {
						fail("confirmation", fmt.Sprintf("%s %v on %s withdrew %q, which was not asked for: %s", cmd, names, pc.name, nm, rep.Raw.String()))
						return
					}
				}
				s.unsubSent = t
			}
			for nm := range must {
				if !got[nm] {
					fail("confirmation", fmt.Sprintf("%s %v on %s did not confirm %q although the connection was subscribed: %s", cmd, names, pc.name, nm, rep.Raw.String()))
					return
				}
			}
			ctx.Class(fmt.Sprintf("unsub|%s|named=%v|n=%d", cmd, len(names) > 0, len(got)))
		case x < 8: // publish one
			p := r.Intn(npub)
			ch := c18Channels[r.Intn(len(c18Channels))]
			publish(p, ch)
			trace = append(trace, fmt.Sprintf("p%d PUBLISH %s", p, ch))
		case x == 8: // burst, publishers in parallel
			size := []int{50, 120, 300, 500}[r.Intn(4)]
			if ctx.Quick() && size > 300 {
				size = 300
			}
			if size > burstMax {
				burstMax = size
			}
			trace = append(trace, fmt.Sprintf("burst of %d publishes by %d publishers", size, npub))
			var wg sync.WaitGroup
			for p := 0; p < npub; p++ {
				wg.Add(1)
				go func(p int) {
					defer wg.Done()
					rr := rand.New(rand.NewSource(int64(hi*1000 + p*7 + k)))
					for j := 0; j < size/npub; j++ {
						publish(p, c18Channels[rr.Intn(2)])
					}
				}(p)
			}
			wg.Wait()
		case x == 9: // introspection at a quiescent point (driver is sequential: no request is in flight)
			c18Introspect(ctx, admin, subs, fail, &trace)
		}
	}
	if ctx.NViolations() > 0 {
		return
	}
	// drain: one marker per channel; wait for it on every (connection, subscription) that must see it
	markers := map[string]*psPub{}
	for _, ch := range c18Channels {
		markers[ch] = publish(0, ch)
	}
	type need struct {
		pc   *psConn
		name string
		id   string
	}
	var needs []need
	for _, s := range subs {
		if s.unsubSent != 0 {
			continue
		}
		for _, ch := range c18Channels {
			if (!s.pattern && s.name == ch) || (s.pattern && globMatch(s.name, ch)) {
				for _, pc := range conns {
					if pc.name == s.conn {
						needs = append(needs, need{pc, s.name, markers[ch].id})
					}
				}
			}
		}
	}
	deadline := time.Now().Add(20 * time.Second)
	for _, nd := range needs {
		for {
			found := false
			nd.pc.mu.Lock()
			for _, e := range nd.pc.events {
				if e.Kind == "message" && e.Name == nd.name && e.Data == nd.id {
					found = true
				}
			}
			nd.pc.mu.Unlock()
			if found {
				break
			}
			if time.Now().After(deadline) || nd.pc.dead.Load() {
				// the marker itself is a message that must arrive: decided as lost only if everything else is idle
				fail("lost", fmt.Sprintf("drain marker %s published on a channel matching subscription %q of %s never arrived (20 s)", nd.id, nd.name, nd.pc.name))
				return
			}
			time.Sleep(300 * time.Microsecond)
		}
	}
	time.Sleep(2 * time.Millisecond)
	c18CheckHistory(ctx, conns, subs, pubs, fail, burstMax)
	ctx.Eval(1)
	ctx.Count("publishes", int64(len(pubs)))
	ctx.Count("reply_watchdog_extended", c18WatchdogExtended.Swap(0))
	if hi == 0 {
		ctx.Sample("history", map[string]interface{}{"steps": trace, "publishes": len(pubs), "subscriptions": len(subs)})
	}
}

func c18CheckHistory(ctx *Ctx, conns []*psConn, subs []*psSub, pubs []*psPub, fail func(string, string), burstMax int) {
	byID := map[string]*psPub{}
	for _, p := range pubs {
		byID[p.id] = p
	}
	bclass := "noburst"
	if burstMax > 0 {
		bclass = fmt.Sprintf("burst<=%d", burstMax)
	}
	for _, pc := range conns {
		pc.mu.Lock()
		evs := append([]psEvent{}, pc.events...)
		malf := pc.malf
		pc.mu.Unlock()
		if malf != "" {
			fail("malformed", fmt.Sprintf("connection %s received a malformed frame: %s", pc.name, malf))
			return
		}
		seen := map[string]int64{}
		lastSeq := map[string]int{} // (sub name, channel, publisher) -> last seq
		for _, e := range evs {
			if e.Kind != "message" {
				continue
			}
			p := byID[e.Data]
			if p == nil {
				fail("spurious", fmt.Sprintf("%s received a message %q that nobody published", pc.name, trunc(e.Data, 60)))
				return
			}
			key := e.Name + "|" + e.Data
			if _, dup := seen[key]; dup {
				fail("duplicate", fmt.Sprintf("%s received message %s twice through subscription %q", pc.name, e.Data, e.Name))
				return
			}
			seen[key] = e.T
			// R1: some subscription of this connection to e.Name must overlap the publish, and match the channel
			ok := false
			var kind string
			for _, s := range subs {
				if s.conn != pc.name || s.name != e.Name {
					continue
				}
				matches := (!s.pattern && s.name == p.channel) || (s.pattern && globMatch(s.name, p.channel))
				if !matches {
					continue
				}
				// the subscription request was sent before the confirmation (unknown exactly): use "exists at all
				// before the message was received" and "not withdrawn (reply received) before the publish was invoked"
				withdrawnBefore := s.unsubSent != 0 && c18ReplyTime(evs, s.unsubSent) < p.call && c18ReplyTime(evs, s.unsubSent) != 0
				if !withdrawnBefore {
					ok = true
					kind = map[bool]string{true: "pattern", false: "channel"}[s.pattern]
				}
			}
			if !ok {
				fail("spurious", fmt.Sprintf("%s received message %s (published on %q) through %q without a matching subscription that was alive during the publish", pc.name, e.Data, p.channel, e.Name))
				return
			}
			if pc.c == nil {
				kind += "|embedded-subscriber"
			}
			ctx.Class(fmt.Sprintf("delivered|%s|%s", kind, bclass))
			// R4 order per (subscription, channel, publisher)
			ok2 := fmt.Sprintf("%s|%s|%d", e.Name, p.channel, p.publisher)
			if p.seq < lastSeq[ok2] {
				fail("order", fmt.Sprintf("%s received message #%d of publisher %d on %q (via %q) after message #%d of the same publisher", pc.name, p.seq, p.publisher, p.channel, e.Name, lastSeq[ok2]))
				return
			}
			lastSeq[ok2] = p.seq
		}
		// R2 no loss: subscription confirmed before the publish was invoked and never withdrawn
		for _, s := range subs {
			if s.conn != pc.name || s.unsubSent != 0 {
				continue
			}
			for _, p := range pubs {
				matches := (!s.pattern && s.name == p.channel) || (s.pattern && globMatch(s.name, p.channel))
				if !matches || s.confirmed > p.call {
					continue
				}
				if _, got := seen[s.name+"|"+p.id]; !got {
					fail("lost", fmt.Sprintf("%s never received message %s published on %q although its subscription %q had been confirmed before the publish and was never withdrawn (the drain marker published later on the same channel did arrive)", pc.name, p.id, p.channel, s.name))
					return
				}
			}
			ctx.Class(fmt.Sprintf("complete|%s|%s", map[bool]string{true: "pattern", false: "channel"}[s.pattern], bclass))
		}
	}
}

// c18ReplyTime returns the logical time of the first unsubscribe reply received after the request sent at t.
func c18ReplyTime(evs []psEvent, t int64) int64 {
	for _, e := range evs {
		if e.Kind == "unsubreply" && e.T > t {
			return e.T
		}
	}
	return 0
}

func c18Introspect(ctx *Ctx, admin *Client, subs []*psSub, fail func(string, string), trace *[]string) {
	c18IntrospectNames(ctx, admin, subs, fail, trace, c18Channels)
}

func c18IntrospectNames(ctx *Ctx, admin *Client, subs []*psSub, fail func(string, string), trace *[]string, channels []string) {
	regular := map[string]int{}
	patterns := map[string]int{}
	for _, s := range subs {
		if s.unsubSent != 0 {
			continue
		}
		if s.pattern {
			patterns[s.name]++
		} else {
			regular[s.name]++
		}
	}
	*trace = append(*trace, "admin> PUBSUB CHANNELS / NUMSUB / NUMPAT")
	v, _, err := admin.Do("PUBSUB", "CHANNELS")
	if err != nil || !v.IsSeq() {
		fail("introspection", fmt.Sprintf("PUBSUB CHANNELS: %v %s", err, v.String()))
		return
	}
	got := map[string]bool{}
	for _, e := range v.Elems {
		t, _ := e.Text()
		if got[t] {
			fail("introspection", fmt.Sprintf("PUBSUB CHANNELS %s lists %q twice", trunc(v.String(), 300), t))
			return
		}
		got[t] = true
	}
	for ch := range regular {
		if !got[ch] {
			fail("introspection", fmt.Sprintf("PUBSUB CHANNELS %s lacks %q, which has %d subscriber(s)", v.String(), ch, regular[ch]))
			return
		}
	}
	for ch := range got {
		if regular[ch] == 0 && patterns[ch] == 0 {
			fail("introspection", fmt.Sprintf("PUBSUB CHANNELS %s lists %q, which nobody is subscribed to", v.String(), ch))
			return
		}
	}
	args := append([]string{"PUBSUB", "NUMSUB"}, channels...)
	v, _, err = admin.Do(args...)
	if err != nil || !v.IsSeq() {
		fail("introspection", fmt.Sprintf("PUBSUB NUMSUB: %v %s", err, v.String()))
		return
	}
	// pairs, flat or nested
	var flat []resp.Value
	for _, e := range v.Elems {
		if e.IsSeq() {
			flat = append(flat, e.Elems...)
		} else {
			flat = append(flat, e)
		}
	}
	if len(flat) != 2*len(channels) {
		fail("introspection", "PUBSUB NUMSUB reply has the wrong shape: "+v.String())
		return
	}
	for i := 0; i+1 < len(flat); i += 2 {
		ch, _ := flat[i].Text()
		n, _ := flat[i+1].Text()
		if n != strconv.Itoa(regular[ch]) {
			fail("introspection", fmt.Sprintf("PUBSUB NUMSUB reports %s subscriber(s) for %q, the reference table has %d", n, ch, regular[ch]))
			return
		}
	}
	v, _, err = admin.Do("PUBSUB", "NUMPAT")
	total := 0
	for _, n := range patterns {
		total += n
	}
	if err != nil || v.Kind != resp.Int || (int(v.Int) != len(patterns) && int(v.Int) != total) {
		fail("introspection", fmt.Sprintf("PUBSUB NUMPAT = %s, the reference table has %d distinct active pattern(s) / %d pattern subscription(s)", v.String(), len(patterns), total))
		return
	}
	keys := []string{}
	for k := range regular {
		keys = append(keys, k)
	}
	sort.Strings(keys)
	ctx.Class(fmt.Sprintf("introspection|channels=%d|patterns=%d", len(regular), len(patterns)))
}

// c18Stalled: one subscriber stops reading while a publisher sends a burst larger than any internal buffer;
// the publisher may be held back (back-pressure) but when the subscriber resumes, every message must arrive
// exactly once and in publish order.
func c18Stalled(ctx *Ctx, i int) {
	port := freePort()
	in, err := NewInst(InstOpts{Extra: withTCP(port)})
	if err != nil {
		ctx.Broken(err.Error())
		return
	}
	defer in.Close()
	if err := in.StartTCP(port); err != nil {
		ctx.Inconclusive("listener did not come up")
		return
	}
	sub, err := Dial(port)
	if err != nil {
		return
	}
	defer sub.Close()
	// messages big enough that a subscriber that does not read fills the socket buffers and stalls the server
	pad := strings.Repeat("p", 4096)
	pat := i%2 == 1
	if pat {
		sub.Send(resp.Encode("PSUBSCRIBE", "bur*"))
	} else {
		sub.Send(resp.Encode("SUBSCRIBE", "burst"))
	}
	if v, _, err := sub.Read(5 * time.Second); err != nil || v.IsError() {
		ctx.Inconclusive("subscribe failed")
		return
	}
	total := 12000 + 1000*(i%3)
	done := make(chan int, 1)
	go func() {
		sent := 0
		for k := 0; k < total; k++ {
			if v, _, crash := in.Do("PUBLISH", "burst", fmt.Sprintf("b-%06d", k)+pad); crash != "" || v.IsError() {
				break
			}
			sent++
		}
		done <- sent
	}()
	// the subscriber does not read for a while: the publisher fills every buffer on the way
	time.Sleep(150 * time.Millisecond)
	next := 0
	sent := -1
	deadline := time.Now().Add(60 * time.Second)
	for (sent < 0 || next < sent) && time.Now().Before(deadline) {
		select {
		case sent = <-done:
		default:
		}
		v, _, err := sub.Read(2 * time.Second)
		if err != nil {
			if sent >= 0 && next >= sent {
				break
			}
			if sent >= 0 {
				ctx.Violate(Violation{Kind: "lost", Lane: "pubsub-stalled", What: fmt.Sprintf("burst of %d publishes to a subscriber that had stopped reading: after it resumed only %d messages arrived (next expected b-%06d): %v", sent, next, next, err),
					Case: map[string]interface{}{"burst": total, "pattern": pat}, Key: "c18|stalled|lost"})
				return
			}
			continue
		}
		if !v.IsSeq() || len(v.Elems) != 3 {
			continue
		}
		d, _ := v.Elems[2].Text()
		if len(d) > 8 {
			d = d[:8]
		}
		want := fmt.Sprintf("b-%06d", next)
		if d != want {
			ctx.Violate(Violation{Kind: "order", Lane: "pubsub-stalled", What: fmt.Sprintf("burst of %d publishes by one publisher to a subscriber that had stopped reading for a while: message %s arrived where %s was expected (out of order, duplicated or lost)", total, d, want),
				Case: map[string]interface{}{"burst": total, "pattern": pat}, Key: "c18|stalled|order"})
			return
		}
		next++
	}
	if sent < 0 {
		select {
		case sent = <-done:
		case <-time.After(20 * time.Second):
			ctx.Inconclusive("stalled-subscriber lane: publisher did not finish")
			return
		}
	}
	ctx.Eval(1)
	ctx.Count("stalled_burst_messages", int64(next))
	ctx.Class(fmt.Sprintf("stalled-burst|pattern=%v|n>%d", pat, total/1000*1000))
	if next < sent {
		ctx.Violate(Violation{Kind: "lost", Lane: "pubsub-stalled", What: fmt.Sprintf("burst of %d publishes: only %d messages arrived", sent, next),
			Case: map[string]interface{}{"burst": total, "pattern": pat}, Key: "c18|stalled|lost"})
	}
}
