package main

import (
	"math/rand"
	"runtime"
)

func init() {
	registerCheck("C01", "exploration", checkC01)
}

func lightInst() *Inst {
	in, err := NewInst(InstOpts{})
	if err != nil {
		panic(err)
	}
	return in
}

// c01Alphabet is the exhaustive-lane alphabet: concrete commands on keys a, b.
func c01Alphabet() [][]string {
	bt := BaseTimeNs / 1e9
	btm := BaseTimeNs / 1e6
	return [][]string{
		{"SET", "a", "x"}, {"SET", "a", "10"}, {"SET", "a", "1.5"}, {"SET", "a", ""}, {"SET", "b", "x"},
		{"SET", "a", "a\r\nb"},
		{"SET", "a", "x", "NX"}, {"SET", "a", "y", "XX"}, {"SET", "a", "z", "GET"}, {"SET", "a", "y", "XX", "GET"},
		{"SET", "a", "x", "EX", "100"}, {"SET", "a", "x", "PX", "1500"},
		{"SET", "a", "x", "EXAT", itoa(bt + 50)}, {"SET", "a", "x", "PXAT", itoa(btm + 2500)},
		{"SET", "a", "x", "NX", "XX"}, {"SET", "a", "x", "EX"}, {"SET", "a", "x", "EX", "abc"}, {"SET", "a"},
		{"SET", "a", "x", "EX", "10", "PX", "10"},
		{"GET", "a"}, {"GET", "b"}, {"GET"},
		{"MSET", "a", "1", "b", "2"}, {"MSET", "a", "x", "a", "y"}, {"MSET", "a"}, {"MSET", "a", "x", "b"},
		{"MGET", "a", "b"}, {"MGET", "a", "a"},
		{"DEL", "a"}, {"DEL", "a", "b", "a"},
		{"INCR", "a"}, {"DECR", "a"}, {"INCRBY", "a", "5"}, {"INCRBY", "a", "x"}, {"DECRBY", "a", "3"},
		{"INCRBY", "a", "9223372036854775807"}, {"DECRBY", "a", "-9223372036854775808"},
		{"INCRBYFLOAT", "a", "0.5"}, {"INCRBYFLOAT", "a", "x"}, {"INCRBYFLOAT", "a", "-1.25"},
		{"APPEND", "a", "yz"}, {"APPEND", "a", "5"}, {"APPEND", "b", ""},
		{"SETRANGE", "a", "1", "Q"}, {"SETRANGE", "a", "5", "Q"}, {"SETRANGE", "a", "-1", "Q"}, {"SETRANGE", "a", "0", "QRS"},
		{"GETRANGE", "a", "0", "-1"}, {"GETRANGE", "a", "1", "2"}, {"GETRANGE", "a", "-2", "-1"}, {"GETRANGE", "a", "5", "9"},
		{"GETRANGE", "a", "2", "1"}, {"SUBSTR", "a", "0", "0"}, {"GETRANGE", "a", "0", "x"},
		{"STRLEN", "a"}, {"STRLEN", "b"},
		{"RENAME", "a", "b"}, {"RENAME", "a", "a"}, {"RENAME", "b", "a"},
		{"GETDEL", "a"}, {"GETEX", "a"}, {"GETEX", "a", "PERSIST"}, {"GETEX", "a", "persist"}, {"GETEX", "a", "EX", "10"},
		{"GETEX", "a", "PXAT", itoa(btm + 700)}, {"GETEX", "a", "EX"}, {"GETEX", "a", "BOGUS", "1"},
		{"TYPE", "a"}, {"TYPE", "b"}, {"FLUSHDB"},
		{"TTL", "a"}, {"PTTL", "a"}, {"PEXPIRETIME", "a"}, {"EXPIRE", "a", "100"}, {"PERSIST", "a"},
	}
}

func c01InitStates() [][][]string {
	return [][][]string{
		{},
		{{"SET", "a", "hello"}},
		{{"SET", "a", "41"}},
		{{"RPUSH", "a", "e1", "e2"}},
		{{"HSET", "a", "f", "v"}},
		{{"SADD", "a", "m"}},
		{{"ZADD", "a", "1", "m"}},
		{{"SET", "a", "v", "EX", "100"}, {"SET", "b", "w"}},
	}
}

func toSteps(cmds [][]string) []Step {
	out := make([]Step, len(cmds))
	for i, c := range cmds {
		out[i] = Step{Argv: c}
	}
	return out
}

// exhaustiveLane enumerates every sequence of length depth over alphabet from
// each initial state, running each on a fresh instance in lock step with the
// model.
func exhaustiveLane(ctx *Ctx, lane string, alphabet [][]string, inits [][][]string, depth int) {
	n := len(alphabet)
	total := 1
	for i := 0; i < depth; i++ {
		total *= n
	}
	jobs := total * len(inits)
	parallel(jobs, runtime.NumCPU(), func(j int) {
		initIdx := j / total
		idx := j % total
		prog := toSteps(inits[initIdx])
		for d := 0; d < depth; d++ {
			prog = append(prog, Step{Argv: alphabet[idx%n]})
			idx /= n
		}
		v, steps := RunProgram(ctx, lane, lightInst, prog, false)
		ctx.Eval(1)
		ctx.Count("steps_"+lane, int64(steps))
		if j == 0 || j == jobs/2 {
			ctx.Sample(lane, progStrings(prog))
		}
		if v != nil {
			reportProgramViolation(ctx, lane, lightInst, prog, v)
		}
	})
	ctx.Count("programs_"+lane, int64(jobs))
}

// randomLane runs nprog seeded random programs.
func randomLane(ctx *Ctx, lane string, nprog int, gens []cmdGen, weights []int, u Universe, minLen, maxLen int,
	advProb float64, mk func() *Inst) {
	parallel(nprog, runtime.NumCPU(), func(i int) {
		r := rand.New(rand.NewSource(ctx.Seed*1_000_003 + int64(i)*7919 + int64(len(lane))))
		in := mk()
		defer in.Close()
		s := NewSession(ctx, lane, in)
		ln := minLen + r.Intn(maxLen-minLen+1)
		var prog []Step
		for k := 0; k < ln; k++ {
			g := gens[weightedPick(r, weights, len(gens))]
			argv := g(r, &u, in.Clk.NowNs())
			if r.Intn(25) == 0 {
				argv = wrongArity(r, argv)
			}
			st := Step{Argv: argv}
			if advProb > 0 && r.Float64() < advProb {
				st.Adv = []int64{1e6, 499e6, 1e9, 1500e6, 10e9, 100e9, 3600e9}[r.Intn(7)]
			}
			prog = append(prog, st)
			res := s.Exec(st)
			if res.Vio != nil {
				reportProgramViolation(ctx, lane, mk, prog, res.Vio)
				break
			}
		}
		ctx.Eval(1)
		ctx.Count("steps_"+lane, int64(len(s.trace)))
		if i == 0 {
			ctx.Sample(lane, progStrings(s.trace))
		}
	})
	ctx.Count("programs_"+lane, int64(nprog))
}

func weightedPick(r *rand.Rand, w []int, n int) int {
	if len(w) != n {
		return r.Intn(n)
	}
	t := 0
	for _, x := range w {
		t += x
	}
	p := r.Intn(t)
	for i, x := range w {
		if p < x {
			return i
		}
		p -= x
	}
	return n - 1
}

func checkC01(ctx *Ctx) {
	ctx.Rule("one evaluation = one program (command sequence) run on a fresh instance in lock step with the reference typed map; " +
		"after every step the strict-parsed reply must be allowed by the model and the side-effect-free dump of the whole store must equal the model state. " +
		"distinct_nontrivial = distinct (command/arity/options, pre-state kind of the first key, outcome class, state-changed) transition classes observed")
	ctx.Assume("virtual clock injected through the verif build", "embedded raw-reply API (ExecuteCommand) is the same dispatch path as TCP minus framing (framing is C12)")
	runWitnesses(ctx, lightInst)
	alpha := c01Alphabet()
	exhaustiveLane(ctx, "exhaustive-d1", alpha, c01InitStates(), 1)
	exhaustiveLane(ctx, "exhaustive-d2", alpha, c01InitStates(), 2)
	if !ctx.Quick() {
		exhaustiveLane(ctx, "exhaustive-d3", alpha, c01InitStates()[:3], 3)
	}
	ctx.exhaustive = false
	gens := append(append(genericGens(), expiryGens()...), otherTypeGens()...)
	randomLane(ctx, "random", ctx.N(2000, 12000), gens, nil, defaultUniverse(), 40, 80, 0.05, lightInst)
}
