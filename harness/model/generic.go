package model

import (
	"math"
	"strconv"
	"strings"

	"verif/harness/resp"
)

const (
	nsPerMs = int64(1000000)
	nsPerS  = int64(1000000000)
)

func init() {
	register("set", mSet)
	register("mset", mMSet)
	register("get", mGet)
	register("mget", mMGet)
	register("del", mDel)
	register("incr", func(st *State, env Env, a []string) []Outcome { return mIncrBy(st, env, a, 1, 1) })
	register("decr", func(st *State, env Env, a []string) []Outcome { return mIncrBy(st, env, a, -1, 1) })
	register("incrby", func(st *State, env Env, a []string) []Outcome { return mIncrBy(st, env, a, 1, 2) })
	register("decrby", func(st *State, env Env, a []string) []Outcome { return mIncrBy(st, env, a, -1, 2) })
	register("incrbyfloat", mIncrByFloat)
	register("rename", mRename)
	register("getdel", mGetDel)
	register("getex", mGetEx)
	register("type", mType)
	register("flushdb", mFlush)
	register("flushall", mFlush)
	register("persist", mPersist)
	register("ttl", mTTL)
	register("pttl", mTTL)
	register("expiretime", mExpireTime)
	register("pexpiretime", mExpireTime)
	register("expire", mExpire)
	register("pexpire", mExpire)
	register("expireat", mExpire)
	register("pexpireat", mExpire)
	register("randomkey", mRandomKey)
	register("touch", mTouch)
	// string module
	register("append", mAppend)
	register("setrange", mSetRange)
	register("getrange", mGetRange)
	register("substr", mGetRange)
	register("strlen", mStrLen)
}

// scalarOps returns, for a scalar entry read by a byte-string command, whether
// the documented value typing may make the command fail instead: a scalar that
// is typed as integer/float is not a "string" to STRLEN/APPEND/SETRANGE/GETRANGE.
func mayRefuseAsNonString(e *Entry) bool {
	return e != nil && e.Kind == KScalar && NumericLooking(e.S)
}

type setOpts struct {
	nx, xx, get bool
	hasExp      bool
	deadline    int64
	nonPositive bool
}

// parseExpiryOpt parses EX/PX/EXAT/PXAT <n>. ok=false means malformed.
func parseExpiryOpt(now int64, kw, arg string) (deadline int64, nonPositive bool, ok bool) {
	deadline, nonPositive, ok = parseExpiryOpt0(now, kw, arg)
	if ok && deadline <= 0 {
		deadline = 1 // 0 means "no deadline"; any instant at or before the epoch is rendered as 1
	}
	return
}

func parseExpiryOpt0(now int64, kw, arg string) (deadline int64, nonPositive bool, ok bool) {
	n, good := parseInt64(arg)
	if !good {
		return 0, false, false
	}
	switch strings.ToLower(kw) {
	case "ex":
		if n > math.MaxInt64/nsPerS/2 || n < -math.MaxInt64/nsPerS/2 {
			return 0, false, false
		}
		return now + n*nsPerS, n <= 0, true
	case "px":
		if n > math.MaxInt64/nsPerMs/2 || n < -math.MaxInt64/nsPerMs/2 {
			return 0, false, false
		}
		return now + n*nsPerMs, n <= 0, true
	case "exat":
		if n > math.MaxInt64/nsPerS/2 || n < -math.MaxInt64/nsPerS/2 {
			return 0, false, false
		}
		return n * nsPerS, n <= 0, true
	case "pxat":
		if n > math.MaxInt64/nsPerMs/2 || n < -math.MaxInt64/nsPerMs/2 {
			return 0, false, false
		}
		return n * nsPerMs, n <= 0, true
	}
	return 0, false, false
}

func isExpiryKW(s string) bool {
	switch strings.ToLower(s) {
	case "ex", "px", "exat", "pxat":
		return true
	}
	return false
}

func mSet(st *State, env Env, a []string) []Outcome {
	if len(a) < 3 {
		return errOut(st, "arity")
	}
	key, val := a[1], a[2]
	var o setOpts
	for i := 3; i < len(a); i++ {
		switch {
		case isKW(a[i], "nx"):
			if o.nx || o.xx {
				return errOut(st, "nx/xx twice")
			}
			o.nx = true
		case isKW(a[i], "xx"):
			if o.nx || o.xx {
				return errOut(st, "nx/xx twice")
			}
			o.xx = true
		case isKW(a[i], "get"):
			o.get = true
		case isExpiryKW(a[i]):
			if o.hasExp || i+1 >= len(a) {
				return errOut(st, "expiry option")
			}
			d, np, ok := parseExpiryOpt(env.Now, a[i], a[i+1])
			if !ok {
				return errOut(st, "expiry value")
			}
			o.hasExp, o.deadline, o.nonPositive = true, d, np
			i++
		default:
			return errOut(st, "unknown option")
		}
	}
	if len(a) > 7 {
		// documented syntax has at most 4 option tokens beyond key and value
		return errOut(st, "arity")
	}
	old := get(st, env, key)
	var outs []Outcome
	if o.nonPositive {
		// "positive integer" is documented; a non-positive value may be refused.
		outs = append(outs, errOut(st, "non-positive expiry")...)
	}
	reply := MOK()
	if o.get {
		switch {
		case old == nil:
			reply = MNil()
		case old.Kind != KScalar:
			return append(outs, errOut(st, "SET GET on non-scalar")...)
		default:
			reply = MText(old.S)
		}
	}
	if (o.nx && old != nil) || (o.xx && old == nil) {
		// not applied: nil or error (silent), with GET the old value is also fine
		ms := []Matcher{MNil(), MErr()}
		if o.get {
			ms = append(ms, reply)
		}
		return append(outs, Outcome{Reply: MAny(ms...), State: st, Note: "condition not met"})
	}
	mk := func(deadline int64) *State {
		n := st.Clone()
		n.DB(env.DB)[key] = &Entry{Kind: KScalar, S: val, Deadline: deadline}
		return n
	}
	if o.hasExp {
		return append(outs, Outcome{Reply: reply, State: mk(o.deadline)})
	}
	outs = append(outs, Outcome{Reply: reply, State: mk(0)})
	if old != nil && old.Deadline != 0 {
		outs = append(outs, Outcome{Reply: reply, State: mk(old.Deadline), Note: "deadline kept"})
	}
	return outs
}

func mMSet(st *State, env Env, a []string) []Outcome {
	if len(a) < 3 || len(a)%2 != 1 {
		return errOut(st, "arity")
	}
	cleared, kept := st.Clone(), st.Clone()
	anyVolatile := false
	for i := 1; i+1 < len(a); i += 2 {
		k, v := a[i], a[i+1]
		var d int64
		if old := get(st, env, k); old != nil && old.Deadline != 0 {
			d = old.Deadline
			anyVolatile = true
		}
		cleared.DB(env.DB)[k] = &Entry{Kind: KScalar, S: v}
		kept.DB(env.DB)[k] = &Entry{Kind: KScalar, S: v, Deadline: d}
	}
	outs := one(MOK(), cleared)
	if anyVolatile {
		outs = append(outs, Outcome{Reply: MOK(), State: kept, Note: "deadlines kept"})
	}
	return outs
}

func mGet(st *State, env Env, a []string) []Outcome {
	if len(a) != 2 {
		return errOut(st, "arity")
	}
	e := get(st, env, a[1])
	switch {
	case e == nil:
		return one(MNil(), st)
	case e.Kind != KScalar:
		return errOut(st, "GET on non-scalar")
	}
	return one(MText(e.S), st)
}

func mMGet(st *State, env Env, a []string) []Outcome {
	if len(a) < 2 {
		return errOut(st, "arity")
	}
	ms := make([]Matcher, 0, len(a)-1)
	nonScalar := false
	for _, k := range a[1:] {
		e := get(st, env, k)
		switch {
		case e == nil:
			ms = append(ms, MNil())
		case e.Kind != KScalar:
			ms = append(ms, MNil())
			nonScalar = true
		default:
			ms = append(ms, MText(e.S))
		}
	}
	outs := one(MSeq(ms...), st)
	if nonScalar {
		outs = append(outs, errOut(st, "MGET on non-scalar")...)
	}
	return outs
}

func mDel(st *State, env Env, a []string) []Outcome {
	if len(a) < 2 {
		return errOut(st, "arity")
	}
	n := st.Clone()
	cnt := int64(0)
	for _, k := range a[1:] {
		if _, ok := n.DB(env.DB)[k]; ok {
			delete(n.DB(env.DB), k)
			cnt++
		}
	}
	return one(MInt(cnt), n)
}

func mIncrBy(st *State, env Env, a []string, sign int64, argc int) []Outcome {
	if len(a) != argc+1 {
		return errOut(st, "arity")
	}
	key := a[1]
	by := int64(1)
	if argc == 2 {
		v, ok := parseInt64(a[2])
		if !ok {
			return errOut(st, "increment not an integer")
		}
		by = v
	}
	e := get(st, env, key)
	cur := int64(0)
	var d int64
	if e != nil {
		if e.Kind != KScalar {
			return errOut(st, "not a scalar")
		}
		v, ok := parseInt64(e.S)
		if !ok {
			return errOut(st, "value not an integer")
		}
		cur = v
		d = e.Deadline
	}
	// exact int64 arithmetic with overflow detection
	var res int64
	if sign > 0 {
		res = cur + by
		if (by > 0 && res < cur) || (by < 0 && res > cur) {
			return errOut(st, "overflow")
		}
	} else {
		res = cur - by
		if (by > 0 && res > cur) || (by < 0 && res < cur) {
			return errOut(st, "overflow")
		}
	}
	n := st.Clone()
	n.DB(env.DB)[key] = &Entry{Kind: KScalar, S: strconv.FormatInt(res, 10), Deadline: d}
	return one(MInt(res), n)
}

func mIncrByFloat(st *State, env Env, a []string) []Outcome {
	if len(a) != 3 {
		return errOut(st, "arity")
	}
	key := a[1]
	by, err := strconv.ParseFloat(a[2], 64)
	if err != nil {
		return errOut(st, "increment not a float")
	}
	e := get(st, env, key)
	cur := 0.0
	var d int64
	if e != nil {
		if e.Kind != KScalar {
			return errOut(st, "not a scalar")
		}
		v, err := strconv.ParseFloat(e.S, 64)
		if err != nil {
			return errOut(st, "value not a number")
		}
		cur = v
		d = e.Deadline
	}
	res := cur + by
	var outs []Outcome
	if math.IsNaN(res) || math.IsInf(res, 0) || math.IsNaN(by) || math.IsInf(by, 0) {
		outs = append(outs, errOut(st, "nan/inf")...)
	}
	// The statement fixes the arithmetic, not the print format: accept any
	// text that parses to res and make it the stored text.
	outs = append(outs, Outcome{
		Reply: MNum(res),
		State: st,
		Follow: func(v resp.Value, base *State) bool {
			t, ok := v.Text()
			if !ok {
				return false
			}
			base.DB(env.DB)[key] = &Entry{Kind: KScalar, S: t, Deadline: d}
			return true
		},
	})
	return outs
}

func mRename(st *State, env Env, a []string) []Outcome {
	if len(a) != 3 {
		return errOut(st, "arity")
	}
	src := get(st, env, a[1])
	if src == nil {
		return errOut(st, "no such key")
	}
	if a[1] == a[2] {
		return one(MOK(), st)
	}
	n := st.Clone()
	n.DB(env.DB)[a[2]] = src.Clone()
	delete(n.DB(env.DB), a[1])
	return one(MOK(), n)
}

func mGetDel(st *State, env Env, a []string) []Outcome {
	if len(a) != 2 {
		return errOut(st, "arity")
	}
	e := get(st, env, a[1])
	if e == nil {
		return one(MNil(), st)
	}
	if e.Kind != KScalar {
		return errOut(st, "not a scalar")
	}
	n := st.Clone()
	delete(n.DB(env.DB), a[1])
	return one(MText(e.S), n)
}

func mGetEx(st *State, env Env, a []string) []Outcome {
	if len(a) < 2 || len(a) > 4 {
		return errOut(st, "arity")
	}
	e := get(st, env, a[1])
	// option validation comes first: a malformed command is an error whatever the key holds
	kind := "" // "", "persist", or expiry kw
	var deadline int64
	var nonPositive, tolerated bool
	if len(a) >= 3 {
		switch {
		case isKW(a[2], "persist"):
			// "If time is provided with PERSIST it is effectively ignored" (handler comment): error or ignored.
			tolerated = len(a) != 3
			kind = "persist"
		case isExpiryKW(a[2]):
			if len(a) != 4 {
				// The suite pins "don't set expiration when time not provided": error or plain GET.
				outs := errOut(st, "missing expiry value")
				switch {
				case e == nil:
					outs = append(outs, Outcome{Reply: MNil(), State: st})
				case e.Kind == KScalar:
					outs = append(outs, Outcome{Reply: MText(e.S), State: st})
				}
				return outs
			}
			d, np, ok := parseExpiryOpt(env.Now, a[2], a[3])
			if !ok {
				if e == nil {
					return one(MAny(MErr(), MNil()), st)
				}
				return errOut(st, "expiry value")
			}
			kind, deadline, nonPositive = "exp", d, np
		default:
			outs := errOut(st, "unknown option")
			switch {
			case e == nil:
				outs = append(outs, Outcome{Reply: MNil(), State: st})
			case e.Kind == KScalar && len(a) == 3:
				// an option without a value is treated as a plain GET by the suite
				outs = append(outs, Outcome{Reply: MText(e.S), State: st})
			}
			return outs
		}
	}
	if e == nil {
		return one(MNil(), st)
	}
	if e.Kind != KScalar {
		return errOut(st, "not a scalar")
	}
	var outs []Outcome
	if tolerated {
		outs = append(outs, errOut(st, "PERSIST with an argument")...)
	}
	if nonPositive {
		outs = append(outs, errOut(st, "non-positive expiry")...)
	}
	n := st.Clone()
	switch kind {
	case "persist":
		n.DB(env.DB)[a[1]].Deadline = 0
	case "exp":
		n.DB(env.DB)[a[1]].Deadline = deadline
	}
	return append(outs, Outcome{Reply: MText(e.S), State: n})
}

func mType(st *State, env Env, a []string) []Outcome {
	if len(a) != 2 {
		return errOut(st, "arity")
	}
	e := get(st, env, a[1])
	if e == nil {
		return one(MAny(MErr(), MText("none")), st)
	}
	switch e.Kind {
	case KList:
		return one(MText("list"), st)
	case KHash:
		return one(MText("hash"), st)
	case KSet:
		return one(MText("set"), st)
	case KZSet:
		return one(MText("zset"), st)
	}
	// scalar: string always allowed; integer/float only if the text is such a number
	ms := []Matcher{MText("string")}
	if _, ok := parseInt64(e.S); ok {
		ms = append(ms, MText("integer"))
	}
	if _, err := strconv.ParseFloat(e.S, 64); err == nil {
		ms = append(ms, MText("float"))
	}
	return one(MAny(ms...), st)
}

func mFlush(st *State, env Env, a []string) []Outcome {
	if len(a) != 1 {
		return errOut(st, "arity")
	}
	n := st.Clone()
	if isKW(a[0], "flushall") {
		n.DBs = map[int]DB{}
	} else {
		delete(n.DBs, env.DB)
	}
	return one(MOK(), n)
}

func mPersist(st *State, env Env, a []string) []Outcome {
	if len(a) != 2 {
		return errOut(st, "arity")
	}
	e := get(st, env, a[1])
	if e == nil || e.Deadline == 0 {
		return one(MBool(false), st)
	}
	n := st.Clone()
	n.DB(env.DB)[a[1]].Deadline = 0
	return one(MBool(true), n)
}

func floorDiv(a, b int64) int64 {
	q := a / b
	if (a%b != 0) && ((a < 0) != (b < 0)) {
		q--
	}
	return q
}

func ceilDiv(a, b int64) int64 { return -floorDiv(-a, b) }

func mTTL(st *State, env Env, a []string) []Outcome {
	if len(a) != 2 {
		return errOut(st, "arity")
	}
	e := get(st, env, a[1])
	if e == nil {
		return one(MInt(-2), st)
	}
	if e.Deadline == 0 {
		return one(MInt(-1), st)
	}
	unit := nsPerS
	if isKW(a[0], "pttl") {
		unit = nsPerMs
	}
	rem := e.Deadline - env.Now
	ms := []Matcher{MInt(floorDiv(rem, unit)), MInt(ceilDiv(rem, unit)),
		MInt(floorDiv(e.Deadline, unit) - floorDiv(env.Now, unit))}
	return one(MAny(ms...), st)
}

func mExpireTime(st *State, env Env, a []string) []Outcome {
	if len(a) != 2 {
		return errOut(st, "arity")
	}
	e := get(st, env, a[1])
	if e == nil {
		return one(MInt(-2), st)
	}
	if e.Deadline == 0 {
		return one(MInt(-1), st)
	}
	unit := nsPerS
	if isKW(a[0], "pexpiretime") {
		unit = nsPerMs
	}
	return one(MAny(MInt(floorDiv(e.Deadline, unit)), MInt(ceilDiv(e.Deadline, unit))), st)
}

func mExpire(st *State, env Env, a []string) []Outcome {
	if len(a) < 3 || len(a) > 4 {
		return errOut(st, "arity")
	}
	kw := map[string]string{"expire": "ex", "pexpire": "px", "expireat": "exat", "pexpireat": "pxat"}[strings.ToLower(a[0])]
	d, _, ok := parseExpiryOpt(env.Now, kw, a[2])
	if !ok {
		return errOut(st, "time not an integer")
	}
	e := get(st, env, a[1])
	opt := ""
	if len(a) == 4 {
		opt = strings.ToLower(a[3])
		switch opt {
		case "nx", "xx", "gt", "lt":
		default:
			if e == nil {
				return one(MAny(MErr(), MBool(false)), st)
			}
			return errOut(st, "unknown option")
		}
	}
	if e == nil {
		return one(MBool(false), st)
	}
	apply := func() []Outcome {
		n := st.Clone()
		n.DB(env.DB)[a[1]].Deadline = d
		return one(MBool(true), n)
	}
	no := func() []Outcome { return one(MBool(false), st) }
	cur := e.Deadline
	switch opt {
	case "":
		return apply()
	case "nx":
		if cur != 0 {
			return no()
		}
		return apply()
	case "xx":
		if cur == 0 {
			return no()
		}
		return apply()
	case "gt":
		// a key without a deadline counts as living for ever: never "greater"
		if cur == 0 || d < cur {
			return no()
		}
		if d == cur {
			return append(no(), apply()...)
		}
		return apply()
	case "lt":
		if cur == 0 || d < cur {
			return apply()
		}
		if d == cur {
			return append(no(), apply()...)
		}
		return no()
	}
	return nil
}

func mRandomKey(st *State, env Env, a []string) []Outcome {
	if len(a) != 1 {
		return errOut(st, "arity")
	}
	db := st.DBs[env.DB]
	if len(db) == 0 {
		return one(MAny(MNil(), MText("")), st)
	}
	return one(MPred("an existing key", func(v resp.Value) bool {
		t, ok := v.Text()
		if !ok || v.Kind == resp.Error {
			return false
		}
		_, exists := db[t]
		return exists
	}), st)
}

func mTouch(st *State, env Env, a []string) []Outcome {
	if len(a) < 2 {
		return errOut(st, "arity")
	}
	// The reply (number of keys touched) depends on the eviction configuration
	// and is not part of any property here; only purity is modelled.
	return one(MPred("any non-error", func(v resp.Value) bool { return v.Kind != resp.Error }), st)
}

// ---------------------------------------------------------------------------
// string module

func mAppend(st *State, env Env, a []string) []Outcome {
	if len(a) != 3 {
		return errOut(st, "arity")
	}
	e := get(st, env, a[1])
	if e == nil {
		n := st.Clone()
		n.DB(env.DB)[a[1]] = &Entry{Kind: KScalar, S: a[2]}
		return one(MInt(int64(len(a[2]))), n)
	}
	if e.Kind != KScalar {
		return errOut(st, "not a string")
	}
	var outs []Outcome
	if mayRefuseAsNonString(e) {
		outs = append(outs, errOut(st, "numeric scalar")...)
	}
	n := st.Clone()
	ne := n.DB(env.DB)[a[1]]
	ne.S = e.S + a[2]
	return append(outs, Outcome{Reply: MInt(int64(len(ne.S))), State: n})
}

func mSetRange(st *State, env Env, a []string) []Outcome {
	if len(a) != 4 {
		return errOut(st, "arity")
	}
	off, ok := parseInt64(a[2])
	if !ok {
		return errOut(st, "offset")
	}
	if off > 1<<20 {
		return nil // not modelled: huge padding
	}
	val := a[3]
	e := get(st, env, a[1])
	if e != nil && e.Kind != KScalar {
		return errOut(st, "not a string")
	}
	var outs []Outcome
	if off < 0 {
		// Not documented; Redis refuses, SugarDB's suite pins "negative offset prepends".
		outs = errOut(st, "negative offset")
		n := st.Clone()
		ne := &Entry{Kind: KScalar, S: val}
		if e != nil {
			ne.S = val + e.S
			ne.Deadline = e.Deadline
		}
		n.DB(env.DB)[a[1]] = ne
		return append(outs, Outcome{Reply: MInt(int64(len(ne.S))), State: n, Note: "prepend"})
	}
	if mayRefuseAsNonString(e) {
		outs = append(outs, errOut(st, "numeric scalar")...)
	}
	cur := ""
	var d int64
	if e != nil {
		cur, d = e.S, e.Deadline
	}
	build := func(pad bool) *State {
		b := []byte(cur)
		o := int(off)
		if o > len(b) {
			if pad {
				b = append(b, make([]byte, o-len(b))...)
			} else {
				o = len(b)
			}
		}
		if o+len(val) > len(b) {
			b = append(b[:o], []byte(val)...)
		} else {
			copy(b[o:], val)
		}
		n := st.Clone()
		n.DB(env.DB)[a[1]] = &Entry{Kind: KScalar, S: string(b), Deadline: d}
		return n
	}
	padded := build(true)
	outs = append(outs, Outcome{Reply: MInt(int64(len(padded.DBs[env.DB][a[1]].S))), State: padded})
	if int(off) > len(cur) {
		// zero padding beyond the end is not documented: appending at the end is accepted too
		np := build(false)
		outs = append(outs, Outcome{Reply: MInt(int64(len(np.DBs[env.DB][a[1]].S))), State: np, Note: "no padding"})
	}
	return outs
}

func mGetRange(st *State, env Env, a []string) []Outcome {
	if len(a) != 4 {
		return errOut(st, "arity")
	}
	s, ok1 := parseInt64(a[2])
	t, ok2 := parseInt64(a[3])
	if !ok1 || !ok2 {
		return errOut(st, "indices")
	}
	e := get(st, env, a[1])
	if e == nil {
		return one(MAny(MText(""), MNil(), MErr()), st)
	}
	if e.Kind != KScalar {
		return errOut(st, "not a string")
	}
	var outs []Outcome
	if mayRefuseAsNonString(e) {
		outs = append(outs, errOut(st, "numeric scalar")...)
	}
	n := int64(len(e.S))
	if s < 0 {
		s += n
	}
	if t < 0 {
		t += n
	}
	if s > t {
		// Empty range. Redis replies ""; SugarDB's suite pins "when end index is smaller than
		// start index, the 2 indices are reversed" (the bytes between them, reversed).
		ms := []Matcher{MText(""), MErr()}
		rev := func(x string) string {
			b := []byte(x)
			for i, j := 0, len(b)-1; i < j; i, j = i+1, j-1 {
				b[i], b[j] = b[j], b[i]
			}
			return string(b)
		}
		clamp := func(x int64) int64 {
			if x < 0 {
				return 0
			}
			if x > n {
				return n
			}
			return x
		}
		lo := clamp(t)
		for _, hi := range []int64{clamp(s), clamp(s + 1)} {
			if lo <= hi {
				ms = append(ms, MText(rev(e.S[lo:hi])))
			}
		}
		return append(outs, Outcome{Reply: MAny(ms...), State: st})
	}
	if s < 0 {
		s = 0
	}
	if t >= n {
		t = n - 1
	}
	if s > t || s >= n {
		return append(outs, Outcome{Reply: MAny(MText(""), MErr()), State: st})
	}
	return append(outs, Outcome{Reply: MText(e.S[s : t+1]), State: st})
}

func mStrLen(st *State, env Env, a []string) []Outcome {
	if len(a) != 2 {
		return errOut(st, "arity")
	}
	e := get(st, env, a[1])
	if e == nil {
		return one(MInt(0), st)
	}
	if e.Kind != KScalar {
		return errOut(st, "not a string")
	}
	var outs []Outcome
	if mayRefuseAsNonString(e) {
		outs = append(outs, errOut(st, "numeric scalar")...)
	}
	return append(outs, Outcome{Reply: MInt(int64(len(e.S))), State: st})
}
