package model

import (
	"math"
	"math/big"
	"sort"
	"strconv"
	"strings"

	"verif/harness/resp"
)

// Reference model of the 14 hash commands (property C14): a hash is a plain Go
// map from field to value text. Sources: the property statement, the command
// Descriptions / docs/docs/commands/hash, DESIGN.md Appendix A; Redis only where
// those are silent.

func init() {
	register("hset", func(st *State, env Env, a []string) []Outcome { return mHSet(st, env, a, false) })
	register("hsetnx", func(st *State, env Env, a []string) []Outcome { return mHSet(st, env, a, true) })
	register("hget", mHGet)
	register("hmget", mHGet)
	register("hstrlen", mHStrLen)
	register("hvals", mHVals)
	register("hkeys", mHKeys)
	register("hgetall", mHGetAll)
	register("hlen", mHLen)
	register("hexists", mHExists)
	register("hdel", mHDel)
	register("hrandfield", mHRandField)
	register("hincrby", mHIncrBy)
	register("hincrbyfloat", mHIncrByFloat)
}

// ---------------------------------------------------------------------------
// helpers

// hashOf returns the hash entry at key (nil if absent) and whether the key
// holds a value of another kind.
func hashOf(st *State, env Env, key string) (e *Entry, wrong bool) {
	e = get(st, env, key)
	if e == nil {
		return nil, false
	}
	if e.Kind != KHash {
		return nil, true
	}
	return e, false
}

func hashSortedFields(e *Entry) []string {
	fs := make([]string, 0, len(e.H))
	for f := range e.H {
		fs = append(fs, f)
	}
	sort.Strings(fs)
	return fs
}

// hashNum classifies a stored field text: integer (fits int64), other number
// (float64), or not a number.
func hashNum(s string) (i int64, f float64, isInt, isNum bool) {
	if v, ok := parseInt64(s); ok {
		return v, float64(v), true, true
	}
	// decimal notation only (no hexadecimal floats, no digit separators)
	if strings.ContainsAny(s, "xXpP_") {
		return 0, 0, false, false
	}
	if v, err := strconv.ParseFloat(s, 64); err == nil {
		return 0, v, false, true
	}
	return 0, 0, false, false
}

// hashFloatTexts returns the decimal renderings of a float64 that denote the
// same number: shortest 'g' form ("1e+21"), plain 'f' form ("1000000000000000000000").
func hashFloatTexts(f float64) []string {
	g := strconv.FormatFloat(f, 'g', -1, 64)
	p := strconv.FormatFloat(f, 'f', -1, 64)
	if g == p {
		return []string{g}
	}
	return []string{g, p}
}

// hashSciForm reports whether the stored text is a number whose shortest
// rendering uses an exponent / Inf / NaN, i.e. a text that has more than one
// customary decimal rendering. Such a text can only be the result of
// HINCRBYFLOAT/HINCRBY arithmetic (written values of that form are the listed
// finding C14-KF1), so reading it back is compared numerically.
func hashSciForm(s string) (float64, bool) {
	_, f, isInt, isNum := hashNum(s)
	if !isNum || isInt {
		return 0, false
	}
	return f, strconv.FormatFloat(f, 'f', -1, 64) != s
}

// HashValueStable reports whether a value written by HSET/HSETNX survives the
// server's numeric value typing byte for byte on every read path: it is
// AdaptStable and, if it is a non-integer number, it is the plain decimal
// rendering of that number (hash replies print floats without exponent).
func HashValueStable(s string) bool {
	n, _, err := big.ParseFloat(s, 10, 256, big.ToNearestEven)
	if err != nil {
		return true // not numeric: stored as the string itself
	}
	if n.IsInt() {
		i, _ := n.Int64()
		return strconv.Itoa(int(i)) == s
	}
	f, _ := n.Float64()
	if math.IsInf(f, 0) {
		return false
	}
	// hash readers print floats in plain decimal: the value survives iff it is that rendering
	return strconv.FormatFloat(f, 'f', -1, 64) == s
}

// hashValM matches a reply element carrying the field value s.
func hashValM(s string) Matcher {
	if f, sci := hashSciForm(s); sci {
		return MAny(MText(s), MNum(f))
	}
	return MText(s)
}

// hashValLens is the set of acceptable HSTRLEN answers for the value s.
func hashValLens(s string) []int64 {
	out := []int64{int64(len(s))}
	if f, sci := hashSciForm(s); sci {
		for _, t := range hashFloatTexts(f) {
			if int64(len(t)) != out[0] {
				out = append(out, int64(len(t)))
			}
		}
	}
	return out
}

// hashBagM matches an array whose elements can be matched one-to-one (in any
// order) with the given matchers.
func hashBagM(desc string, ms []Matcher) Matcher {
	return Matcher{desc, func(v resp.Value) bool {
		if !v.IsSeq() || len(v.Elems) != len(ms) {
			return false
		}
		n := len(ms)
		matchOf := make([]int, n) // reply element -> matcher index
		for i := range matchOf {
			matchOf[i] = -1
		}
		var try func(m int, seen []bool) bool
		try = func(m int, seen []bool) bool {
			for e := 0; e < n; e++ {
				if seen[e] || !ms[m].F(v.Elems[e]) {
					continue
				}
				seen[e] = true
				if matchOf[e] < 0 || try(matchOf[e], seen) {
					matchOf[e] = m
					return true
				}
			}
			return false
		}
		for m := 0; m < n; m++ {
			if !try(m, make([]bool, n)) {
				return false
			}
		}
		return true
	}}
}

// hashPairs extracts (field, value element) pairs from a reply that is either a
// flat array f,v,f,v…, a RESP3 map, or an array of two-element arrays.
func hashPairs(v resp.Value) (fields []string, vals []resp.Value, ok bool) {
	if v.Kind != resp.Map && !v.IsSeq() {
		return nil, nil, false
	}
	el := v.Elems
	nested := v.Kind != resp.Map && len(el) > 0
	for _, e := range el {
		if !(e.IsSeq() && len(e.Elems) == 2) {
			nested = false
		}
	}
	if nested {
		flat := make([]resp.Value, 0, 2*len(el))
		for _, e := range el {
			flat = append(flat, e.Elems...)
		}
		el = flat
	}
	if len(el)%2 != 0 {
		return nil, nil, false
	}
	for i := 0; i < len(el); i += 2 {
		if el[i].Kind == resp.Null || el[i].Kind == resp.Error {
			return nil, nil, false
		}
		t, isText := el[i].Text()
		if !isText {
			return nil, nil, false
		}
		fields = append(fields, t)
		vals = append(vals, el[i+1])
	}
	return fields, vals, true
}

// ---------------------------------------------------------------------------
// HSET / HSETNX

// mHSet: HSET key field value [field value ...] sets every listed field;
// HSETNX only the fields that are absent. The resulting hash is determinate
// (pairs are applied in argument order); the reply is the number of fields
// added or the number of fields written (Appendix A).
func mHSet(st *State, env Env, a []string, nx bool) []Outcome {
	if len(a) < 4 || len(a)%2 != 0 {
		return errOut(st, "arity")
	}
	key := a[1]
	old, wrong := hashOf(st, env, key)
	if wrong {
		// The statement only requires READING a key of another type to fail. For HSET the suite pins
		// "HSET overwrites when the target key is not a map" (internal/modules/hash/commands_test.go,
		// sugardb/api_hash_test.go): refusing, or replacing the value as if the key had been absent
		// (deadline cleared or kept), are both accepted.
		outs := errOut(st, "not a hash")
		tmp := st.Clone()
		d := tmp.DB(env.DB)[key].Deadline
		delete(tmp.DB(env.DB), key)
		for _, o := range mHSet(tmp, env, a, nx) {
			if o.State == tmp {
				continue // the error outcome of the recursive call
			}
			o.Note = "overwrites the non-hash value"
			outs = append(outs, o)
			if d != 0 && o.State.DBs[env.DB][key] != nil {
				k := o.State.Clone()
				k.DBs[env.DB][key].Deadline = d
				outs = append(outs, Outcome{Reply: o.Reply, State: k, Note: "overwrites the non-hash value, deadline kept"})
			}
		}
		return outs
	}
	// apply builds the result; lastWins only matters for HSETNX naming the same
	// absent field twice (the documented multi-field HSETNX does not say whether
	// "does not exist" is judged against the hash before the command or pair by pair).
	apply := func(lastWins bool) (*State, int64, int64, int64) {
		n := st.Clone()
		e := n.DB(env.DB)[key]
		if e == nil {
			e = &Entry{Kind: KHash, H: map[string]string{}}
			n.DB(env.DB)[key] = e
		}
		var added, written int64
		touched := map[string]bool{}
		for i := 2; i+1 < len(a); i += 2 {
			f, v := a[i], a[i+1]
			_, present := e.H[f]
			existedBefore := false
			if old != nil {
				_, existedBefore = old.H[f]
			}
			if nx {
				if existedBefore || (present && !lastWins) {
					continue
				}
			}
			if !present {
				added++
			}
			e.H[f] = v
			written++
			touched[f] = true
		}
		return n, added, written, int64(len(touched))
	}
	mk := func(lastWins bool) Outcome {
		n, added, written, distinct := apply(lastWins)
		return Outcome{Reply: MAny(MInt(added), MInt(written), MInt(distinct)), State: n}
	}
	outs := []Outcome{mk(false)}
	if nx {
		alt := mk(true)
		alt.Note = "HSETNX duplicate field: last pair wins"
		outs = append(outs, alt)
	} else {
		// for HSET the later pair always wins
		outs = []Outcome{mk(true)}
	}
	return outs
}

// ---------------------------------------------------------------------------
// reads

// mHGet models HGET and HMGET: (HGET key field [field ...]).
func mHGet(st *State, env Env, a []string) []Outcome {
	if len(a) < 3 {
		return errOut(st, "arity")
	}
	e, wrong := hashOf(st, env, a[1])
	if wrong {
		return errOut(st, "not a hash")
	}
	fields := a[2:]
	ms := make([]Matcher, len(fields))
	for i, f := range fields {
		ms[i] = MNil()
		if e != nil {
			if v, ok := e.H[f]; ok {
				ms[i] = hashValM(v)
			}
		}
	}
	alts := []Matcher{MSeq(ms...)}
	if len(fields) == 1 {
		alts = append(alts, ms[0]) // bare value (Redis HGET) or one-element array
	}
	if e == nil {
		// absent key: a single nil is pinned by "Return nil when attempting to get from non-existed key"
		alts = append(alts, MNil())
	}
	return one(MAny(alts...), st)
}

func mHStrLen(st *State, env Env, a []string) []Outcome {
	if len(a) < 3 {
		return errOut(st, "arity")
	}
	e, wrong := hashOf(st, env, a[1])
	if wrong {
		return errOut(st, "not a hash")
	}
	fields := a[2:]
	ms := make([]Matcher, len(fields))
	for i, f := range fields {
		ms[i] = MInt(0)
		if e != nil {
			if v, ok := e.H[f]; ok {
				var alt []Matcher
				for _, l := range hashValLens(v) {
					alt = append(alt, MInt(l))
				}
				ms[i] = MAny(alt...)
			}
		}
	}
	alts := []Matcher{MSeq(ms...)}
	if len(fields) == 1 {
		alts = append(alts, ms[0])
	}
	if e == nil {
		// pinned by "Nil response when trying to get HSTRLEN non-existent key"
		alts = append(alts, MNil())
	}
	return one(MAny(alts...), st)
}

func mHVals(st *State, env Env, a []string) []Outcome {
	if len(a) != 2 {
		return errOut(st, "arity")
	}
	e, wrong := hashOf(st, env, a[1])
	if wrong {
		return errOut(st, "not a hash")
	}
	if e == nil {
		return one(MEmptySeq(false), st)
	}
	fs := hashSortedFields(e)
	ms := make([]Matcher, len(fs))
	vs := make([]string, len(fs))
	for i, f := range fs {
		ms[i] = hashValM(e.H[f])
		vs[i] = e.H[f]
	}
	return one(hashBagM("bag of values "+strconv.Quote(hashTrunc(vs)), ms), st)
}

func hashTrunc(ss []string) string {
	out := ""
	for i, s := range ss {
		if i > 0 {
			out += ","
		}
		if len(s) > 24 {
			s = s[:24] + "…"
		}
		out += s
	}
	if len(out) > 200 {
		out = out[:200] + "…"
	}
	return out
}

func mHKeys(st *State, env Env, a []string) []Outcome {
	if len(a) != 2 {
		return errOut(st, "arity")
	}
	e, wrong := hashOf(st, env, a[1])
	if wrong {
		return errOut(st, "not a hash")
	}
	if e == nil {
		return one(MEmptySeq(false), st)
	}
	return one(MTextBag(hashSortedFields(e)), st)
}

func mHGetAll(st *State, env Env, a []string) []Outcome {
	if len(a) != 2 {
		return errOut(st, "arity")
	}
	e, wrong := hashOf(st, env, a[1])
	if wrong {
		return errOut(st, "not a hash")
	}
	if e == nil {
		return one(MPred("empty array", func(v resp.Value) bool {
			return (v.IsSeq() || v.Kind == resp.Map) && len(v.Elems) == 0
		}), st)
	}
	want := e.H
	return one(MPred("field/value pairs of "+CanonEntry(&Entry{Kind: KHash, H: want}), func(v resp.Value) bool {
		fs, vals, ok := hashPairs(v)
		if !ok || len(fs) != len(want) {
			return false
		}
		seen := map[string]bool{}
		for i, f := range fs {
			w, exists := want[f]
			if !exists || seen[f] || !hashValM(w).F(vals[i]) {
				return false
			}
			seen[f] = true
		}
		return true
	}), st)
}

func mHLen(st *State, env Env, a []string) []Outcome {
	if len(a) != 2 {
		return errOut(st, "arity")
	}
	e, wrong := hashOf(st, env, a[1])
	if wrong {
		return errOut(st, "not a hash")
	}
	if e == nil {
		return one(MInt(0), st)
	}
	return one(MInt(int64(len(e.H))), st)
}

func mHExists(st *State, env Env, a []string) []Outcome {
	if len(a) != 3 {
		return errOut(st, "arity")
	}
	e, wrong := hashOf(st, env, a[1])
	if wrong {
		return errOut(st, "not a hash")
	}
	if e == nil {
		return one(MBool(false), st)
	}
	_, ok := e.H[a[2]]
	return one(MBool(ok), st)
}

// ---------------------------------------------------------------------------
// HDEL

func mHDel(st *State, env Env, a []string) []Outcome {
	if len(a) < 3 {
		return errOut(st, "arity")
	}
	key := a[1]
	e, wrong := hashOf(st, env, key)
	if wrong {
		return errOut(st, "not a hash")
	}
	if e == nil {
		return one(MInt(0), st)
	}
	n := st.Clone()
	ne := n.DB(env.DB)[key]
	cnt := int64(0)
	for _, f := range a[2:] {
		if _, ok := ne.H[f]; ok {
			delete(ne.H, f)
			cnt++
		}
	}
	if cnt == 0 {
		return one(MInt(0), st)
	}
	outs := []Outcome{{Reply: MInt(cnt), State: n}}
	if len(ne.H) == 0 {
		// emptied: key absent or present-and-empty (Appendix A)
		gone := st.Clone()
		delete(gone.DB(env.DB), key)
		outs = append(outs, Outcome{Reply: MInt(cnt), State: gone, Note: "emptied hash removed"})
	}
	return outs
}

// ---------------------------------------------------------------------------
// HRANDFIELD

// mHRandField: (HRANDFIELD key [count [WITHVALUES]]).
func mHRandField(st *State, env Env, a []string) []Outcome {
	if len(a) < 2 || len(a) > 4 {
		return errOut(st, "arity")
	}
	hasCount := len(a) >= 3
	count := int64(1)
	if hasCount {
		c, ok := parseInt64(a[2])
		if !ok {
			return errOut(st, "count not an integer")
		}
		count = c
	}
	withValues := false
	if len(a) == 4 {
		if !isKW(a[3], "withvalues") {
			return errOut(st, "unknown option")
		}
		withValues = true
	}
	e, wrong := hashOf(st, env, a[1])
	if wrong {
		return errOut(st, "not a hash")
	}
	if count < -(1 << 20) {
		return nil // not modelled: a reply of more than a million elements
	}
	if e == nil || len(e.H) == 0 {
		return one(MEmptySeq(true), st)
	}
	if hasCount && count == 0 {
		return one(MEmptySeq(false), st)
	}
	h := e.H
	n := int64(len(h))
	want := count
	distinct := true
	if count < 0 {
		want, distinct = -count, false
	} else if count > n {
		want = n
	}
	check := func(fields []string, vals []resp.Value) bool {
		if int64(len(fields)) != want {
			return false
		}
		seen := map[string]bool{}
		for i, f := range fields {
			v, ok := h[f]
			if !ok || (distinct && seen[f]) {
				return false
			}
			seen[f] = true
			if vals != nil && !hashValM(v).F(vals[i]) {
				return false
			}
		}
		return true
	}
	desc := "a selection of " + strconv.FormatInt(want, 10) + " current fields"
	if distinct {
		desc += " (distinct)"
	}
	if withValues {
		desc += " with their values"
	}
	return one(MPred(desc, func(v resp.Value) bool {
		if !hasCount {
			// one field: bare or one-element array
			if t, ok := v.Text(); ok && v.Kind != resp.Error && v.Kind != resp.Null {
				return check([]string{t}, nil)
			}
		}
		if withValues {
			fs, vals, ok := hashPairs(v)
			return ok && check(fs, vals)
		}
		if !v.IsSeq() {
			return false
		}
		fs := make([]string, 0, len(v.Elems))
		for _, el := range v.Elems {
			t, ok := el.Text()
			if !ok || el.Kind == resp.Error || el.Kind == resp.Null {
				return false
			}
			fs = append(fs, t)
		}
		return check(fs, nil)
	}), st)
}

// ---------------------------------------------------------------------------
// HINCRBY / HINCRBYFLOAT

// hashFloatOutcome: the reply is a number equal to res; the stored text is any
// decimal rendering of that number (the statement fixes the arithmetic, not the
// print format), adopted from what is observed.
func hashFloatOutcomes(st *State, env Env, key, field string, res float64, note string) []Outcome {
	mkFollow := func(render func(reply string, f float64) string) func(v resp.Value, base *State) bool {
		return func(v resp.Value, base *State) bool {
			t, ok := v.Text()
			if !ok {
				return false
			}
			e := base.DB(env.DB)[key]
			if e == nil {
				e = &Entry{Kind: KHash, H: map[string]string{}}
				base.DB(env.DB)[key] = e
			}
			e.H[field] = render(t, res)
			return true
		}
	}
	renders := []func(string, float64) string{
		func(reply string, f float64) string { return reply },
		func(reply string, f float64) string {
			// the rendering the dump uses for a float
			if math.IsInf(f, 1) {
				return "+Inf"
			}
			return strconv.FormatFloat(f, 'g', -1, 64)
		},
		func(reply string, f float64) string { return strconv.FormatFloat(f, 'f', -1, 64) },
	}
	var outs []Outcome
	for _, r := range renders {
		outs = append(outs, Outcome{Reply: MNum(res), State: st, Note: note, Follow: mkFollow(r)})
	}
	return outs
}

func mHIncrBy(st *State, env Env, a []string) []Outcome {
	if len(a) != 4 {
		return errOut(st, "arity")
	}
	key, field := a[1], a[2]
	by, ok := parseInt64(a[3])
	if !ok {
		return errOut(st, "increment not an integer")
	}
	e, wrong := hashOf(st, env, key)
	if wrong {
		return errOut(st, "not a hash")
	}
	curText := "0"
	if e != nil {
		if v, present := e.H[field]; present {
			curText = v
		}
	}
	ci, cf, isInt, isNum := hashNum(curText)
	if !isNum {
		return errOut(st, "field value not a number")
	}
	if !isInt {
		// HINCRBY on a non-integer number: refused (Redis) or added ("add to numeric fields")
		outs := errOut(st, "field value not an integer")
		res := cf + float64(by)
		return append(outs, hashFloatOutcomes(st, env, key, field, res, "integer added to a float field")...)
	}
	sum := new(big.Int).Add(big.NewInt(ci), big.NewInt(by))
	if !sum.IsInt64() {
		// outside the 64 bit signed range: refused, or carried out as a float addition
		outs := errOut(st, "overflow")
		return append(outs, hashFloatOutcomes(st, env, key, field, float64(ci)+float64(by), "overflow carried out in floating point")...)
	}
	res := sum.Int64()
	n := st.Clone()
	ne := n.DB(env.DB)[key]
	if ne == nil {
		ne = &Entry{Kind: KHash, H: map[string]string{}}
		n.DB(env.DB)[key] = ne
	}
	ne.H[field] = strconv.FormatInt(res, 10)
	return one(MText(strconv.FormatInt(res, 10)), n)
}

func mHIncrByFloat(st *State, env Env, a []string) []Outcome {
	if len(a) != 4 {
		return errOut(st, "arity")
	}
	key, field := a[1], a[2]
	by, err := strconv.ParseFloat(a[3], 64)
	if err != nil {
		return errOut(st, "increment not a float")
	}
	e, wrong := hashOf(st, env, key)
	if wrong {
		return errOut(st, "not a hash")
	}
	curText := "0"
	if e != nil {
		if v, present := e.H[field]; present {
			curText = v
		}
	}
	_, cf, _, isNum := hashNum(curText)
	if !isNum {
		return errOut(st, "field value not a number")
	}
	res := cf + by
	var outs []Outcome
	if math.IsNaN(res) || math.IsInf(res, 0) || math.IsNaN(by) || math.IsInf(by, 0) {
		outs = append(outs, errOut(st, "nan/inf")...)
	}
	return append(outs, hashFloatOutcomes(st, env, key, field, res, "")...)
}
