package model

import (
	"fmt"
	"math/big"
	"strconv"
)

// adaptNumeric mirrors the documented value typing of written strings
// ("considering the value's type": integer, float or string). It returns the
// text the server would render for the typed value and whether the text is
// numeric at all. It is used only to recognise inputs, never as an oracle.
func adaptNumeric(s string) (string, bool) {
	n, _, err := big.ParseFloat(s, 10, 256, big.ToNearestEven)
	if err != nil {
		return s, false
	}
	if n.IsInt() {
		i, _ := n.Int64()
		return strconv.Itoa(int(i)), true
	}
	f, _ := n.Float64()
	return fmt.Sprintf("%v", f), true
}

// AdaptStable reports whether a written string survives the server's value
// typing byte for byte (it is not numeric, or it is the canonical rendering of
// the number it denotes).
func AdaptStable(s string) bool {
	r, num := adaptNumeric(s)
	return !num || r == s
}
