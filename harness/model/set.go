package model

import (
	"sort"

	"verif/harness/resp"
)

// Reference model of the 16 set commands (property C16): a set is a plain Go
// map; every command is the textbook operation on finite sets. An absent key
// is the empty set; a key of another kind makes the command fail.

func init() {
	register("sadd", mSAdd)
	register("srem", mSRem)
	register("sismember", mSIsMember)
	register("smismember", mSMIsMember)
	register("scard", mSCard)
	register("smembers", mSMembers)
	register("sunion", func(st *State, env Env, a []string) []Outcome { return mSetAlgebra(st, env, a, "union", false) })
	register("sinter", func(st *State, env Env, a []string) []Outcome { return mSetAlgebra(st, env, a, "inter", false) })
	register("sdiff", func(st *State, env Env, a []string) []Outcome { return mSetAlgebra(st, env, a, "diff", false) })
	register("sunionstore", func(st *State, env Env, a []string) []Outcome { return mSetAlgebra(st, env, a, "union", true) })
	register("sinterstore", func(st *State, env Env, a []string) []Outcome { return mSetAlgebra(st, env, a, "inter", true) })
	register("sdiffstore", func(st *State, env Env, a []string) []Outcome { return mSetAlgebra(st, env, a, "diff", true) })
	register("sintercard", mSInterCard)
	register("smove", mSMove)
	register("spop", func(st *State, env Env, a []string) []Outcome { return mSRandom(st, env, a, true) })
	register("srandmember", func(st *State, env Env, a []string) []Outcome { return mSRandom(st, env, a, false) })
}

// setHugeCount bounds the |count| for which a randomised selection is modelled
// element by element.
const setHugeCount = 1 << 20

func setSorted(m map[string]struct{}) []string {
	out := make([]string, 0, len(m))
	for k := range m {
		out = append(out, k)
	}
	sort.Strings(out)
	return out
}

// setOf returns the members of the set at key (empty for an absent key) and
// whether the key is absent / holds another kind.
func setOf(st *State, env Env, key string) (m map[string]struct{}, absent, wrong bool) {
	e := get(st, env, key)
	switch {
	case e == nil:
		return map[string]struct{}{}, true, false
	case e.Kind != KSet:
		return nil, false, true
	}
	return e.M, false, false
}

// setShrunk returns the states allowed after the set at key was reduced to m
// (deadline d): when m is empty the key may be gone or present-and-empty.
func setShrunk(st *State, env Env, key string, m map[string]struct{}, d int64) []*State {
	keep := st.Clone()
	keep.DB(env.DB)[key] = &Entry{Kind: KSet, M: m, Deadline: d}
	if len(m) > 0 {
		return []*State{keep}
	}
	gone := st.Clone()
	delete(gone.DB(env.DB), key)
	return []*State{gone, keep}
}

func setCopy(m map[string]struct{}) map[string]struct{} {
	c := make(map[string]struct{}, len(m))
	for k := range m {
		c[k] = struct{}{}
	}
	return c
}

func mSAdd(st *State, env Env, a []string) []Outcome {
	if len(a) < 3 {
		return errOut(st, "arity")
	}
	m, _, wrong := setOf(st, env, a[1])
	if wrong {
		return errOut(st, "not a set")
	}
	var d int64
	if e := get(st, env, a[1]); e != nil {
		d = e.Deadline
	}
	nm := setCopy(m)
	added := int64(0)
	for _, x := range a[2:] {
		if _, ok := nm[x]; !ok {
			nm[x] = struct{}{}
			added++
		}
	}
	n := st.Clone()
	n.DB(env.DB)[a[1]] = &Entry{Kind: KSet, M: nm, Deadline: d}
	return one(MInt(added), n)
}

func mSRem(st *State, env Env, a []string) []Outcome {
	if len(a) < 3 {
		return errOut(st, "arity")
	}
	m, absent, wrong := setOf(st, env, a[1])
	if wrong {
		return errOut(st, "not a set")
	}
	if absent {
		return one(MInt(0), st)
	}
	nm := setCopy(m)
	removed := int64(0)
	for _, x := range a[2:] {
		if _, ok := nm[x]; ok {
			delete(nm, x)
			removed++
		}
	}
	if removed == 0 {
		return one(MInt(0), st)
	}
	var outs []Outcome
	for _, n := range setShrunk(st, env, a[1], nm, get(st, env, a[1]).Deadline) {
		outs = append(outs, Outcome{Reply: MInt(removed), State: n})
	}
	return outs
}

func mSIsMember(st *State, env Env, a []string) []Outcome {
	if len(a) != 3 {
		return errOut(st, "arity")
	}
	m, _, wrong := setOf(st, env, a[1])
	if wrong {
		return errOut(st, "not a set")
	}
	_, ok := m[a[2]]
	return one(MBool(ok), st)
}

func mSMIsMember(st *State, env Env, a []string) []Outcome {
	if len(a) < 3 {
		return errOut(st, "arity")
	}
	m, _, wrong := setOf(st, env, a[1])
	if wrong {
		return errOut(st, "not a set")
	}
	ms := make([]Matcher, 0, len(a)-2)
	for _, x := range a[2:] {
		_, ok := m[x]
		ms = append(ms, MBool(ok))
	}
	return one(MSeq(ms...), st)
}

func mSCard(st *State, env Env, a []string) []Outcome {
	if len(a) != 2 {
		return errOut(st, "arity")
	}
	m, _, wrong := setOf(st, env, a[1])
	if wrong {
		return errOut(st, "not a set")
	}
	return one(MInt(int64(len(m))), st)
}

func mSMembers(st *State, env Env, a []string) []Outcome {
	if len(a) != 2 {
		return errOut(st, "arity")
	}
	m, _, wrong := setOf(st, env, a[1])
	if wrong {
		return errOut(st, "not a set")
	}
	return one(MTextBag(setSorted(m)), st)
}

// setCombine computes op over the operand keys. wrongAt lists the operand
// positions holding another kind, anyAbsent whether some operand is absent.
// Operands of another kind are treated as empty sets in the result (only used
// where skipping them is allowed).
func setCombine(st *State, env Env, keys []string, op string) (res map[string]struct{}, wrongAt []int, anyAbsent bool) {
	sets := make([]map[string]struct{}, len(keys))
	for i, k := range keys {
		m, absent, wrong := setOf(st, env, k)
		if wrong {
			wrongAt = append(wrongAt, i)
			m = map[string]struct{}{}
		}
		if absent {
			anyAbsent = true
		}
		sets[i] = m
	}
	res = map[string]struct{}{}
	switch op {
	case "union":
		for _, s := range sets {
			for x := range s {
				res[x] = struct{}{}
			}
		}
	case "inter":
		for x := range sets[0] {
			in := true
			for _, s := range sets[1:] {
				if _, ok := s[x]; !ok {
					in = false
					break
				}
			}
			if in {
				res[x] = struct{}{}
			}
		}
	case "diff":
		for x := range sets[0] {
			in := false
			for _, s := range sets[1:] {
				if _, ok := s[x]; ok {
					in = true
					break
				}
			}
			if !in {
				res[x] = struct{}{}
			}
		}
	}
	return res, wrongAt, anyAbsent
}

// mSetAlgebra models SUNION/SINTER/SDIFF and their STORE variants.
func mSetAlgebra(st *State, env Env, a []string, op string, store bool) []Outcome {
	first := 1
	if store {
		first = 2
	}
	if len(a) < first+1 {
		return errOut(st, "arity")
	}
	keys := a[first:]
	res, wrongAt, anyAbsent := setCombine(st, env, keys, op)

	// result outcome(s): the reply for the plain command, the replaced
	// destination for the STORE variant.
	result := func(res map[string]struct{}, note string) []Outcome {
		if !store {
			return []Outcome{{Reply: MTextBag(setSorted(res)), State: st, Note: note}}
		}
		dest := a[1]
		reply := MInt(int64(len(res)))
		var outs []Outcome
		n := st.Clone()
		n.DB(env.DB)[dest] = &Entry{Kind: KSet, M: setCopy(res)}
		outs = append(outs, Outcome{Reply: reply, State: n, Note: note})
		if old := get(st, env, dest); old != nil && old.Deadline != 0 {
			// whether replacing a whole key clears its deadline is not documented
			k := st.Clone()
			k.DB(env.DB)[dest] = &Entry{Kind: KSet, M: setCopy(res), Deadline: old.Deadline}
			outs = append(outs, Outcome{Reply: reply, State: k, Note: note + " deadline kept"})
		}
		if len(res) == 0 {
			g := st.Clone()
			delete(g.DB(env.DB), dest)
			outs = append(outs, Outcome{Reply: reply, State: g, Note: note + " empty result: destination absent"})
		}
		return outs
	}

	if len(wrongAt) == 0 {
		return result(res, "")
	}
	// some operand is not a set: error
	outs := errOut(st, "operand is not a set")
	switch op {
	case "diff":
		// Description of SDIFF: "All keys that are non-existed or hold values that are not sets
		// will be skipped" (pinned by "3. Return base set element if base set is the only valid
		// set"); the base set itself must be a set.
		if wrongAt[0] != 0 {
			outs = append(outs, result(res, "non-set operands skipped")...)
		}
	case "inter":
		// An absent operand makes the intersection empty whatever the other operands are;
		// the suite pins "If any of the keys does not exist, return an empty array" with a
		// non-set key among the operands.
		if anyAbsent {
			outs = append(outs, result(map[string]struct{}{}, "absent operand: empty")...)
		}
	}
	return outs
}

func mSInterCard(st *State, env Env, a []string) []Outcome {
	if len(a) < 2 {
		return errOut(st, "arity")
	}
	limIdx := -1
	for i := 1; i < len(a); i++ {
		if isKW(a[i], "limit") {
			limIdx = i
			break
		}
	}
	keys := a[1:]
	limit := int64(0)
	if limIdx >= 0 {
		keys = a[1:limIdx]
		if len(keys) == 0 || limIdx+2 != len(a) {
			return errOut(st, "LIMIT syntax")
		}
		l, ok := parseInt64(a[limIdx+1])
		if !ok {
			return errOut(st, "limit not an integer")
		}
		limit = l
	}
	res, wrongAt, anyAbsent := setCombine(st, env, keys, "inter")
	if len(wrongAt) > 0 {
		outs := errOut(st, "operand is not a set")
		if anyAbsent {
			outs = append(outs, Outcome{Reply: MInt(0), State: st, Note: "absent operand: empty"})
		}
		return outs
	}
	n := int64(len(res))
	if limit < 0 {
		// not documented: refused (Redis) or no limit
		return append(errOut(st, "negative limit"), Outcome{Reply: MInt(n), State: st, Note: "negative limit ignored"})
	}
	if limit > 0 && limit < n {
		n = limit
	}
	return one(MInt(n), st)
}

func mSMove(st *State, env Env, a []string) []Outcome {
	if len(a) != 4 {
		return errOut(st, "arity")
	}
	srcK, dstK, x := a[1], a[2], a[3]
	src, srcAbsent, srcWrong := setOf(st, env, srcK)
	dst, dstAbsent, dstWrong := setOf(st, env, dstK)
	if srcWrong {
		return errOut(st, "source is not a set")
	}
	zero := Outcome{Reply: MBool(false), State: st}
	if srcAbsent {
		// nothing to move; whether the destination's kind is checked first is not documented
		if dstWrong {
			return append(errOut(st, "destination is not a set"), zero)
		}
		return []Outcome{zero}
	}
	if dstWrong {
		return errOut(st, "destination is not a set")
	}
	_, has := src[x]
	if !has {
		if dstAbsent {
			// SugarDB documents nothing about an absent destination: refusing it is accepted
			return append(errOut(st, "destination absent"), zero)
		}
		return []Outcome{zero}
	}
	if srcK == dstK {
		return one(MBool(true), st)
	}
	var outs []Outcome
	if dstAbsent {
		outs = errOut(st, "destination absent")
	}
	nsrc := setCopy(src)
	delete(nsrc, x)
	ndst := setCopy(dst)
	ndst[x] = struct{}{}
	var dd int64
	if e := get(st, env, dstK); e != nil {
		dd = e.Deadline
	}
	for _, n := range setShrunk(st, env, srcK, nsrc, get(st, env, srcK).Deadline) {
		n.DB(env.DB)[dstK] = &Entry{Kind: KSet, M: setCopy(ndst), Deadline: dd}
		outs = append(outs, Outcome{Reply: MBool(true), State: n})
	}
	return outs
}

// setReplyTexts decodes a reply that must be an array of scalars.
func setReplyTexts(v resp.Value) ([]string, bool) {
	if !v.IsSeq() {
		return nil, false
	}
	out := make([]string, 0, len(v.Elems))
	for _, e := range v.Elems {
		if e.Kind == resp.Null || e.Kind == resp.Error || e.IsSeq() {
			return nil, false
		}
		t, ok := e.Text()
		if !ok {
			return nil, false
		}
		out = append(out, t)
	}
	return out, true
}

// mSRandom models SPOP (pop=true) and SRANDMEMBER.
func mSRandom(st *State, env Env, a []string, pop bool) []Outcome {
	if len(a) < 2 || len(a) > 3 {
		return errOut(st, "arity")
	}
	key := a[1]
	hasCount := len(a) == 3
	count := int64(1)
	if hasCount {
		c, ok := parseInt64(a[2])
		if !ok {
			return errOut(st, "count not an integer")
		}
		count = c
	}
	m, absent, wrong := setOf(st, env, key)
	if wrong {
		return errOut(st, "not a set")
	}
	if absent || len(m) == 0 {
		// nothing to select from: empty or nil
		outs := one(MEmptySeq(true), st)
		if hasCount && count < 0 && pop {
			outs = append(outs, errOut(st, "negative count")...)
		}
		return outs
	}
	if count < -setHugeCount {
		if pop {
			return nil // not modelled
		}
		// a selection of 2^63 members cannot be produced; only purity is demanded
		return one(MPred("anything", func(v resp.Value) bool { return true }), st)
	}
	var d int64
	if e := get(st, env, key); e != nil {
		d = e.Deadline
	}
	n := int64(len(m))

	// selection predicate: size, membership, distinctness
	var want int64
	distinct := true
	switch {
	case count >= 0:
		want = count
		if want > n {
			want = n
		}
	default:
		want = -count
		distinct = false
	}
	okSel := func(sel []string) bool {
		if int64(len(sel)) != want {
			return false
		}
		seen := map[string]bool{}
		for _, x := range sel {
			if _, in := m[x]; !in {
				return false
			}
			if distinct && seen[x] {
				return false
			}
			seen[x] = true
		}
		return true
	}
	// decode: with a count the reply is an array; without, a bare member or a
	// one-element array (the reply shape is not documented).
	decode := func(v resp.Value) ([]string, bool) {
		if v.Kind == resp.Error {
			return nil, false
		}
		if sel, ok := setReplyTexts(v); ok {
			return sel, true
		}
		if !hasCount && v.Kind != resp.Null && !v.IsSeq() {
			if t, ok := v.Text(); ok {
				return []string{t}, true
			}
		}
		return nil, false
	}
	desc := "selection of current members"
	reply := MPred(desc, func(v resp.Value) bool {
		sel, ok := decode(v)
		return ok && okSel(sel)
	})
	if !pop {
		return one(reply, st)
	}
	var outs []Outcome
	if count < 0 {
		// SPOP with a negative count is documented nowhere: refused (Redis), or a
		// selection with repeats, every returned member being removed.
		outs = errOut(st, "negative count")
	}
	if want == 0 {
		return append(outs, Outcome{Reply: reply, State: st})
	}
	mk := func(deleteWhenEmpty bool) Outcome {
		return Outcome{Reply: reply, State: st, Follow: func(v resp.Value, base *State) bool {
			sel, ok := decode(v)
			if !ok || !okSel(sel) {
				return false
			}
			nm := setCopy(m)
			for _, x := range sel {
				delete(nm, x)
			}
			if len(nm) == 0 && deleteWhenEmpty {
				delete(base.DB(env.DB), key)
			} else {
				base.DB(env.DB)[key] = &Entry{Kind: KSet, M: nm, Deadline: d}
			}
			return true
		}}
	}
	outs = append(outs, mk(true))
	if want >= n || !distinct {
		outs = append(outs, mk(false))
	}
	return outs
}
