// Package model holds the executable reference models: plain Go maps and slices
// implementing what the property statements and the command documentation say.
// Where those are silent the model is set-valued: Step returns every allowed
// outcome and the monitor follows the one it observes.
package model

import (
	"fmt"
	"math"
	"sort"
	"strconv"
	"strings"

	"verif/harness/resp"
)

type Kind int

const (
	KScalar Kind = iota + 1
	KList
	KHash
	KSet
	KZSet
)

func (k Kind) String() string {
	switch k {
	case KScalar:
		return "scalar"
	case KList:
		return "list"
	case KHash:
		return "hash"
	case KSet:
		return "set"
	case KZSet:
		return "zset"
	}
	return "none"
}

type Entry struct {
	Kind     Kind
	S        string
	L        []string
	H        map[string]string
	M        map[string]struct{}
	Z        map[string]float64
	Deadline int64 // unix nanoseconds; 0 = none
}

func (e *Entry) Clone() *Entry {
	c := &Entry{Kind: e.Kind, S: e.S, Deadline: e.Deadline}
	if e.L != nil {
		c.L = append([]string{}, e.L...)
	}
	if e.H != nil {
		c.H = make(map[string]string, len(e.H))
		for k, v := range e.H {
			c.H[k] = v
		}
	}
	if e.M != nil {
		c.M = make(map[string]struct{}, len(e.M))
		for k := range e.M {
			c.M[k] = struct{}{}
		}
	}
	if e.Z != nil {
		c.Z = make(map[string]float64, len(e.Z))
		for k, v := range e.Z {
			c.Z[k] = v
		}
	}
	return c
}

// Len is the number of elements of a collection entry.
func (e *Entry) Len() int {
	switch e.Kind {
	case KList:
		return len(e.L)
	case KHash:
		return len(e.H)
	case KSet:
		return len(e.M)
	case KZSet:
		return len(e.Z)
	}
	return 1
}

type DB map[string]*Entry

type State struct {
	DBs map[int]DB
}

func NewState() *State { return &State{DBs: map[int]DB{}} }

func (s *State) Clone() *State {
	c := NewState()
	for i, db := range s.DBs {
		n := make(DB, len(db))
		for k, e := range db {
			n[k] = e.Clone()
		}
		c.DBs[i] = n
	}
	return c
}

func (s *State) DB(i int) DB {
	db, ok := s.DBs[i]
	if !ok {
		db = DB{}
		s.DBs[i] = db
	}
	return db
}

// Purge removes every key whose deadline has passed (now > deadline).
func (s *State) Purge(now int64) {
	for _, db := range s.DBs {
		for k, e := range db {
			if e.Deadline != 0 && e.Deadline < now {
				delete(db, k)
			}
		}
	}
}

// FmtFloat is the canonical float rendering used in canonical states.
func FmtFloat(f float64) string {
	if math.IsInf(f, 1) {
		return "+inf"
	}
	if math.IsInf(f, -1) {
		return "-inf"
	}
	if f == 0 {
		return "0" // -0 == 0
	}
	return strconv.FormatFloat(f, 'g', -1, 64)
}

// CanonEntry renders an entry canonically.
func CanonEntry(e *Entry) string {
	var sb strings.Builder
	switch e.Kind {
	case KScalar:
		sb.WriteString("s:" + strconv.Quote(e.S))
	case KList:
		sb.WriteString("l:[")
		for i, x := range e.L {
			if i > 0 {
				sb.WriteByte(',')
			}
			sb.WriteString(strconv.Quote(x))
		}
		sb.WriteString("]")
	case KHash:
		ks := make([]string, 0, len(e.H))
		for k := range e.H {
			ks = append(ks, k)
		}
		sort.Strings(ks)
		sb.WriteString("h:{")
		for i, k := range ks {
			if i > 0 {
				sb.WriteByte(',')
			}
			sb.WriteString(strconv.Quote(k) + "=" + strconv.Quote(e.H[k]))
		}
		sb.WriteString("}")
	case KSet:
		ks := make([]string, 0, len(e.M))
		for k := range e.M {
			ks = append(ks, k)
		}
		sort.Strings(ks)
		sb.WriteString("S:{")
		for i, k := range ks {
			if i > 0 {
				sb.WriteByte(',')
			}
			sb.WriteString(strconv.Quote(k))
		}
		sb.WriteString("}")
	case KZSet:
		ks := make([]string, 0, len(e.Z))
		for k := range e.Z {
			ks = append(ks, k)
		}
		sort.Strings(ks)
		sb.WriteString("z:{")
		for i, k := range ks {
			if i > 0 {
				sb.WriteByte(',')
			}
			sb.WriteString(strconv.Quote(k) + "=" + FmtFloat(e.Z[k]))
		}
		sb.WriteString("}")
	default:
		sb.WriteString("?")
	}
	if e.Deadline != 0 {
		sb.WriteString("@" + strconv.FormatInt(e.Deadline, 10))
	}
	return sb.String()
}

// Canon renders the state canonically: db -> key -> rendering. Empty databases
// are omitted.
func (s *State) Canon() map[int]map[string]string { return s.CanonAt(0) }

// CanonAt is Canon without the keys whose deadline has passed at now (they are
// unobservable). now == 0 keeps everything.
func (s *State) CanonAt(now int64) map[int]map[string]string {
	out := map[int]map[string]string{}
	for i, db := range s.DBs {
		m := make(map[string]string, len(db))
		for k, e := range db {
			if now != 0 && e.Deadline != 0 && e.Deadline < now {
				continue
			}
			m[k] = CanonEntry(e)
		}
		if len(m) > 0 {
			out[i] = m
		}
	}
	return out
}

// DiffCanon returns a human-readable difference between two canonical states
// ("" when equal).
func DiffCanon(want, got map[int]map[string]string) string {
	var diffs []string
	dbs := map[int]bool{}
	for i := range want {
		dbs[i] = true
	}
	for i := range got {
		dbs[i] = true
	}
	ids := make([]int, 0, len(dbs))
	for i := range dbs {
		ids = append(ids, i)
	}
	sort.Ints(ids)
	for _, i := range ids {
		w, g := want[i], got[i]
		keys := map[string]bool{}
		for k := range w {
			keys[k] = true
		}
		for k := range g {
			keys[k] = true
		}
		ks := make([]string, 0, len(keys))
		for k := range keys {
			ks = append(ks, k)
		}
		sort.Strings(ks)
		for _, k := range ks {
			wv, wok := w[k]
			gv, gok := g[k]
			switch {
			case wok && !gok:
				diffs = append(diffs, fmt.Sprintf("db%d %q: want %s, got <absent>", i, k, wv))
			case !wok && gok:
				diffs = append(diffs, fmt.Sprintf("db%d %q: want <absent>, got %s", i, k, gv))
			case wv != gv:
				diffs = append(diffs, fmt.Sprintf("db%d %q: want %s, got %s", i, k, wv, gv))
			}
		}
	}
	if len(diffs) > 6 {
		diffs = append(diffs[:6], fmt.Sprintf("... and %d more", len(diffs)-6))
	}
	return strings.Join(diffs, "; ")
}

// ---------------------------------------------------------------------------
// Reply matchers

type Matcher struct {
	Desc string
	F    func(v resp.Value) bool
}

func (m Matcher) Match(v resp.Value) bool { return m.F(v) }

func MErr() Matcher {
	return Matcher{"error", func(v resp.Value) bool { return v.Kind == resp.Error }}
}

func MOK() Matcher {
	return Matcher{"OK", func(v resp.Value) bool {
		return (v.Kind == resp.Simple || v.Kind == resp.Bulk) && v.Str == "OK"
	}}
}

func MNil() Matcher {
	return Matcher{"nil", func(v resp.Value) bool { return v.Kind == resp.Null }}
}

func MInt(i int64) Matcher {
	return Matcher{fmt.Sprintf("int %d", i), func(v resp.Value) bool {
		return v.Kind == resp.Int && v.Int == i
	}}
}

// MBool matches integer 0/1 or a RESP3 boolean.
func MBool(b bool) Matcher {
	return Matcher{fmt.Sprintf("bool %v", b), func(v resp.Value) bool {
		if v.Kind == resp.Bool {
			return v.Bool == b
		}
		if v.Kind == resp.Int {
			return (v.Int == 1) == b && (v.Int == 0 || v.Int == 1)
		}
		return false
	}}
}

// MText matches any scalar reply (simple, bulk, integer, double) whose text is s.
func MText(s string) Matcher {
	return Matcher{"text " + strconv.Quote(s), func(v resp.Value) bool {
		if v.Kind == resp.Null || v.Kind == resp.Error {
			return false
		}
		t, ok := v.Text()
		return ok && t == s
	}}
}

func parseNum(s string) (float64, bool) {
	switch strings.ToLower(s) {
	case "inf", "+inf", "infinity", "+infinity":
		return math.Inf(1), true
	case "-inf", "-infinity":
		return math.Inf(-1), true
	}
	f, err := strconv.ParseFloat(s, 64)
	if err != nil {
		return 0, false
	}
	return f, true
}

func floatEq(a, b float64) bool {
	if math.IsNaN(a) || math.IsNaN(b) {
		return math.IsNaN(a) && math.IsNaN(b)
	}
	if a == b {
		return true
	}
	// replies are decimal text of float64; allow 1 ulp-ish relative slack for
	// shortest-representation vs %g(6 digits) is NOT allowed: must round-trip.
	return false
}

// MNum matches a scalar reply whose text parses to exactly f.
func MNum(f float64) Matcher {
	return Matcher{"number " + FmtFloat(f), func(v resp.Value) bool {
		if v.Kind == resp.Null || v.Kind == resp.Error {
			return false
		}
		t, ok := v.Text()
		if !ok {
			return false
		}
		g, ok := parseNum(t)
		return ok && floatEq(f, g)
	}}
}

// MAny matches if any of the matchers matches.
func MAny(ms ...Matcher) Matcher {
	ds := make([]string, len(ms))
	for i, m := range ms {
		ds[i] = m.Desc
	}
	return Matcher{"(" + strings.Join(ds, " | ") + ")", func(v resp.Value) bool {
		for _, m := range ms {
			if m.F(v) {
				return true
			}
		}
		return false
	}}
}

// MSeq matches an array whose elements match the given matchers in order.
func MSeq(ms ...Matcher) Matcher {
	ds := make([]string, len(ms))
	for i, m := range ms {
		ds[i] = m.Desc
	}
	return Matcher{"[" + strings.Join(ds, ", ") + "]", func(v resp.Value) bool {
		if !v.IsSeq() || len(v.Elems) != len(ms) {
			return false
		}
		for i, m := range ms {
			if !m.F(v.Elems[i]) {
				return false
			}
		}
		return true
	}}
}

// MTexts matches an array of scalars with exactly these texts in order.
func MTexts(ss []string) Matcher {
	ms := make([]Matcher, len(ss))
	for i, s := range ss {
		ms[i] = MText(s)
	}
	m := MSeq(ms...)
	m.Desc = fmt.Sprintf("texts %q", ss)
	return m
}

// MTextBag matches an array of scalars that is a permutation of ss.
func MTextBag(ss []string) Matcher {
	want := append([]string{}, ss...)
	sort.Strings(want)
	return Matcher{fmt.Sprintf("bag %q", want), func(v resp.Value) bool {
		if !(v.IsSeq()) || len(v.Elems) != len(want) {
			return false
		}
		got := make([]string, 0, len(want))
		for _, e := range v.Elems {
			if e.Kind == resp.Null || e.Kind == resp.Error {
				return false
			}
			t, ok := e.Text()
			if !ok {
				return false
			}
			got = append(got, t)
		}
		sort.Strings(got)
		for i := range want {
			if want[i] != got[i] {
				return false
			}
		}
		return true
	}}
}

// MEmptySeq matches an empty array (or, where allowNil, a null).
func MEmptySeq(allowNil bool) Matcher {
	return Matcher{"empty array", func(v resp.Value) bool {
		if v.IsSeq() && len(v.Elems) == 0 {
			return true
		}
		return allowNil && v.Kind == resp.Null
	}}
}

// MPred wraps an arbitrary predicate.
func MPred(desc string, f func(v resp.Value) bool) Matcher { return Matcher{desc, f} }

// ---------------------------------------------------------------------------
// Outcomes

type Outcome struct {
	Reply Matcher
	State *State
	Note  string
	// Follow, when non-nil, is called with the observed reply to finish the
	// state for commands whose result is a random choice (SPOP, ...). It returns
	// false when the observed reply is not an allowed choice.
	Follow func(v resp.Value, st *State) bool
}

// Env is the environment of one step.
type Env struct {
	Now int64 // unix nanoseconds
	DB  int
}

// errOut is the single outcome "error reply, state unchanged".
func errOut(st *State, note string) []Outcome {
	return []Outcome{{Reply: MErr(), State: st, Note: "error: " + note}}
}

func one(m Matcher, st *State) []Outcome { return []Outcome{{Reply: m, State: st}} }

// Handler is a model step function. st is already purged of expired keys and
// must not be modified: clone before writing.
type Handler func(st *State, env Env, argv []string) []Outcome

var handlers = map[string]Handler{}

func register(name string, h Handler) { handlers[strings.ToLower(name)] = h }

// Known reports whether the command is modelled.
func Known(cmd string) bool { _, ok := handlers[strings.ToLower(cmd)]; return ok }

// Step returns the allowed outcomes of argv in st. st is not modified except
// that expired keys are purged. nil means the command is not modelled.
func Step(st *State, env Env, argv []string) []Outcome {
	st.Purge(env.Now)
	if len(argv) == 0 {
		return nil
	}
	h, ok := handlers[strings.ToLower(argv[0])]
	if !ok {
		return nil
	}
	return h(st, env, argv)
}

// ---------------------------------------------------------------------------
// helpers shared by the command models

func isKW(s, kw string) bool { return strings.EqualFold(s, kw) }

// parseInt64 parses a strict base-10 int64.
func parseInt64(s string) (int64, bool) {
	i, err := strconv.ParseInt(s, 10, 64)
	return i, err == nil
}

// get returns the live entry for key in the selected database, or nil.
func get(st *State, env Env, key string) *Entry {
	return st.DBs[env.DB][key]
}

// wrongKind reports whether key holds a value of another kind than k.
func wrongKind(st *State, env Env, key string, k Kind) bool {
	e := get(st, env, key)
	return e != nil && e.Kind != k
}

// NumericLooking reports whether the server's value typing would store the
// text as an integer or a float rather than as a string.
func NumericLooking(s string) bool {
	_, ok := adaptNumeric(s)
	return ok
}
