package model

// Reference model of the list commands (property C15): a list is a Go slice of
// byte strings; head = index 0, tail = index len-1.
//
// Oracle: the C15 statement, the commands' Description / docs/docs/commands/list,
// Redis where those are silent. Where all are silent the model is set-valued
// (DESIGN.md Appendix A):
//   - LPUSH with several elements: as if pushed one by one (Redis) or as a block
//     in argument order (pinned by Test_HandleLPUSH "value1 value2 1 2 4 5");
//   - LPUSHX/RPUSHX on an absent key: reply 0 or error, nothing created; on a key that is stored as a list
//     (also an emptied one) they add;
//   - a list emptied by a command: key absent, or present with zero elements;
//   - LMOVE reply: the moved element (Redis) or OK (pinned by Test_HandleLMOVE and
//     the embedded API's boolean result); destination absent: created or error.

func init() {
	register("lpush", func(st *State, env Env, a []string) []Outcome { return mListPush(st, env, a, true, false) })
	register("lpushx", func(st *State, env Env, a []string) []Outcome { return mListPush(st, env, a, true, true) })
	register("rpush", func(st *State, env Env, a []string) []Outcome { return mListPush(st, env, a, false, false) })
	register("rpushx", func(st *State, env Env, a []string) []Outcome { return mListPush(st, env, a, false, true) })
	register("lpop", func(st *State, env Env, a []string) []Outcome { return mListPop(st, env, a, true) })
	register("rpop", func(st *State, env Env, a []string) []Outcome { return mListPop(st, env, a, false) })
	register("llen", mLLen)
	register("lrange", mLRange)
	register("lindex", mLIndex)
	register("lset", mLSet)
	register("ltrim", mLTrim)
	register("lrem", mLRem)
	register("lmove", mLMove)
}

// listWith returns st with key holding list l; the deadline of the previous
// value (old, may be nil) is kept: the list commands are read-modify-write.
func listWith(st *State, env Env, key string, old *Entry, l []string) *State {
	n := st.Clone()
	e := &Entry{Kind: KList, L: append([]string{}, l...)}
	if old != nil {
		e.Deadline = old.Deadline
	}
	n.DB(env.DB)[key] = e
	return n
}

func listWithout(st *State, env Env, key string) *State {
	n := st.Clone()
	delete(n.DB(env.DB), key)
	return n
}

// listStates returns the allowed states after key (previously old, a list) now
// holds l: one state if l is not empty, otherwise "absent" and "present and
// empty".
func listStates(st *State, env Env, key string, old *Entry, l []string) []*State {
	if len(l) > 0 {
		return []*State{listWith(st, env, key, old, l)}
	}
	return []*State{listWithout(st, env, key), listWith(st, env, key, old, nil)}
}

func listOuts(reply Matcher, states []*State, note string) []Outcome {
	outs := make([]Outcome, 0, len(states))
	for _, s := range states {
		outs = append(outs, Outcome{Reply: reply, State: s, Note: note})
	}
	return outs
}

func listReversed(l []string) []string {
	r := make([]string, len(l))
	for i, x := range l {
		r[len(l)-1-i] = x
	}
	return r
}

func listEqual(a, b []string) bool {
	if len(a) != len(b) {
		return false
	}
	for i := range a {
		if a[i] != b[i] {
			return false
		}
	}
	return true
}

func mListPush(st *State, env Env, a []string, left, onlyIfExists bool) []Outcome {
	if len(a) < 3 {
		return errOut(st, "arity")
	}
	key, elems := a[1], a[2:]
	e := get(st, env, key)
	if e != nil && e.Kind != KList {
		return errOut(st, "not a list")
	}
	var outs []Outcome
	if onlyIfExists {
		if e == nil {
			return one(MAny(MInt(0), MErr()), st)
		}
		// A key that is in the keyspace as a list (even one emptied by pops or removals, which the server
		// keeps: TYPE says list, LLEN says 0) is an existing list: the X variants add to it. A server that
		// removes emptied lists has no such key, and the absent-key branch above applies.
	}
	var cur []string
	if e != nil {
		cur = e.L
	}
	reply := MInt(int64(len(cur) + len(elems)))
	if !left {
		nl := append(append([]string{}, cur...), elems...)
		return append(outs, Outcome{Reply: reply, State: listWith(st, env, key, e, nl)})
	}
	oneByOne := append(listReversed(elems), cur...)
	block := append(append([]string{}, elems...), cur...)
	outs = append(outs, Outcome{Reply: reply, State: listWith(st, env, key, e, oneByOne), Note: "pushed one by one"})
	if !listEqual(oneByOne, block) {
		outs = append(outs, Outcome{Reply: reply, State: listWith(st, env, key, e, block), Note: "pushed as a block"})
	}
	return outs
}

func mListPop(st *State, env Env, a []string, left bool) []Outcome {
	if len(a) != 2 && len(a) != 3 {
		return errOut(st, "arity")
	}
	withCount := len(a) == 3
	count := int64(1)
	if withCount {
		c, ok := parseInt64(a[2])
		if !ok {
			return errOut(st, "count not an integer")
		}
		if c < 0 {
			// docs silent, no unit test pins a negative count: Redis ("must be positive")
			return errOut(st, "negative count")
		}
		count = c
	}
	key := a[1]
	e := get(st, env, key)
	if e != nil && e.Kind != KList {
		return errOut(st, "not a list")
	}
	// nothing to pop
	nothing := MNil()
	if withCount {
		nothing = MEmptySeq(true)
	}
	if e == nil {
		return one(nothing, st)
	}
	if len(e.L) == 0 {
		return listOuts(nothing, []*State{st, listWithout(st, env, key)}, "empty list")
	}
	if withCount && count == 0 {
		return one(MEmptySeq(true), st)
	}
	n := int64(len(e.L))
	if count > n {
		count = n
	}
	var popped, rest []string
	if left {
		popped = append([]string{}, e.L[:count]...)
		rest = e.L[count:]
	} else {
		popped = listReversed(e.L[n-count:])
		rest = e.L[:n-count]
	}
	reply := MText(popped[0])
	if withCount {
		reply = MTexts(popped)
	}
	return listOuts(reply, listStates(st, env, key, e, rest), "")
}

func mLLen(st *State, env Env, a []string) []Outcome {
	if len(a) != 2 {
		return errOut(st, "arity")
	}
	e := get(st, env, a[1])
	switch {
	case e == nil:
		return one(MInt(0), st)
	case e.Kind != KList:
		return errOut(st, "not a list")
	}
	return one(MInt(int64(len(e.L))), st)
}

// listRange resolves an inclusive [start, end] range on a list of n elements:
// negative indices count from the tail, out-of-range indices are clamped.
// ok=false means the range is empty.
func listRange(start, end, n int64) (lo, hi int64, ok bool) {
	if start < 0 {
		start += n
		if start < 0 {
			start = 0
		}
	}
	if end < 0 {
		end += n
	}
	if end >= n {
		end = n - 1
	}
	if start > end || start >= n {
		return 0, 0, false
	}
	return start, end, true
}

func mLRange(st *State, env Env, a []string) []Outcome {
	if len(a) != 4 {
		return errOut(st, "arity")
	}
	s, ok1 := parseInt64(a[2])
	t, ok2 := parseInt64(a[3])
	if !ok1 || !ok2 {
		return errOut(st, "index not an integer")
	}
	e := get(st, env, a[1])
	switch {
	case e == nil:
		return one(MEmptySeq(false), st)
	case e.Kind != KList:
		return errOut(st, "not a list")
	}
	lo, hi, ok := listRange(s, t, int64(len(e.L)))
	if !ok {
		return one(MEmptySeq(false), st)
	}
	return one(MTexts(e.L[lo:hi+1]), st)
}

func mLIndex(st *State, env Env, a []string) []Outcome {
	if len(a) != 3 {
		return errOut(st, "arity")
	}
	i, ok := parseInt64(a[2])
	if !ok {
		return errOut(st, "index not an integer")
	}
	e := get(st, env, a[1])
	switch {
	case e == nil:
		return one(MNil(), st)
	case e.Kind != KList:
		return errOut(st, "not a list")
	}
	n := int64(len(e.L))
	if i < 0 {
		i += n
	}
	if i < 0 || i >= n {
		return one(MNil(), st)
	}
	return one(MText(e.L[i]), st)
}

func mLSet(st *State, env Env, a []string) []Outcome {
	if len(a) != 4 {
		return errOut(st, "arity")
	}
	i, ok := parseInt64(a[2])
	if !ok {
		return errOut(st, "index not an integer")
	}
	e := get(st, env, a[1])
	if e == nil {
		return errOut(st, "no such key")
	}
	if e.Kind != KList {
		return errOut(st, "not a list")
	}
	n := int64(len(e.L))
	if i < 0 {
		i += n
	}
	if i < 0 || i >= n {
		return errOut(st, "index out of range")
	}
	nl := append([]string{}, e.L...)
	nl[i] = a[3]
	return one(MOK(), listWith(st, env, a[1], e, nl))
}

func mLTrim(st *State, env Env, a []string) []Outcome {
	if len(a) != 4 {
		return errOut(st, "arity")
	}
	s, ok1 := parseInt64(a[2])
	t, ok2 := parseInt64(a[3])
	if !ok1 || !ok2 {
		return errOut(st, "index not an integer")
	}
	e := get(st, env, a[1])
	switch {
	case e == nil:
		return one(MOK(), st)
	case e.Kind != KList:
		return errOut(st, "not a list")
	}
	var kept []string
	if lo, hi, ok := listRange(s, t, int64(len(e.L))); ok {
		kept = e.L[lo : hi+1]
	}
	return listOuts(MOK(), listStates(st, env, a[1], e, kept), "")
}

func mLRem(st *State, env Env, a []string) []Outcome {
	if len(a) != 4 {
		return errOut(st, "arity")
	}
	count, ok := parseInt64(a[2])
	if !ok {
		return errOut(st, "count not an integer")
	}
	e := get(st, env, a[1])
	switch {
	case e == nil:
		return one(MInt(0), st)
	case e.Kind != KList:
		return errOut(st, "not a list")
	}
	val := a[3]
	drop := make([]bool, len(e.L))
	removed := int64(0)
	switch {
	case count >= 0:
		for i := 0; i < len(e.L); i++ {
			if e.L[i] == val && (count == 0 || removed < count) {
				drop[i] = true
				removed++
			}
		}
	default:
		// count < 0: |count| matches from the tail (|MinInt64| does not fit: compare negated)
		for i := len(e.L) - 1; i >= 0; i-- {
			if e.L[i] == val && -removed > count {
				drop[i] = true
				removed++
			}
		}
	}
	if removed == 0 {
		if len(e.L) == 0 {
			return listOuts(MInt(0), []*State{st, listWithout(st, env, a[1])}, "empty list")
		}
		return one(MInt(0), st)
	}
	var rest []string
	for i, x := range e.L {
		if !drop[i] {
			rest = append(rest, x)
		}
	}
	return listOuts(MInt(removed), listStates(st, env, a[1], e, rest), "")
}

func mLMove(st *State, env Env, a []string) []Outcome {
	if len(a) != 5 {
		return errOut(st, "arity")
	}
	var fromLeft, toLeft bool
	switch {
	case isKW(a[3], "left"):
		fromLeft = true
	case isKW(a[3], "right"):
	default:
		return errOut(st, "wherefrom")
	}
	switch {
	case isKW(a[4], "left"):
		toLeft = true
	case isKW(a[4], "right"):
	default:
		return errOut(st, "whereto")
	}
	srcKey, dstKey := a[1], a[2]
	src, dst := get(st, env, srcKey), get(st, env, dstKey)
	if src != nil && src.Kind != KList {
		return errOut(st, "source not a list")
	}
	if src == nil || len(src.L) == 0 {
		// nothing to move: nil (Redis) or error (SugarDB documents that both must be lists)
		return one(MAny(MNil(), MErr()), st)
	}
	if dst != nil && dst.Kind != KList {
		return errOut(st, "destination not a list")
	}
	var outs []Outcome
	if dst == nil {
		outs = append(outs, errOut(st, "destination absent (SugarDB: both must exist)")...)
	}
	var elem string
	var rest []string
	if fromLeft {
		elem, rest = src.L[0], src.L[1:]
	} else {
		elem, rest = src.L[len(src.L)-1], src.L[:len(src.L)-1]
	}
	// Redis replies with the element; Test_HandleLMOVE pins OK.
	reply := MAny(MText(elem), MOK())
	put := func(l []string) []string {
		if toLeft {
			return append([]string{elem}, l...)
		}
		return append(append([]string{}, l...), elem)
	}
	if srcKey == dstKey {
		// rotation of one list
		return append(outs, Outcome{Reply: reply, State: listWith(st, env, srcKey, src, put(rest)), Note: "rotation"})
	}
	var dl []string
	if dst != nil {
		dl = dst.L
	}
	for _, s := range listStates(st, env, srcKey, src, rest) {
		outs = append(outs, Outcome{Reply: reply, State: listWith(s, env, dstKey, dst, put(dl))})
	}
	return outs
}
