package model

// Reference model of the sorted-set commands (property C17).
//
// The oracle is the property statement ("a reference map from member to score
// ordered by score then member"), each command's Description / docs page, and
// Redis semantics only where those are silent. Reply *shapes* are not fixed by
// any of them, so list replies are accepted flat ([m1 s1 m2 s2]) or nested
// ([[m1 s1] [m2 s2]]); scores are compared numerically.

import (
	"fmt"
	"math"
	"regexp"
	"sort"
	"strconv"
	"strings"

	"verif/harness/resp"
)

func init() {
	register("zadd", mZAdd)
	register("zcard", mZCard)
	register("zcount", mZCount)
	register("zlexcount", mZLexCount)
	register("zdiff", mZDiff)
	register("zdiffstore", mZDiffStore)
	register("zincrby", mZIncrBy)
	register("zinter", func(st *State, env Env, a []string) []Outcome { return mZAlgebra(st, env, a, false, false) })
	register("zinterstore", func(st *State, env Env, a []string) []Outcome { return mZAlgebra(st, env, a, false, true) })
	register("zunion", func(st *State, env Env, a []string) []Outcome { return mZAlgebra(st, env, a, true, false) })
	register("zunionstore", func(st *State, env Env, a []string) []Outcome { return mZAlgebra(st, env, a, true, true) })
	register("zmpop", mZMPop)
	register("zmscore", mZMScore)
	register("zpopmax", func(st *State, env Env, a []string) []Outcome { return mZPop(st, env, a, true) })
	register("zpopmin", func(st *State, env Env, a []string) []Outcome { return mZPop(st, env, a, false) })
	register("zrandmember", mZRandMember)
	register("zrank", func(st *State, env Env, a []string) []Outcome { return mZRank(st, env, a, false) })
	register("zrevrank", func(st *State, env Env, a []string) []Outcome { return mZRank(st, env, a, true) })
	register("zrem", mZRem)
	register("zremrangebylex", mZRemRangeByLex)
	register("zremrangebyrank", mZRemRangeByRank)
	register("zremrangebyscore", mZRemRangeByScore)
	register("zscore", mZScore)
	register("zrange", mZRange)
	register("zrangestore", mZRangeStore)
}

// ---------------------------------------------------------------------------
// helpers

// ZPair is one (member, score) element of a sorted set.
type ZPair struct {
	M string
	S float64
}

// zsetLookup returns the sorted set at key (nil map when absent), the entry and
// whether the key holds another type.
func zsetLookup(st *State, env Env, key string) (z map[string]float64, e *Entry, wrong bool) {
	e = get(st, env, key)
	if e == nil {
		return nil, nil, false
	}
	if e.Kind != KZSet {
		return nil, e, true
	}
	return e.Z, e, false
}

func zsetCopy(z map[string]float64) map[string]float64 {
	c := make(map[string]float64, len(z))
	for m, s := range z {
		c[m] = s
	}
	return c
}

// ZSorted lists a sorted set in its order: score ascending, then member bytes.
func ZSorted(z map[string]float64) []ZPair {
	out := make([]ZPair, 0, len(z))
	for m, s := range z {
		out = append(out, ZPair{m, s})
	}
	sort.Slice(out, func(i, j int) bool {
		if out[i].S != out[j].S {
			return out[i].S < out[j].S
		}
		return out[i].M < out[j].M
	})
	return out
}

func zsetReverse(p []ZPair) []ZPair {
	out := make([]ZPair, len(p))
	for i := range p {
		out[len(p)-1-i] = p[i]
	}
	return out
}

var zsetPlainNum = regexp.MustCompile(`^[+-]?[0-9]+(\.[0-9]+)?([eE][+-]?[0-9]+)?$`)

// zsetNum parses a score-like argument. status 0: not a number (error),
// 1: certainly a valid score, 2: dubious (a form the documentation does not
// mention: unsigned "inf", "infinity", ".5", out-of-range literals): error or
// the parsed value are both accepted. NaN is never a score.
func zsetNum(s string) (float64, int) {
	switch strings.ToLower(s) {
	case "+inf":
		return math.Inf(1), 1
	case "-inf":
		return math.Inf(-1), 1
	}
	if zsetPlainNum.MatchString(s) {
		f, err := strconv.ParseFloat(s, 64)
		if err != nil {
			return f, 2 // out of range: ±Inf or an error
		}
		return f, 1
	}
	f, ok := parseNum(s)
	if !ok || math.IsNaN(f) {
		return 0, 0
	}
	return f, 2
}

// ZNumStatus exposes zsetNum's classification to the harness generators/predicates.
func ZNumStatus(s string) (float64, int) { return zsetNum(s) }

type zsetBound struct {
	v    float64
	excl bool
}

// zsetScoreBound parses a score bound. The documentation shows plain numbers
// only; Redis' exclusive "(x" form is dubious (error or exclusive bound).
func zsetScoreBound(s string) (zsetBound, int) {
	if strings.HasPrefix(s, "(") {
		f, st := zsetNum(s[1:])
		if st == 0 {
			return zsetBound{}, 0
		}
		return zsetBound{f, true}, 2
	}
	f, st := zsetNum(s)
	return zsetBound{f, false}, st
}

func zsetInScore(s float64, lo, hi zsetBound) bool {
	if lo.excl {
		if !(s > lo.v) {
			return false
		}
	} else if !(s >= lo.v) {
		return false
	}
	if hi.excl {
		return s < hi.v
	}
	return s <= hi.v
}

// zsetSameScores reports whether lexicographic commands are meaningful: all
// members carry the same score.
func zsetSameScores(z map[string]float64) bool {
	first := true
	var f float64
	for _, s := range z {
		if first {
			f, first = s, false
			continue
		}
		if s != f {
			return false
		}
	}
	return true
}

func zsetIsRedisLex(s string) bool {
	return s == "-" || s == "+" || strings.HasPrefix(s, "[") || strings.HasPrefix(s, "(")
}

func zsetRedisLexPred(min, max string) func(m string) bool {
	return func(m string) bool {
		switch {
		case min == "-":
		case min == "+":
			return false
		case min[0] == '[':
			if m < min[1:] {
				return false
			}
		default:
			if m <= min[1:] {
				return false
			}
		}
		switch {
		case max == "+":
		case max == "-":
			return false
		case max[0] == '[':
			if m > max[1:] {
				return false
			}
		default:
			if m >= max[1:] {
				return false
			}
		}
		return true
	}
}

// zsetLexPreds returns the accepted readings of a lexicographic range. SugarDB
// documents bare strings as inclusive bounds (ZLEXCOUNT key aa xx). When both
// bounds happen to be in Redis' notation ("[a", "(a", "-", "+") the Redis
// reading is accepted too (with REV also the Redis max-min argument order).
func zsetLexPreds(start, stop string, rev bool) []func(m string) bool {
	preds := []func(m string) bool{func(m string) bool { return m >= start && m <= stop }}
	if zsetIsRedisLex(start) && zsetIsRedisLex(stop) {
		preds = append(preds, zsetRedisLexPred(start, stop))
		if rev {
			preds = append(preds, zsetRedisLexPred(stop, start))
		}
	}
	return preds
}

// zsetWrite returns the states in which key holds the sorted set z with one of
// the given deadlines. An empty result is "key absent" or "present and empty"
// (Appendix A: silent).
func zsetWrite(st *State, env Env, key string, z map[string]float64, deadlines ...int64) []*State {
	var out []*State
	if len(z) == 0 {
		n := st.Clone()
		delete(n.DB(env.DB), key)
		out = append(out, n)
	}
	seen := map[int64]bool{}
	for _, d := range deadlines {
		if seen[d] {
			continue
		}
		seen[d] = true
		n := st.Clone()
		n.DB(env.DB)[key] = &Entry{Kind: KZSet, Z: zsetCopy(z), Deadline: d}
		out = append(out, n)
	}
	return out
}

// zsetStoreDeadlines: a …STORE destination is replaced as a whole: its old
// deadline is cleared, or kept (silent).
func zsetStoreDeadlines(st *State, env Env, dst string) []int64 {
	ds := []int64{0}
	if e := get(st, env, dst); e != nil && e.Deadline != 0 {
		ds = append(ds, e.Deadline)
	}
	return ds
}

// zsetUnchanged: the command did not add anything. The key stays as it was; if
// it was absent an empty sorted set may have been created (silent).
func zsetUnchanged(st *State, env Env, key string) []*State {
	if get(st, env, key) != nil {
		return []*State{st}
	}
	n := st.Clone()
	n.DB(env.DB)[key] = &Entry{Kind: KZSet, Z: map[string]float64{}}
	return []*State{st, n}
}

func zsetOuts(m Matcher, sts []*State, note string) []Outcome {
	out := make([]Outcome, 0, len(sts))
	for _, s := range sts {
		out = append(out, Outcome{Reply: m, State: s, Note: note})
	}
	return out
}

// ---------------------------------------------------------------------------
// reply decoding

type zsetItem struct {
	m string
	s float64
}

func zsetScalar(v resp.Value) (string, bool) {
	if v.Kind == resp.Null || v.Kind == resp.Error || v.IsSeq() || v.Kind == resp.Map {
		return "", false
	}
	return v.Text()
}

// zsetDecodeList normalises a reply that lists members (with scores when
// withScores): flat or nested, see the package comment.
func zsetDecodeList(v resp.Value, withScores bool) ([]zsetItem, bool) {
	if !v.IsSeq() {
		return nil, false
	}
	if len(v.Elems) == 0 {
		return []zsetItem{}, true
	}
	nested := v.Elems[0].IsSeq()
	var out []zsetItem
	if nested {
		for _, e := range v.Elems {
			if !e.IsSeq() {
				return nil, false
			}
			want := 1
			if withScores {
				want = 2
			}
			if len(e.Elems) != want {
				return nil, false
			}
			m, ok := zsetScalar(e.Elems[0])
			if !ok {
				return nil, false
			}
			it := zsetItem{m: m}
			if withScores {
				t, ok := zsetScalar(e.Elems[1])
				if !ok {
					return nil, false
				}
				f, ok := parseNum(t)
				if !ok {
					return nil, false
				}
				it.s = f
			}
			out = append(out, it)
		}
		return out, true
	}
	if withScores && len(v.Elems)%2 != 0 {
		return nil, false
	}
	for i := 0; i < len(v.Elems); i++ {
		m, ok := zsetScalar(v.Elems[i])
		if !ok {
			return nil, false
		}
		it := zsetItem{m: m}
		if withScores {
			i++
			t, ok := zsetScalar(v.Elems[i])
			if !ok {
				return nil, false
			}
			f, ok := parseNum(t)
			if !ok {
				return nil, false
			}
			it.s = f
		}
		out = append(out, it)
	}
	return out, true
}

func zsetDescPairs(p []ZPair, withScores bool) string {
	var sb strings.Builder
	sb.WriteByte('[')
	for i, x := range p {
		if i > 0 {
			sb.WriteByte(' ')
		}
		if i >= 12 {
			fmt.Fprintf(&sb, "…(%d)", len(p))
			break
		}
		m := x.M
		if len(m) > 24 {
			m = m[:24] + "…"
		}
		sb.WriteString(strconv.Quote(m))
		if withScores {
			sb.WriteString("=" + FmtFloat(x.S))
		}
	}
	sb.WriteByte(']')
	return sb.String()
}

// zsetListMatcher matches a reply listing exactly want (in order when ordered,
// as a bag otherwise).
func zsetListMatcher(want []ZPair, withScores, ordered bool) Matcher {
	kind := "list"
	if !ordered {
		kind = "bag"
	}
	return Matcher{kind + " " + zsetDescPairs(want, withScores), func(v resp.Value) bool {
		got, ok := zsetDecodeList(v, withScores)
		if !ok || len(got) != len(want) {
			return false
		}
		eq := func(g zsetItem, w ZPair) bool {
			return g.m == w.M && (!withScores || floatEq(g.s, w.S))
		}
		if ordered {
			for i := range want {
				if !eq(got[i], want[i]) {
					return false
				}
			}
			return true
		}
		used := make([]bool, len(want))
	next:
		for _, g := range got {
			for i, w := range want {
				if !used[i] && eq(g, w) {
					used[i] = true
					continue next
				}
			}
			return false
		}
		return true
	}}
}

// ---------------------------------------------------------------------------
// ZADD / ZINCRBY

func mZAdd(st *State, env Env, a []string) []Outcome {
	if len(a) < 4 {
		return errOut(st, "arity")
	}
	key := a[1]
	var nx, xx, gt, lt, ch, incr, dup bool
	i := 2
loop:
	for ; i < len(a); i++ {
		var f *bool
		switch strings.ToLower(a[i]) {
		case "nx":
			f = &nx
		case "xx":
			f = &xx
		case "gt":
			f = &gt
		case "lt":
			f = &lt
		case "ch":
			f = &ch
		case "incr":
			f = &incr
		default:
			break loop
		}
		if *f {
			dup = true
		}
		*f = true
	}
	rest := a[i:]
	if len(rest) == 0 || len(rest)%2 != 0 {
		return errOut(st, "score/member pairs")
	}
	pairs := make([]ZPair, 0, len(rest)/2)
	dubious := false
	for j := 0; j < len(rest); j += 2 {
		f, status := zsetNum(rest[j])
		if status == 0 {
			return errOut(st, "score is not a number")
		}
		if status == 2 {
			dubious = true
		}
		pairs = append(pairs, ZPair{rest[j+1], f})
	}
	if (nx && xx) || (gt && lt) || (nx && (gt || lt)) {
		return errOut(st, "incompatible flags")
	}
	if incr && len(pairs) > 1 {
		return errOut(st, "INCR with several pairs")
	}
	z0, e, wrong := zsetLookup(st, env, key)
	if wrong {
		return errOut(st, "not a sorted set")
	}
	var outs []Outcome
	if dubious {
		outs = append(outs, errOut(st, "undocumented score syntax")...)
	} else if dup {
		outs = append(outs, errOut(st, "flag given twice")...)
	}
	var deadline int64
	if e != nil {
		deadline = e.Deadline
	}
	after := func(z map[string]float64, touched bool) []*State {
		if !touched {
			return zsetUnchanged(st, env, key)
		}
		return zsetWrite(st, env, key, z, deadline)
	}
	z := zsetCopy(z0)

	if incr {
		p := pairs[0]
		old, exists := z[p.M]
		if (nx && exists) || (xx && !exists) {
			return append(outs, zsetOuts(MNil(), after(z, false), "INCR prevented by NX/XX")...)
		}
		nv := p.S
		if exists {
			nv = old + p.S
		}
		if math.IsNaN(nv) {
			return append(outs, errOut(st, "INCR result is not a number")...)
		}
		if exists && math.IsInf(old, 0) {
			// pinned by Test_HandleZINCRBY 8/9 (same code path): an infinite score cannot be incremented
			outs = append(outs, errOut(st, "increment of an infinite score")...)
		}
		if exists && ((gt && !(nv > old)) || (lt && !(nv < old))) {
			return append(outs, zsetOuts(MNil(), after(z, false), "INCR prevented by GT/LT")...)
		}
		z[p.M] = nv
		return append(outs, zsetOuts(MNum(nv), after(z, true), "")...)
	}

	var added, changed int64
	for _, p := range pairs {
		old, exists := z[p.M]
		switch {
		case !exists:
			if xx {
				continue
			}
			z[p.M] = p.S
			added++
		case nx:
		case gt && !(p.S > old):
		case lt && !(p.S < old):
		default:
			if p.S != old {
				z[p.M] = p.S
				changed++
			}
		}
	}
	count := added
	if ch {
		count += changed
	}
	// duplicates of a member inside one command: pairs apply in order; the
	// count may also count each member once.
	var dAdded, dChanged int64
	for m, s := range z {
		if o, ok := z0[m]; !ok {
			dAdded++
		} else if o != s {
			dChanged++
		}
	}
	dCount := dAdded
	if ch {
		dCount += dChanged
	}
	reply := MInt(count)
	if dCount != count {
		reply = MAny(MInt(count), MInt(dCount))
	}
	return append(outs, zsetOuts(reply, after(z, added+changed > 0), "")...)
}

func mZIncrBy(st *State, env Env, a []string) []Outcome {
	if len(a) != 4 {
		return errOut(st, "arity")
	}
	key, member := a[1], a[3]
	by, status := zsetNum(a[2])
	if status == 0 {
		return errOut(st, "increment is not a number")
	}
	z0, e, wrong := zsetLookup(st, env, key)
	if wrong {
		return errOut(st, "not a sorted set")
	}
	var outs []Outcome
	if status == 2 {
		outs = append(outs, errOut(st, "undocumented number syntax")...)
	}
	var deadline int64
	if e != nil {
		deadline = e.Deadline
	}
	z := zsetCopy(z0)
	old, exists := z[member]
	nv := by
	if exists {
		nv = old + by
	}
	if math.IsNaN(nv) {
		return append(outs, errOut(st, "result is not a number")...)
	}
	if exists && math.IsInf(old, 0) {
		// pinned by Test_HandleZINCRBY 8/9
		outs = append(outs, errOut(st, "increment of an infinite score")...)
	}
	z[member] = nv
	return append(outs, zsetOuts(MNum(nv), zsetWrite(st, env, key, z, deadline), "")...)
}

// ---------------------------------------------------------------------------
// simple readers

func mZCard(st *State, env Env, a []string) []Outcome {
	if len(a) != 2 {
		return errOut(st, "arity")
	}
	z, _, wrong := zsetLookup(st, env, a[1])
	if wrong {
		return errOut(st, "not a sorted set")
	}
	return one(MInt(int64(len(z))), st)
}

func mZCount(st *State, env Env, a []string) []Outcome {
	if len(a) != 4 {
		return errOut(st, "arity")
	}
	lo, s1 := zsetScoreBound(a[2])
	hi, s2 := zsetScoreBound(a[3])
	if s1 == 0 || s2 == 0 {
		return errOut(st, "bound is not a number")
	}
	z, _, wrong := zsetLookup(st, env, a[1])
	if wrong {
		return errOut(st, "not a sorted set")
	}
	var outs []Outcome
	if s1 == 2 || s2 == 2 {
		outs = append(outs, errOut(st, "undocumented bound syntax")...)
	}
	n := int64(0)
	for _, s := range z {
		if zsetInScore(s, lo, hi) {
			n++
		}
	}
	return append(outs, Outcome{Reply: MInt(n), State: st})
}

func mZLexCount(st *State, env Env, a []string) []Outcome {
	if len(a) != 4 {
		return errOut(st, "arity")
	}
	z, _, wrong := zsetLookup(st, env, a[1])
	if wrong {
		return errOut(st, "not a sorted set")
	}
	if !zsetSameScores(z) {
		return nil // lexicographic commands are only meaningful when all scores are equal
	}
	var ms []Matcher
	for _, p := range zsetLexPreds(a[2], a[3], false) {
		n := int64(0)
		for m := range z {
			if p(m) {
				n++
			}
		}
		ms = append(ms, MInt(n))
	}
	return one(MAny(ms...), st)
}

func mZScore(st *State, env Env, a []string) []Outcome {
	if len(a) != 3 {
		return errOut(st, "arity")
	}
	z, _, wrong := zsetLookup(st, env, a[1])
	if wrong {
		return errOut(st, "not a sorted set")
	}
	s, ok := z[a[2]]
	if !ok {
		return one(MNil(), st)
	}
	return one(MNum(s), st)
}

func mZMScore(st *State, env Env, a []string) []Outcome {
	if len(a) < 3 {
		return errOut(st, "arity")
	}
	z, e, wrong := zsetLookup(st, env, a[1])
	if wrong {
		return errOut(st, "not a sorted set")
	}
	ms := make([]Matcher, 0, len(a)-2)
	for _, m := range a[2:] {
		if s, ok := z[m]; ok {
			ms = append(ms, MNum(s))
		} else {
			ms = append(ms, MNil())
		}
	}
	reply := MSeq(ms...)
	if e == nil {
		// Test_HandleZMSCORE 2 pins "If key does not exist, return empty array"
		reply = MAny(reply, MEmptySeq(false))
	}
	return one(reply, st)
}

func mZRank(st *State, env Env, a []string, rev bool) []Outcome {
	if len(a) < 3 || len(a) > 4 {
		return errOut(st, "arity")
	}
	ws := false
	var outs []Outcome
	if len(a) == 4 {
		switch {
		case isKW(a[3], "withscore"):
			ws = true
		case isKW(a[3], "withscores"):
			// the documented option is WITHSCORE; the plural is what Test_HandleZRANK 2 uses
			ws = true
			outs = append(outs, errOut(st, "undocumented spelling WITHSCORES")...)
		default:
			return errOut(st, "unknown option")
		}
	}
	z, _, wrong := zsetLookup(st, env, a[1])
	if wrong {
		return errOut(st, "not a sorted set")
	}
	s, ok := z[a[2]]
	if !ok {
		return append(outs, Outcome{Reply: MAny(MNil(), MEmptySeq(false)), State: st})
	}
	sorted := ZSorted(z)
	rank := int64(-1)
	for i, p := range sorted {
		if p.M == a[2] {
			rank = int64(i)
		}
	}
	if rev {
		rank = int64(len(sorted)) - 1 - rank
	}
	if ws {
		return append(outs, Outcome{Reply: MSeq(MInt(rank), MNum(s)), State: st})
	}
	return append(outs, Outcome{Reply: MAny(MInt(rank), MSeq(MInt(rank))), State: st})
}

// ---------------------------------------------------------------------------
// removals

func mZRem(st *State, env Env, a []string) []Outcome {
	if len(a) < 3 {
		return errOut(st, "arity")
	}
	z0, e, wrong := zsetLookup(st, env, a[1])
	if wrong {
		return errOut(st, "not a sorted set")
	}
	if e == nil {
		return one(MInt(0), st)
	}
	z := zsetCopy(z0)
	n := int64(0)
	for _, m := range a[2:] {
		if _, ok := z[m]; ok {
			delete(z, m)
			n++
		}
	}
	if n == 0 {
		return one(MInt(0), st)
	}
	return zsetOuts(MInt(n), zsetWrite(st, env, a[1], z, e.Deadline), "")
}

// zsetRemove removes the listed members and returns the outcome list.
func zsetRemove(st *State, env Env, key string, e *Entry, victims []ZPair, reply Matcher) []Outcome {
	if len(victims) == 0 {
		return one(reply, st)
	}
	z := zsetCopy(e.Z)
	for _, p := range victims {
		delete(z, p.M)
	}
	return zsetOuts(reply, zsetWrite(st, env, key, z, e.Deadline), "")
}

func mZPop(st *State, env Env, a []string, max bool) []Outcome {
	if len(a) < 2 || len(a) > 3 {
		return errOut(st, "arity")
	}
	count := int64(1)
	if len(a) == 3 {
		c, ok := parseInt64(a[2])
		if !ok {
			return errOut(st, "count is not an integer")
		}
		if c < 0 {
			return errOut(st, "negative count")
		}
		count = c
	}
	_, e, wrong := zsetLookup(st, env, a[1])
	if wrong {
		return errOut(st, "not a sorted set")
	}
	if e == nil {
		return one(MEmptySeq(false), st)
	}
	sorted := ZSorted(e.Z)
	if max {
		sorted = zsetReverse(sorted)
	}
	var outs []Outcome
	if count == 0 {
		// Redis: nothing is popped. The embedded API documents (ZPopMin/ZPopMax godoc): "If a count
		// of 0 is provided, it will be ignored and 1 element will be popped instead."
		outs = append(outs, Outcome{Reply: MEmptySeq(false), State: st})
		if len(sorted) == 0 {
			return outs
		}
		count = 1
	}
	if count > int64(len(sorted)) {
		count = int64(len(sorted))
	}
	popped := sorted[:count]
	return append(outs, zsetRemove(st, env, a[1], e, popped, zsetListMatcher(popped, true, true))...)
}

func mZMPop(st *State, env Env, a []string) []Outcome {
	if len(a) < 2 {
		return errOut(st, "arity")
	}
	// ZMPOP key [key ...] <MIN | MAX> [COUNT count]
	i := 1
	for ; i < len(a); i++ {
		if isKW(a[i], "min") || isKW(a[i], "max") || isKW(a[i], "count") {
			break
		}
	}
	keys := a[1:i]
	if len(keys) == 0 {
		return errOut(st, "no keys")
	}
	opts := a[i:]
	max, hasPolicy, swapped := false, false, false
	count := int64(1)
	hasCount := false
	for j := 0; j < len(opts); j++ {
		switch {
		case isKW(opts[j], "min") || isKW(opts[j], "max"):
			if hasPolicy {
				return errOut(st, "MIN/MAX twice")
			}
			hasPolicy = true
			max = isKW(opts[j], "max")
			if hasCount {
				swapped = true
			}
		case isKW(opts[j], "count"):
			if hasCount || j+1 >= len(opts) {
				return errOut(st, "COUNT")
			}
			c, ok := parseInt64(opts[j+1])
			if !ok || c <= 0 {
				return errOut(st, "count must be a positive integer")
			}
			hasCount = true
			count = c
			j++
		default:
			return errOut(st, "unknown option")
		}
	}
	var outs []Outcome
	if !hasPolicy || swapped {
		// <MIN | MAX> is mandatory and precedes COUNT in the documented syntax;
		// Test_HandleZMPOP 1 pins "pop one min element by default".
		outs = append(outs, errOut(st, "MIN/MAX missing or after COUNT")...)
	}
	for k, key := range keys {
		_, e, wrong := zsetLookup(st, env, key)
		if wrong {
			return append(outs, errOut(st, "not a sorted set")...)
		}
		if e == nil || len(e.Z) == 0 {
			continue
		}
		// a wrong-typed key after the first non-empty sorted set is not inspected by a
		// left-to-right scan; the statement would also allow failing on it.
		for _, later := range keys[k+1:] {
			if wrongKind(st, env, later, KZSet) {
				outs = append(outs, errOut(st, "a later key is not a sorted set")...)
				break
			}
		}
		sorted := ZSorted(e.Z)
		if max {
			sorted = zsetReverse(sorted)
		}
		n := count
		if n > int64(len(sorted)) {
			n = int64(len(sorted))
		}
		popped := sorted[:n]
		list := zsetListMatcher(popped, true, true)
		reply := MAny(list, MSeq(MText(key), list))
		return append(outs, zsetRemove(st, env, key, e, popped, reply)...)
	}
	return append(outs, Outcome{Reply: MEmptySeq(true), State: st})
}

func mZRemRangeByScore(st *State, env Env, a []string) []Outcome {
	if len(a) != 4 {
		return errOut(st, "arity")
	}
	lo, s1 := zsetScoreBound(a[2])
	hi, s2 := zsetScoreBound(a[3])
	if s1 == 0 || s2 == 0 {
		return errOut(st, "bound is not a number")
	}
	_, e, wrong := zsetLookup(st, env, a[1])
	if wrong {
		return errOut(st, "not a sorted set")
	}
	var outs []Outcome
	if s1 == 2 || s2 == 2 {
		outs = append(outs, errOut(st, "undocumented bound syntax")...)
	}
	if e == nil {
		return append(outs, Outcome{Reply: MInt(0), State: st})
	}
	var victims []ZPair
	for _, p := range ZSorted(e.Z) {
		if zsetInScore(p.S, lo, hi) {
			victims = append(victims, p)
		}
	}
	return append(outs, zsetRemove(st, env, a[1], e, victims, MInt(int64(len(victims))))...)
}

func mZRemRangeByRank(st *State, env Env, a []string) []Outcome {
	if len(a) != 4 {
		return errOut(st, "arity")
	}
	start, ok1 := parseInt64(a[2])
	stop, ok2 := parseInt64(a[3])
	if !ok1 || !ok2 {
		return errOut(st, "rank is not an integer")
	}
	_, e, wrong := zsetLookup(st, env, a[1])
	if wrong {
		return errOut(st, "not a sorted set")
	}
	if e == nil {
		return one(MInt(0), st)
	}
	sorted := ZSorted(e.Z)
	n := int64(len(sorted))
	if start < 0 {
		start += n
	}
	if stop < 0 {
		stop += n
	}
	var outs []Outcome
	if start < 0 || start > n-1 || stop < 0 || stop > n-1 {
		// out-of-range ranks: clamped like every other index range, or refused
		// (Test_HandleZREMRANGEBYRANK 5/6 pin "indices out of bounds")
		outs = append(outs, errOut(st, "rank out of bounds")...)
	}
	if start < 0 {
		start = 0
	}
	if stop > n-1 {
		stop = n - 1
	}
	var victims []ZPair
	if start <= stop {
		victims = sorted[start : stop+1]
	} else if start <= n-1 && stop >= 0 {
		// "Removes the elements in the rank range between start and stop": with start > stop
		// Redis removes nothing; reading "between" symmetrically removes ranks stop..start.
		sym := sorted[stop : start+1]
		outs = append(outs, zsetRemove(st, env, a[1], e, sym, MInt(int64(len(sym))))...)
	}
	return append(outs, zsetRemove(st, env, a[1], e, victims, MInt(int64(len(victims))))...)
}

func mZRemRangeByLex(st *State, env Env, a []string) []Outcome {
	if len(a) != 4 {
		return errOut(st, "arity")
	}
	_, e, wrong := zsetLookup(st, env, a[1])
	if wrong {
		return errOut(st, "not a sorted set")
	}
	if e == nil {
		return one(MInt(0), st)
	}
	if !zsetSameScores(e.Z) {
		return nil
	}
	var outs []Outcome
	for _, pred := range zsetLexPreds(a[2], a[3], false) {
		var victims []ZPair
		for _, p := range ZSorted(e.Z) {
			if pred(p.M) {
				victims = append(victims, p)
			}
		}
		outs = append(outs, zsetRemove(st, env, a[1], e, victims, MInt(int64(len(victims))))...)
	}
	return outs
}

// ---------------------------------------------------------------------------
// ZRANDMEMBER

func mZRandMember(st *State, env Env, a []string) []Outcome {
	if len(a) < 2 || len(a) > 4 {
		return errOut(st, "arity")
	}
	hasCount := len(a) >= 3
	var count int64
	if hasCount {
		c, ok := parseInt64(a[2])
		if !ok {
			return errOut(st, "count is not an integer")
		}
		count = c
	}
	ws := false
	if len(a) == 4 {
		if !isKW(a[3], "withscores") {
			return errOut(st, "last option must be WITHSCORES")
		}
		ws = true
	}
	z, _, wrong := zsetLookup(st, env, a[1])
	if wrong {
		return errOut(st, "not a sorted set")
	}
	if len(z) == 0 {
		return one(MEmptySeq(true), st)
	}
	single := MPred("one current member", func(v resp.Value) bool {
		if t, ok := zsetScalar(v); ok && !ws {
			_, in := z[t]
			return in
		}
		got, ok := zsetDecodeList(v, ws)
		if !ok || len(got) != 1 {
			return false
		}
		s, in := z[got[0].m]
		return in && (!ws || floatEq(s, got[0].s))
	})
	if !hasCount {
		return one(single, st)
	}
	if count == 0 {
		// Appendix A: empty. The embedded API documents (ZRandMember godoc): "The default count is 1.
		// If a count of 0 is passed, it will be ignored."
		return one(MAny(MEmptySeq(false), single), st)
	}
	want := count
	distinct := true
	if count < 0 {
		want, distinct = -count, false
	} else if want > int64(len(z)) {
		want = int64(len(z))
	}
	desc := fmt.Sprintf("%d current members (distinct=%v, scores=%v)", want, distinct, ws)
	return one(MPred(desc, func(v resp.Value) bool {
		got, ok := zsetDecodeList(v, ws)
		if !ok || int64(len(got)) != want {
			return false
		}
		seen := map[string]bool{}
		for _, g := range got {
			s, in := z[g.m]
			if !in || (ws && !floatEq(s, g.s)) {
				return false
			}
			if distinct && seen[g.m] {
				return false
			}
			seen[g.m] = true
		}
		return true
	}), st)
}

// ---------------------------------------------------------------------------
// ZRANGE / ZRANGESTORE

type zsetRangeOpts struct {
	byScore, byLex, rev, withScores, hasLimit bool
	offset, count                             int64
	dup                                       bool
}

// zsetParseRangeOpts parses [BYSCORE | BYLEX] [REV] [LIMIT offset count] [WITHSCORES].
func zsetParseRangeOpts(toks []string) (o zsetRangeOpts, ok bool) {
	for i := 0; i < len(toks); i++ {
		var f *bool
		switch strings.ToLower(toks[i]) {
		case "byscore":
			f = &o.byScore
		case "bylex":
			f = &o.byLex
		case "rev":
			f = &o.rev
		case "withscores":
			f = &o.withScores
		case "limit":
			if i+2 >= len(toks) {
				return o, false
			}
			off, ok1 := parseInt64(toks[i+1])
			cnt, ok2 := parseInt64(toks[i+2])
			if !ok1 || !ok2 {
				return o, false
			}
			if o.hasLimit {
				o.dup = true
			}
			o.hasLimit, o.offset, o.count = true, off, cnt
			i += 2
			continue
		default:
			return o, false
		}
		if *f {
			o.dup = true
		}
		*f = true
	}
	if o.byScore && o.byLex {
		return o, false
	}
	return o, true
}

// zsetRangeEval evaluates a range query on z. results holds the accepted
// result lists (more than one only for lexicographic bounds in Redis
// notation); errAlt: an error reply is accepted too; hardErr: only an error is
// accepted; unmodelled: the docs leave the result unspecified.
func zsetRangeEval(z map[string]float64, start, stop string, o zsetRangeOpts) (results [][]ZPair, errAlt, hardErr, unmodelled bool) {
	var selections [][]ZPair
	sorted := ZSorted(z)
	if o.byLex {
		if !zsetSameScores(z) {
			return nil, false, false, true
		}
		for _, pred := range zsetLexPreds(start, stop, o.rev) {
			var sel []ZPair
			for _, p := range sorted {
				if pred(p.M) {
					sel = append(sel, p)
				}
			}
			selections = append(selections, sel)
		}
	} else {
		lo, s1 := zsetScoreBound(start)
		hi, s2 := zsetScoreBound(stop)
		if s1 == 0 || s2 == 0 {
			return nil, false, true, false
		}
		errAlt = s1 == 2 || s2 == 2
		var sel []ZPair
		for _, p := range sorted {
			if zsetInScore(p.S, lo, hi) {
				sel = append(sel, p)
			}
		}
		selections = append(selections, sel)
	}
	if o.dup {
		errAlt = true
	}
	for _, sel := range selections {
		if o.rev {
			sel = zsetReverse(sel)
		}
		if o.hasLimit {
			switch {
			case o.offset < 0:
				// Redis: empty; Test_HandleZRANGE 13 pins an error
				errAlt = true
				sel = nil
			case o.offset >= int64(len(sel)):
				sel = nil
			default:
				sel = sel[o.offset:]
				if o.count >= 0 && o.count < int64(len(sel)) {
					sel = sel[:o.count]
				}
			}
		}
		results = append(results, sel)
	}
	return results, errAlt, false, false
}

func mZRange(st *State, env Env, a []string) []Outcome {
	if len(a) < 4 {
		return errOut(st, "arity")
	}
	o, ok := zsetParseRangeOpts(a[4:])
	if !ok {
		return errOut(st, "options")
	}
	z, _, wrong := zsetLookup(st, env, a[1])
	if wrong {
		return errOut(st, "not a sorted set")
	}
	results, errAlt, hardErr, unmodelled := zsetRangeEval(z, a[2], a[3], o)
	if unmodelled {
		return nil
	}
	if hardErr {
		return errOut(st, "bound is not a number")
	}
	var outs []Outcome
	if errAlt {
		outs = append(outs, errOut(st, "undocumented syntax")...)
	}
	for _, r := range results {
		outs = append(outs, Outcome{Reply: zsetListMatcher(r, o.withScores, true), State: st})
	}
	return outs
}

func mZRangeStore(st *State, env Env, a []string) []Outcome {
	if len(a) < 5 {
		return errOut(st, "arity")
	}
	dst, src := a[1], a[2]
	o, ok := zsetParseRangeOpts(a[5:])
	if !ok {
		return errOut(st, "options")
	}
	z, _, wrong := zsetLookup(st, env, src)
	if wrong {
		return errOut(st, "source is not a sorted set")
	}
	results, errAlt, hardErr, unmodelled := zsetRangeEval(z, a[3], a[4], o)
	if unmodelled {
		return nil
	}
	if hardErr {
		return errOut(st, "bound is not a number")
	}
	var outs []Outcome
	if errAlt {
		outs = append(outs, errOut(st, "undocumented syntax")...)
	}
	for _, r := range results {
		nz := make(map[string]float64, len(r))
		for _, p := range r {
			nz[p.M] = p.S
		}
		outs = append(outs, zsetOuts(MInt(int64(len(nz))), zsetWrite(st, env, dst, nz, zsetStoreDeadlines(st, env, dst)...), "")...)
	}
	return outs
}

// ---------------------------------------------------------------------------
// ZDIFF / ZUNION / ZINTER and their STORE forms

func mZDiff(st *State, env Env, a []string) []Outcome {
	if len(a) < 2 {
		return errOut(st, "arity")
	}
	keys := a[1:]
	ws := false
	for i, k := range keys {
		if isKW(k, "withscores") {
			if i != len(keys)-1 {
				return errOut(st, "WITHSCORES must be last")
			}
			ws = true
			keys = keys[:i]
			break
		}
	}
	if len(keys) == 0 {
		return errOut(st, "no keys")
	}
	res, wrong := zsetDiff(st, env, keys)
	if wrong {
		return errOut(st, "not a sorted set")
	}
	return one(zsetListMatcher(ZSorted(res), ws, false), st)
}

func zsetDiff(st *State, env Env, keys []string) (map[string]float64, bool) {
	for _, k := range keys {
		if wrongKind(st, env, k, KZSet) {
			return nil, true
		}
	}
	base, _, _ := zsetLookup(st, env, keys[0])
	res := zsetCopy(base)
	for _, k := range keys[1:] {
		o, _, _ := zsetLookup(st, env, k)
		for m := range o {
			delete(res, m)
		}
	}
	return res, false
}

func mZDiffStore(st *State, env Env, a []string) []Outcome {
	if len(a) < 3 {
		return errOut(st, "arity")
	}
	dst := a[1]
	res, wrong := zsetDiff(st, env, a[2:])
	if wrong {
		return errOut(st, "not a sorted set")
	}
	return zsetOuts(MInt(int64(len(res))), zsetWrite(st, env, dst, res, zsetStoreDeadlines(st, env, dst)...), "")
}

// zsetSum adds weighted scores. ok=false: the result depends on the order of
// association (three or more terms that are not exactly representable sums, or
// infinities of both signs), which no document fixes.
func zsetSum(ts []float64) (float64, bool) {
	if len(ts) == 1 {
		return ts[0], true
	}
	pos, neg, exact := false, false, true
	acc := 0.0
	for _, t := range ts {
		switch {
		case math.IsInf(t, 1):
			pos = true
		case math.IsInf(t, -1):
			neg = true
		default:
			if math.Abs(t) > 1<<40 || t*(1<<20) != math.Trunc(t*(1<<20)) {
				exact = false
			}
			acc += t
		}
	}
	if len(ts) == 2 {
		r := ts[0] + ts[1]
		if math.IsNaN(r) {
			r = 0 // +inf + -inf: Redis keeps the convention 0
		}
		return r, true
	}
	if !exact || (pos && neg) {
		return 0, false
	}
	if pos {
		return math.Inf(1), true
	}
	if neg {
		return math.Inf(-1), true
	}
	return acc, true
}

// mZAlgebra models ZUNION / ZINTER (store=false) and ZUNIONSTORE / ZINTERSTORE.
func mZAlgebra(st *State, env Env, a []string, union, store bool) []Outcome {
	min := 2
	if store {
		min = 3
	}
	if len(a) < min {
		return errOut(st, "arity")
	}
	toks := a[1:]
	dst := ""
	if store {
		dst, toks = a[1], a[2:]
	}
	isOpt := func(s string) bool {
		return isKW(s, "weights") || isKW(s, "aggregate") || isKW(s, "withscores")
	}
	i := 0
	for ; i < len(toks) && !isOpt(toks[i]); i++ {
	}
	keys, opts := toks[:i], toks[i:]
	if len(keys) == 0 {
		return errOut(st, "no keys")
	}
	var weights []float64
	agg := "sum"
	var hasW, hasA, ws, dubious bool
	for j := 0; j < len(opts); {
		switch {
		case isKW(opts[j], "weights"):
			if hasW {
				return nil // option given twice: not modelled
			}
			hasW = true
			j++
			for ; j < len(opts) && !isOpt(opts[j]); j++ {
				f, status := zsetNum(opts[j])
				if status == 0 {
					return errOut(st, "weight is not a number")
				}
				if status == 2 {
					dubious = true
				}
				weights = append(weights, f)
			}
		case isKW(opts[j], "aggregate"):
			if hasA {
				return nil
			}
			hasA = true
			if j+1 >= len(opts) {
				return errOut(st, "AGGREGATE needs an argument")
			}
			agg = strings.ToLower(opts[j+1])
			if agg != "sum" && agg != "min" && agg != "max" {
				return errOut(st, "AGGREGATE must be SUM, MIN or MAX")
			}
			j += 2
		case isKW(opts[j], "withscores"):
			if ws {
				return nil
			}
			ws = true
			j++
		default:
			return errOut(st, "unknown option")
		}
	}
	if hasW && len(weights) != len(keys) {
		return errOut(st, "number of weights")
	}
	if !hasW {
		weights = make([]float64, len(keys))
		for k := range weights {
			weights[k] = 1
		}
	}
	for _, k := range keys {
		if wrongKind(st, env, k, KZSet) {
			return errOut(st, "not a sorted set")
		}
	}
	var outs []Outcome
	if dubious {
		outs = append(outs, errOut(st, "undocumented weight syntax")...)
	}
	// weighted contributions per member, in key order
	contrib := map[string][]float64{}
	for k, key := range keys {
		z, _, _ := zsetLookup(st, env, key)
		for m, s := range z {
			w := s * weights[k]
			if math.IsNaN(w) {
				w = 0 // inf * 0: Redis keeps the convention 0
			}
			contrib[m] = append(contrib[m], w)
		}
	}
	res := map[string]float64{}
	for m, ts := range contrib {
		if !union && len(ts) != len(keys) {
			continue
		}
		var v float64
		switch agg {
		case "sum":
			var ok bool
			if v, ok = zsetSum(ts); !ok {
				return nil
			}
		case "min":
			v = ts[0]
			for _, t := range ts[1:] {
				if t < v {
					v = t
				}
			}
		case "max":
			v = ts[0]
			for _, t := range ts[1:] {
				if t > v {
					v = t
				}
			}
		}
		res[m] = v
	}
	if !store {
		return append(outs, Outcome{Reply: zsetListMatcher(ZSorted(res), ws, false), State: st})
	}
	return append(outs, zsetOuts(MInt(int64(len(res))), zsetWrite(st, env, dst, res, zsetStoreDeadlines(st, env, dst)...), "")...)
}

// ---------------------------------------------------------------------------
// helpers for the listed-finding predicates (harness/preds_c17.go)

// ZAddUpdatesWithoutCH reports whether argv is a well-formed ZADD without NX,
// XX, CH and INCR that really changes the score of an existing member of z.
func ZAddUpdatesWithoutCH(z map[string]float64, argv []string) bool {
	if len(argv) < 4 {
		return false
	}
	var gt, lt bool
	i := 2
loop:
	for ; i < len(argv); i++ {
		switch strings.ToLower(argv[i]) {
		case "gt":
			gt = true
		case "lt":
			lt = true
		case "nx", "xx", "ch", "incr":
			return false
		default:
			break loop
		}
	}
	rest := argv[i:]
	if len(rest) == 0 || len(rest)%2 != 0 || (gt && lt) {
		return false
	}
	cur := zsetCopy(z)
	changed := false
	for j := 0; j < len(rest); j += 2 {
		f, status := zsetNum(rest[j])
		if status == 0 {
			return false
		}
		old, exists := cur[rest[j+1]]
		switch {
		case !exists:
			cur[rest[j+1]] = f
		case gt && !(f > old):
		case lt && !(f < old):
		default:
			if f != old {
				cur[rest[j+1]] = f
				changed = true
			}
		}
	}
	return changed
}

// ZRangeQuery evaluates a ZRANGE-style query (opts are the tokens after stop)
// on z as the reference does. ok=false: error or not modelled.
func ZRangeQuery(z map[string]float64, start, stop string, opts []string) ([]ZPair, bool) {
	o, ok := zsetParseRangeOpts(opts)
	if !ok {
		return nil, false
	}
	results, errAlt, hardErr, unmodelled := zsetRangeEval(z, start, stop, o)
	_ = errAlt // undocumented syntax that the server may accept: evaluate it as the reference would
	if hardErr || unmodelled || len(results) == 0 {
		return nil, false
	}
	return results[0], true
}

// ZMPopScan parses a ZMPOP command and reports whether it is well formed and
// whether a left-to-right scan meets a key of another type before the first
// non-empty sorted set.
func ZMPopScan(st *State, env Env, argv []string) (wellFormed, meetsWrongType bool) {
	i := 1
	for ; i < len(argv); i++ {
		if isKW(argv[i], "min") || isKW(argv[i], "max") || isKW(argv[i], "count") {
			break
		}
	}
	keys := argv[1:i]
	if len(keys) == 0 {
		return false, false
	}
	opts := argv[i:]
	seenPolicy, seenCount := false, false
	for j := 0; j < len(opts); j++ {
		switch {
		case isKW(opts[j], "min") || isKW(opts[j], "max"):
			if seenPolicy {
				return false, false
			}
			seenPolicy = true
		case isKW(opts[j], "count"):
			if seenCount || j+1 >= len(opts) {
				return false, false
			}
			c, ok := parseInt64(opts[j+1])
			if !ok || c <= 0 {
				return false, false
			}
			seenCount = true
			j++
		default:
			return false, false
		}
	}
	for _, k := range keys {
		z, _, wrong := zsetLookup(st, env, k)
		if wrong {
			return true, true
		}
		if len(z) > 0 {
			return true, false
		}
	}
	return true, false
}
