package main

import "verif/harness/model"

var modelEnvZero = model.Env{}

// zsetGensOrNil returns the sorted-set command generators (see c17.go).
func zsetGensOrNil() []cmdGen { return zsetGensHook() }

var zsetGensHook = func() []cmdGen { return nil }

func init() {
	zsetGensHook = c17Gens
	zsetAlphabetHook = c17Alphabet
}
