package main

import (
	"flag"
	"fmt"
	"os"
	"runtime/debug"
	"sort"
	"strconv"
)

type checkFunc func(ctx *Ctx)

type checkDef struct {
	level string
	run   checkFunc
}

var checks = map[string]checkDef{}

func registerCheck(prop, level string, f checkFunc) { checks[prop] = checkDef{level, f} }

func usage() {
	fmt.Fprintln(os.Stderr, "usage: verifd check -prop Cxx [-tier quick|thorough] [-seed n] | replay <file> | worker ... | serve ...")
	os.Exit(2)
}

func main() {
	if len(os.Args) < 2 {
		usage()
	}
	debug.SetTraceback("all")
	switch os.Args[1] {
	case "check":
		fs := flag.NewFlagSet("check", flag.ExitOnError)
		prop := fs.String("prop", "", "property id")
		tier := fs.String("tier", "", "quick|thorough")
		seed := fs.Int64("seed", -1, "seed")
		_ = fs.Parse(os.Args[2:])
		if *tier == "" {
			*tier = os.Getenv("VERIF_TIER")
		}
		if *tier == "" {
			*tier = "quick"
		}
		if *seed < 0 {
			*seed = 1
			if s := os.Getenv("VERIF_SEED"); s != "" {
				if v, err := strconv.ParseInt(s, 10, 64); err == nil {
					*seed = v
				}
			}
		}
		def, ok := checks[*prop]
		if !ok {
			ids := []string{}
			for k := range checks {
				ids = append(ids, k)
			}
			sort.Strings(ids)
			fmt.Fprintf(os.Stderr, "unknown property %q (have %v)\n", *prop, ids)
			os.Exit(2)
		}
		ctx := NewCtx(*prop, *tier, *seed, def.level)
		def.run(ctx)
		os.Exit(ctx.Finish())
	case "replay":
		if len(os.Args) < 3 {
			usage()
		}
		os.Exit(replayFile(os.Args[2]))
	case "worker":
		os.Exit(workerMain(os.Args[2:]))
	case "serve":
		os.Exit(serveMain(os.Args[2:]))
	case "stress":
		os.Exit(stressMain(os.Args[2:]))
	default:
		usage()
	}
}
