package main

import (
	"math/rand"
	"strconv"
	"strings"
)

// Universe is the pool of keys and values a generator draws from.
type Universe struct {
	Keys   []string
	Vals   []string // scalar values / elements / members / field values
	Fields []string
	Ints   []string // integer-ish arguments (indices, counts, increments)
	Floats []string
}

var bigVal = strings.Repeat("0123456789abcdef", 640) // 10 KB

func defaultUniverse() Universe {
	return Universe{
		Keys: []string{"a", "b", "c", "d", "e", "f"},
		Vals: []string{"x", "y", "zz", "", "0", "5", "10", "-3", "1.5", "-0.25", "9223372036854775807", "-9223372036854775808",
			"a\r\nb", "nul\x00byte", " 1", "ünï", "tab\there", "hello world", "OK", "$5", "*1", bigVal,
			"007", "1e3", "3.0", "-0", "+5", "inf", "0x10", "1_0"},
		Fields: []string{"f1", "f2", "f3", "", "f\r\n"},
		Ints:   []string{"0", "1", "-1", "2", "-2", "3", "-3", "4", "5", "-5", "10", "100", "-100", "x", "1.5", "", "9223372036854775807", "-9223372036854775808", "9223372036854775808"},
		Floats: []string{"0", "1", "-1", "0.5", "-0.25", "1e2", "3.25", "x", "", "inf", "-inf", "nan", "1e308"},
	}
}

func pick(r *rand.Rand, xs []string) string { return xs[r.Intn(len(xs))] }

type cmdGen func(r *rand.Rand, u *Universe, now int64) []string

func itoa(i int64) string { return strconv.FormatInt(i, 10) }

// deadline-ish arguments relative to now
func relSeconds(r *rand.Rand) string {
	return pick(r, []string{"1", "2", "10", "100", "0", "-1", "x", "3600"})
}
func relMillis(r *rand.Rand) string {
	return pick(r, []string{"1", "500", "1500", "10000", "0", "-5", "x", "60000"})
}
func absSeconds(r *rand.Rand, now int64) string {
	s := now / 1e9
	return pick(r, []string{itoa(s + 1), itoa(s + 10), itoa(s + 100), itoa(s - 1), itoa(s), "x", "0"})
}
func absMillis(r *rand.Rand, now int64) string {
	m := now / 1e6
	return pick(r, []string{itoa(m + 1), itoa(m + 1500), itoa(m + 100000), itoa(m - 1), itoa(m), "x"})
}

func genSetOpts(r *rand.Rand, now int64) []string {
	var o []string
	switch r.Intn(6) {
	case 0:
		o = append(o, pick(r, []string{"NX", "nx"}))
	case 1:
		o = append(o, pick(r, []string{"XX", "xx"}))
	case 2:
		if r.Intn(8) == 0 {
			o = append(o, "NX", "XX")
		}
	}
	if r.Intn(4) == 0 {
		o = append(o, pick(r, []string{"GET", "get"}))
	}
	switch r.Intn(9) {
	case 0:
		o = append(o, "EX", relSeconds(r))
	case 1:
		o = append(o, "PX", relMillis(r))
	case 2:
		o = append(o, "EXAT", absSeconds(r, now))
	case 3:
		o = append(o, "PXAT", absMillis(r, now))
	case 4:
		if r.Intn(4) == 0 {
			o = append(o, "EX") // missing value
		}
	case 5:
		if r.Intn(6) == 0 {
			o = append(o, "EX", "10", "PX", "10")
		}
	case 6:
		if r.Intn(6) == 0 {
			o = append(o, "BOGUS")
		}
	}
	r.Shuffle(len(o), func(i, j int) {
		// keep option arguments attached: only shuffle when no valued option is present
	})
	return o
}

func genericGens() []cmdGen {
	k := func(r *rand.Rand, u *Universe) string { return pick(r, u.Keys) }
	v := func(r *rand.Rand, u *Universe) string { return pick(r, u.Vals) }
	return []cmdGen{
		func(r *rand.Rand, u *Universe, now int64) []string {
			return append([]string{"SET", k(r, u), v(r, u)}, genSetOpts(r, now)...)
		},
		func(r *rand.Rand, u *Universe, now int64) []string {
			return append([]string{"SET", k(r, u), v(r, u)}, genSetOpts(r, now)...)
		},
		func(r *rand.Rand, u *Universe, now int64) []string { return []string{"SET", k(r, u), v(r, u)} },
		func(r *rand.Rand, u *Universe, now int64) []string { return []string{"GET", k(r, u)} },
		func(r *rand.Rand, u *Universe, now int64) []string { return []string{"GET", k(r, u)} },
		func(r *rand.Rand, u *Universe, now int64) []string {
			a := []string{"MSET"}
			for i, n := 0, 1+r.Intn(3); i < n; i++ {
				a = append(a, k(r, u), v(r, u))
			}
			if r.Intn(10) == 0 {
				a = append(a, k(r, u))
			}
			return a
		},
		func(r *rand.Rand, u *Universe, now int64) []string {
			a := []string{"MGET"}
			for i, n := 0, 1+r.Intn(4); i < n; i++ {
				a = append(a, k(r, u))
			}
			return a
		},
		func(r *rand.Rand, u *Universe, now int64) []string {
			a := []string{"DEL"}
			for i, n := 0, 1+r.Intn(3); i < n; i++ {
				a = append(a, k(r, u))
			}
			return a
		},
		func(r *rand.Rand, u *Universe, now int64) []string { return []string{"INCR", k(r, u)} },
		func(r *rand.Rand, u *Universe, now int64) []string { return []string{"DECR", k(r, u)} },
		func(r *rand.Rand, u *Universe, now int64) []string { return []string{"INCRBY", k(r, u), pick(r, u.Ints)} },
		func(r *rand.Rand, u *Universe, now int64) []string { return []string{"DECRBY", k(r, u), pick(r, u.Ints)} },
		func(r *rand.Rand, u *Universe, now int64) []string {
			return []string{"INCRBYFLOAT", k(r, u), pick(r, u.Floats)}
		},
		func(r *rand.Rand, u *Universe, now int64) []string { return []string{"APPEND", k(r, u), v(r, u)} },
		func(r *rand.Rand, u *Universe, now int64) []string {
			return []string{"SETRANGE", k(r, u), pick(r, u.Ints), v(r, u)}
		},
		func(r *rand.Rand, u *Universe, now int64) []string {
			return []string{pick(r, []string{"GETRANGE", "SUBSTR"}), k(r, u), pick(r, u.Ints), pick(r, u.Ints)}
		},
		func(r *rand.Rand, u *Universe, now int64) []string { return []string{"STRLEN", k(r, u)} },
		func(r *rand.Rand, u *Universe, now int64) []string { return []string{"RENAME", k(r, u), k(r, u)} },
		func(r *rand.Rand, u *Universe, now int64) []string { return []string{"GETDEL", k(r, u)} },
		func(r *rand.Rand, u *Universe, now int64) []string {
			a := []string{"GETEX", k(r, u)}
			switch r.Intn(8) {
			case 0:
				a = append(a, pick(r, []string{"PERSIST", "persist"}))
			case 1:
				a = append(a, "EX", relSeconds(r))
			case 2:
				a = append(a, "PX", relMillis(r))
			case 3:
				a = append(a, "EXAT", absSeconds(r, now))
			case 4:
				a = append(a, "PXAT", absMillis(r, now))
			case 5:
				if r.Intn(3) == 0 {
					a = append(a, pick(r, []string{"EX", "BOGUS", "PERSIST 5"}))
				}
			}
			return a
		},
		func(r *rand.Rand, u *Universe, now int64) []string { return []string{"TYPE", k(r, u)} },
		func(r *rand.Rand, u *Universe, now int64) []string {
			if r.Intn(6) == 0 {
				return []string{"FLUSHDB"}
			}
			return []string{"GET", k(r, u)}
		},
	}
}

func expiryGens() []cmdGen {
	k := func(r *rand.Rand, u *Universe) string { return pick(r, u.Keys) }
	opt := func(r *rand.Rand, a []string) []string {
		switch r.Intn(8) {
		case 0:
			return append(a, pick(r, []string{"NX", "nx"}))
		case 1:
			return append(a, "XX")
		case 2:
			return append(a, pick(r, []string{"GT", "gt"}))
		case 3:
			return append(a, "LT")
		case 4:
			if r.Intn(4) == 0 {
				return append(a, "BOGUS")
			}
		}
		return a
	}
	return []cmdGen{
		func(r *rand.Rand, u *Universe, now int64) []string {
			return opt(r, []string{"EXPIRE", k(r, u), relSeconds(r)})
		},
		func(r *rand.Rand, u *Universe, now int64) []string {
			return opt(r, []string{"PEXPIRE", k(r, u), relMillis(r)})
		},
		func(r *rand.Rand, u *Universe, now int64) []string {
			return opt(r, []string{"EXPIREAT", k(r, u), absSeconds(r, now)})
		},
		func(r *rand.Rand, u *Universe, now int64) []string {
			return opt(r, []string{"PEXPIREAT", k(r, u), absMillis(r, now)})
		},
		func(r *rand.Rand, u *Universe, now int64) []string { return []string{"PERSIST", k(r, u)} },
		func(r *rand.Rand, u *Universe, now int64) []string { return []string{"TTL", k(r, u)} },
		func(r *rand.Rand, u *Universe, now int64) []string { return []string{"PTTL", k(r, u)} },
		func(r *rand.Rand, u *Universe, now int64) []string { return []string{"EXPIRETIME", k(r, u)} },
		func(r *rand.Rand, u *Universe, now int64) []string { return []string{"PEXPIRETIME", k(r, u)} },
	}
}

// otherTypeGens creates keys of non-scalar types so that wrong-type paths are
// exercised by the scalar lanes (and vice versa).
func otherTypeGens() []cmdGen {
	k := func(r *rand.Rand, u *Universe) string { return pick(r, u.Keys) }
	return []cmdGen{
		func(r *rand.Rand, u *Universe, now int64) []string { return []string{"RPUSH", k(r, u), "e1", "e2"} },
		func(r *rand.Rand, u *Universe, now int64) []string { return []string{"HSET", k(r, u), "f1", "v1"} },
		func(r *rand.Rand, u *Universe, now int64) []string { return []string{"SADD", k(r, u), "m1", "m2"} },
		func(r *rand.Rand, u *Universe, now int64) []string { return []string{"ZADD", k(r, u), "1", "m1", "2", "m2"} },
	}
}

func wrongArity(r *rand.Rand, argv []string) []string {
	switch r.Intn(3) {
	case 0:
		if len(argv) > 1 {
			return argv[:len(argv)-1]
		}
	case 1:
		return append(append([]string{}, argv...), "extra")
	}
	return argv[:1]
}
