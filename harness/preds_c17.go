package main

import (
	"strings"

	"verif/harness/model"
)

// Predicates of the listed findings of property C17 (see known_findings.json).

func init() {
	// C17-KF1: ZADD without NX/XX and without CH also counts the members whose
	// score it changed. Matches exactly the well-formed ZADD commands without
	// NX, XX, CH, INCR that really change the score of an existing member.
	registerPred("C17-KF1", func(st *model.State, env model.Env, argv []string) bool {
		if len(argv) < 4 || !strings.EqualFold(argv[0], "zadd") {
			return false
		}
		var z map[string]float64 // an absent key is an empty set: a member repeated in one command is "updated" too
		if e := st.DBs[env.DB][argv[1]]; e != nil {
			if e.Kind != model.KZSet {
				return false
			}
			z = e.Z
		}
		return model.ZAddUpdatesWithoutCH(z, argv)
	})

	// C17-KF2: ZRANGE / ZRANGESTORE apply LIMIT to the positions offset..count
	// (inclusive, "count" used as an end index) of the WHOLE ordered set and only
	// then filter by the bounds. Matches exactly the well-formed queries with a
	// LIMIT clause for which that computation differs from windowing the members
	// inside the bounds.
	registerPred("C17-KF2", func(st *model.State, env model.Env, argv []string) bool {
		base, keyIdx := 4, 1
		switch strings.ToLower(argv[0]) {
		case "zrange":
		case "zrangestore":
			base, keyIdx = 5, 2
		default:
			return false
		}
		if len(argv) < base+3 {
			return false
		}
		opts := argv[base:]
		li := -1
		rev := false
		for i, o := range opts {
			if strings.EqualFold(o, "limit") && li < 0 {
				li = i
			}
			if strings.EqualFold(o, "rev") {
				rev = true
			}
		}
		if li < 0 || li+2 >= len(opts) {
			return false
		}
		e := st.DBs[env.DB][argv[keyIdx]]
		if e == nil || e.Kind != model.KZSet {
			return false
		}
		start, stop := argv[base-2], argv[base-1]
		want, ok := model.ZRangeQuery(e.Z, start, stop, opts)
		if !ok {
			return false
		}
		stripped := append(append([]string{}, opts[:li]...), opts[li+3:]...)
		inside, ok := model.ZRangeQuery(e.Z, start, stop, stripped)
		if !ok {
			return false
		}
		offset, err1 := atoi64(opts[li+1])
		count, err2 := atoi64(opts[li+2])
		if !err1 || !err2 || offset < 0 {
			return false
		}
		in := map[string]bool{}
		for _, p := range inside {
			in[p.M] = true
		}
		all := model.ZSorted(e.Z)
		if rev {
			for i, j := 0, len(all)-1; i < j; i, j = i+1, j-1 {
				all[i], all[j] = all[j], all[i]
			}
		}
		if count < 0 {
			count = int64(len(all)) - offset
		}
		var got []model.ZPair
		for i := offset; i <= count && i < int64(len(all)); i++ {
			if in[all[i].M] {
				got = append(got, all[i])
			}
		}
		if len(got) != len(want) {
			return true
		}
		for i := range got {
			if got[i] != want[i] {
				return true
			}
		}
		return false
	})

	// C17-KF4: ZUNIONSTORE removes every argument equal to the destination from
	// the command before parsing it. Matches exactly the ZUNIONSTORE commands in
	// which the destination occurs again among the later arguments.
	registerPred("C17-KF4", func(st *model.State, env model.Env, argv []string) bool {
		if len(argv) < 3 || !strings.EqualFold(argv[0], "zunionstore") {
			return false
		}
		for _, a := range argv[2:] {
			if a == argv[1] {
				return true
			}
		}
		return false
	})

	// C17-KF3: ZMPOP skips keys that hold another type instead of failing.
	// Matches exactly the well-formed ZMPOP commands whose left-to-right scan
	// meets such a key before the first non-empty sorted set.
	registerPred("C17-KF3", func(st *model.State, env model.Env, argv []string) bool {
		if !strings.EqualFold(argv[0], "zmpop") {
			return false
		}
		ok, wrong := model.ZMPopScan(st, env, argv)
		return ok && wrong
	})
}

func atoi64(s string) (int64, bool) {
	n := int64(0)
	if s == "" {
		return 0, false
	}
	neg := false
	i := 0
	if s[0] == '-' || s[0] == '+' {
		neg = s[0] == '-'
		i = 1
		if len(s) == 1 {
			return 0, false
		}
	}
	for ; i < len(s); i++ {
		c := s[i]
		if c < '0' || c > '9' || n > (1<<62)/10 {
			return 0, false
		}
		n = n*10 + int64(c-'0')
	}
	if neg {
		n = -n
	}
	return n, true
}
