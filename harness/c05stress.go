package main

import (
	"encoding/json"
	"fmt"
	"math/rand"
	"os"
	"os/exec"
	"path/filepath"
	"regexp"
	"sort"
	"strconv"
	"strings"
	"sync"
	"sync/atomic"
	"time"

	"github.com/anishathalye/porcupine"

	"verif/harness/model"
	"verif/harness/resp"
)

// ---------------------------------------------------------------------------
// parent side: run the stress child (race build) and collect its findings

type stressResult struct {
	Ops        int64             `json:"ops"`
	Violations []Violation       `json:"violations"`
	Counters   map[string]int64  `json:"counters"`
	Classes    []string          `json:"classes"`
	Sample     interface{}       `json:"sample"`
	Inconcl    []string          `json:"inconclusive"`
	Extra      map[string]string `json:"extra"`
}

func c05Stress(ctx *Ctx) {
	bin := os.Getenv("VERIFD_RACE_BIN")
	race := true
	if bin == "" {
		bin, _ = os.Executable()
		race = false
		ctx.Inconclusive("race build unavailable: stress ran without the race detector")
	}
	rounds := ctx.N(3, 10)
	modes := []string{"mixed", "aof-order", "snapshot-cut", "conn-admin", "expiry-resurrect", "first-select", "object-touch", "collection-readers"}
	var wg sync.WaitGroup
	sem := make(chan struct{}, 3)
	for rd := 0; rd < rounds; rd++ {
		for _, mode := range modes {
			wg.Add(1)
			go func(rd int, mode string) {
				defer wg.Done()
				sem <- struct{}{}
				defer func() { <-sem }()
				c05StressRound(ctx, bin, race, rd, mode)
			}(rd, mode)
		}
	}
	wg.Wait()
}

var reRaceFrame = regexp.MustCompile(`^\s+(github\.com/echovault/sugardb/\S+?)\(\)\s*$`)

func c05StressRound(ctx *Ctx, bin string, race bool, rd int, mode string) {
	root := mkScratch("c05stress")
	defer os.RemoveAll(root)
	out := filepath.Join(root, "result.json")
	errf := filepath.Join(root, "stderr.txt")
	raceLog := filepath.Join(root, "race")
	ef, _ := os.Create(errf)
	cmd := exec.Command("timeout", "-s", "QUIT", "600", bin, "stress", "-mode", mode, "-seed", strconv.FormatInt(ctx.Seed*100+int64(rd), 10),
		"-tier", ctx.Tier, "-dir", filepath.Join(root, "data"), "-out", out)
	cmd.Env = append(os.Environ(), "GORACE=halt_on_error=0 log_path="+raceLog)
	cmd.Stdout, cmd.Stderr = ef, ef
	err := cmd.Run()
	ef.Close()
	var res stressResult
	if b, rerr := os.ReadFile(out); rerr == nil {
		_ = json.Unmarshal(b, &res)
	}
	ctx.Eval(res.Ops)
	for k, v := range res.Counters {
		ctx.Count("stress_"+k, v)
	}
	for _, c := range res.Classes {
		ctx.Class("stress|" + mode + "|" + c)
	}
	for _, v := range res.Violations {
		ctx.Violate(v)
	}
	for _, i := range res.Inconcl {
		ctx.Inconclusive(i)
	}
	if rd == 0 && res.Sample != nil {
		ctx.Sample("stress-"+mode, res.Sample)
	}
	if err != nil {
		code := -1
		if ee, ok := err.(*exec.ExitError); ok {
			code = ee.ExitCode()
		}
		tail := tailFile(errf, 16000)
		if code == 66 {
			// the race detector's exit status when it has reported races: handled below from its log
			err = nil
		} else if code == 124 {
			p := saveArtefact(ctx.Prop, "stress-"+mode+"-hang", tail)
			// a hang under concurrent use is a candidate deadlock: it is a violation only if it reproduces
			ctx.Count("stress_hangs", 1)
			ctx.Violate(Violation{Kind: "deadlock", Lane: "stress-" + mode, What: "the stress process made no progress for 10 minutes (goroutine dump saved): " + trunc(lastLines(tail, 6), 600),
				Case: map[string]interface{}{"dump": p, "mode": mode}, Key: "c05|hang|" + mode})
			return
		}
		if err == nil {
			goto races
		}
		p := saveArtefact(ctx.Prop, "stress-"+mode+"-crash", "exit status "+strconv.Itoa(code)+"\n"+tail)
		ctx.Violate(Violation{Kind: "crash", Lane: "stress-" + mode, What: fmt.Sprintf("the process died under concurrent use (exit %d): %s", code, trunc(firstFatalLine(tail)+" | "+lastLines(tail, 8), 1200)),
			Case: map[string]interface{}{"stderr": p, "mode": mode}, Key: "c05|crash|" + firstFatalLine(tail)})
	}
races:
	if !race {
		return
	}
	reports := collectRaceReports(ctx, raceLog, "c05", map[string]interface{}{"mode": mode})
	ctx.Count("race_reports", int64(reports))
	ctx.Count("race_rounds", 1)
}

// ---------------------------------------------------------------------------
// child side

type histOp struct {
	Client int
	Key    string
	Kind   string // set | get | incr
	Arg    string
	Out    string
	Call   int64
	Ret    int64
}

type stressClient struct {
	id  int
	tcp *Client
	in  *Inst
}

func (c *stressClient) do(argv ...string) (resp.Value, error) {
	if c.tcp != nil {
		v, _, err := c.tcp.Do(argv...)
		return v, err
	}
	v, _, crash := c.in.Do(argv...)
	if crash != "" {
		return v, fmt.Errorf("%s", crash)
	}
	return v, nil
}

func stressMain(args []string) int {
	mode, dir, out, tier := "mixed", "", "", "quick"
	seed := int64(1)
	for i := 0; i+1 < len(args); i += 2 {
		switch args[i] {
		case "-mode":
			mode = args[i+1]
		case "-dir":
			dir = args[i+1]
		case "-out":
			out = args[i+1]
		case "-tier":
			tier = args[i+1]
		case "-seed":
			seed, _ = strconv.ParseInt(args[i+1], 10, 64)
		}
	}
	quietLogs()
	_ = os.MkdirAll(dir, 0o755)
	res := &stressResult{Counters: map[string]int64{}, Extra: map[string]string{}}
	var mu sync.Mutex
	violate := func(v Violation) {
		mu.Lock()
		res.Violations = append(res.Violations, v)
		mu.Unlock()
	}
	classes := map[string]bool{}
	class := func(c string) {
		mu.Lock()
		classes[c] = true
		mu.Unlock()
	}
	port := freePort()
	clk := NewVClock()
	opts := InstOpts{DataDir: dir, AOFStrategy: "everysec", Clock: clk, Extra: withTCP(port)}
	if mode == "aof-order" {
		opts.AOFStrategy = "always"
	}
	if mode == "mixed" {
		opts.Policy = "allkeys-lru" // starts the background expiry sampler (no memory limit)
		opts.EvictionInterval = 3 * time.Millisecond
		opts.EvictionSample = 5
	}
	if mode == "expiry-resurrect" {
		opts.Policy = "allkeys-lru"
		opts.EvictionInterval = time.Millisecond
		opts.EvictionSample = 20
	}
	if mode == "object-touch" {
		// eviction bookkeeping is only kept with a memory limit: one that is never reached
		opts.MaxMemory = 1 << 40
		opts.Policy = []string{"allkeys-lfu", "allkeys-lru"}[seed%2]
	}
	in, err := NewInst(opts)
	if err != nil {
		fmt.Fprintln(os.Stderr, err)
		return 2
	}
	if err := in.StartTCP(port); err != nil {
		res.Inconcl = append(res.Inconcl, "listener did not come up")
		writeJSON(out, res)
		return 0
	}
	nClients, nOps := 8, 250
	if tier == "thorough" {
		nClients, nOps = 12, 600
	}
	if mode == "conn-admin" || mode == "expiry-resurrect" || mode == "first-select" || mode == "object-touch" || mode == "collection-readers" {
		finish := func() int {
			for c := range classes {
				res.Classes = append(res.Classes, c)
			}
			writeJSON(out, res)
			return 0
		}
		if mode == "conn-admin" {
			stressConnAdmin(in, port, nOps*2, seed, res, violate, class)
		} else if mode == "first-select" {
			stressFirstSelect(in, port, nClients, seed, res, violate, class)
		} else if mode == "collection-readers" {
			stressCollectionReaders(in, port, seed, res, violate, class)
		} else if mode == "object-touch" {
			stressObjectTouch(in, port, nOps*4, seed, res, violate, class, opts.Policy)
		} else {
			stressExpiryResurrect(in, port, nClients, nOps*2, seed, res, violate, class)
		}
		done := make(chan struct{})
		go func() { in.Close(); close(done) }()
		select {
		case <-done:
		case <-time.After(20 * time.Second):
			violate(Violation{Kind: "deadlock", Lane: "stress-" + mode, What: "the server could not be shut down within 20 s after the workload", Key: "c05|shutdown-hang|" + mode})
		}
		return finish()
	}
	var clients []*stressClient
	for i := 0; i < nClients; i++ {
		c := &stressClient{id: i, in: in}
		if i%2 == 0 {
			tc, err := Dial(port)
			if err != nil {
				res.Inconcl = append(res.Inconcl, "dial failed")
				writeJSON(out, res)
				return 0
			}
			c.tcp = tc
		}
		clients = append(clients, c)
	}
	in.Do("SET", "cnt", "1000")
	in.Do("HSET", "hc", "n", "500")
	start := time.Now()
	now := func() int64 { return int64(time.Since(start)) }
	var hist []histOp
	var hmu sync.Mutex
	rec := func(o histOp) { hmu.Lock(); hist = append(hist, o); hmu.Unlock() }
	var incrReplies, hincrReplies []int64
	pushed, popped := map[string]int{}, map[string]int{}
	added, removed := map[string]int{}, map[string]int{}
	zadded, zpopped := map[string]int{}, map[string]int{}
	var ops atomic.Int64
	stop := make(chan struct{})
	var actors sync.WaitGroup
	// background actors
	if mode == "mixed" || mode == "snapshot-cut" {
		actors.Add(1)
		go func() {
			defer actors.Done()
			for i := 0; ; i++ {
				select {
				case <-stop:
					return
				case <-time.After(7 * time.Millisecond):
				}
				clk.Advance(3e6)
				in.Do("SAVE")
				if mode == "mixed" && i%3 == 0 {
					in.Do("REWRITEAOF")
				}
			}
		}()
	}
	var wg sync.WaitGroup
	for _, c := range clients {
		wg.Add(1)
		go func(c *stressClient) {
			defer wg.Done()
			r := rand.New(rand.NewSource(seed*131 + int64(c.id)))
			var mine []string // set members I added and not yet removed
			fail := func(what string, argv []string, v resp.Value, err error) {
				violate(Violation{Kind: "reply", Lane: "stress-" + mode, What: fmt.Sprintf("client %d: %s: %s -> %s %v", c.id, what, Step{Argv: argv}.String(), trunc(v.String(), 120), err),
					Case: map[string]interface{}{"argv": argv, "mode": mode}, Key: "c05|stress|" + what})
			}
			for i := 0; i < nOps; i++ {
				ops.Add(1)
				uniq := fmt.Sprintf("c%d-%d", c.id, i)
				switch x := r.Intn(16); {
				case mode == "snapshot-cut":
					// every writer writes an increasing sequence on its own keys
					argv := []string{"SET", fmt.Sprintf("w%d:%06d", c.id, i), strconv.Itoa(i)}
					if v, err := c.do(argv...); err != nil || v.IsError() {
						fail("write failed", argv, v, err)
						return
					}
				case x == 0 || x == 1:
					t0 := now()
					v, err := c.do("INCR", "cnt")
					t1 := now()
					if err != nil || v.Kind != resp.Int {
						fail("INCR did not return an integer", []string{"INCR", "cnt"}, v, err)
						return
					}
					mu.Lock()
					incrReplies = append(incrReplies, v.Int)
					mu.Unlock()
					rec(histOp{Client: c.id, Key: "cnt", Kind: "incr", Out: strconv.FormatInt(v.Int, 10), Call: t0, Ret: t1})
				case x == 2:
					v, err := c.do("HINCRBY", "hc", "n", "1")
					if err != nil || v.Kind != resp.Int {
						fail("HINCRBY did not return an integer", []string{"HINCRBY", "hc", "n", "1"}, v, err)
						return
					}
					mu.Lock()
					hincrReplies = append(hincrReplies, v.Int)
					mu.Unlock()
				case x == 3 || x == 4:
					v, err := c.do("RPUSH", "q", uniq)
					if err != nil || v.IsError() {
						fail("RPUSH failed", []string{"RPUSH", "q", uniq}, v, err)
						return
					}
					mu.Lock()
					pushed[uniq]++
					mu.Unlock()
				case x == 5:
					v, err := c.do("LPOP", "q")
					if err != nil || v.IsError() {
						fail("LPOP failed", []string{"LPOP", "q"}, v, err)
						return
					}
					if t, ok := v.Text(); ok && !v.IsNull() {
						mu.Lock()
						popped[t]++
						mu.Unlock()
					}
				case x == 6 || x == 7:
					v, err := c.do("SADD", "st", uniq)
					if err != nil || v.Kind != resp.Int || v.Int != 1 {
						fail("SADD of a fresh member did not reply 1", []string{"SADD", "st", uniq}, v, err)
						return
					}
					mine = append(mine, uniq)
					mu.Lock()
					added[uniq]++
					mu.Unlock()
				case x == 8 && len(mine) > 0:
					m := mine[0]
					mine = mine[1:]
					v, err := c.do("SREM", "st", m)
					if err != nil || v.Kind != resp.Int || v.Int != 1 {
						fail("SREM of a member only this client added did not reply 1", []string{"SREM", "st", m}, v, err)
						return
					}
					mu.Lock()
					removed[m]++
					mu.Unlock()
				case x == 9:
					key := pick(r, []string{"r1", "r2"})
					t0 := now()
					v, err := c.do("SET", key, uniq)
					t1 := now()
					if err != nil || v.IsError() {
						fail("SET failed", []string{"SET", key, uniq}, v, err)
						return
					}
					rec(histOp{Client: c.id, Key: key, Kind: "set", Arg: uniq, Call: t0, Ret: t1})
				case x == 10:
					key := pick(r, []string{"r1", "r2"})
					t0 := now()
					v, err := c.do("GET", key)
					t1 := now()
					if err != nil || v.IsError() {
						fail("GET failed", []string{"GET", key}, v, err)
						return
					}
					o := ""
					if !v.IsNull() {
						o, _ = v.Text()
					}
					rec(histOp{Client: c.id, Key: key, Kind: "get", Out: o, Call: t0, Ret: t1})
				case x == 11:
					v, err := c.do("ZADD", "zs", strconv.Itoa(r.Intn(50)), uniq)
					if err != nil || v.Kind != resp.Int || v.Int != 1 {
						fail("ZADD of a fresh member did not reply 1", []string{"ZADD", "zs", "n", uniq}, v, err)
						return
					}
					mu.Lock()
					zadded[uniq]++
					mu.Unlock()
				case x == 12:
					v, err := c.do("ZPOPMIN", "zs")
					if err != nil || v.IsError() {
						fail("ZPOPMIN failed", []string{"ZPOPMIN", "zs"}, v, err)
						return
					}
					if v.IsSeq() {
						for _, e := range v.Elems {
							if e.IsSeq() && len(e.Elems) >= 1 {
								if t, ok := e.Elems[0].Text(); ok {
									mu.Lock()
									zpopped[t]++
									mu.Unlock()
								}
							}
						}
					}
				case x == 13:
					// all-or-nothing multi-key write, observed by a multi-key read
					if v, err := c.do("MSET", "p1", uniq, "p2", uniq); err != nil || v.IsError() {
						fail("MSET failed", []string{"MSET", "p1", uniq, "p2", uniq}, v, err)
						return
					}
				case x == 14:
					v, err := c.do("MGET", "p1", "p2")
					if err != nil || !v.IsSeq() || len(v.Elems) != 2 {
						fail("MGET failed", []string{"MGET", "p1", "p2"}, v, err)
						return
					}
					a, _ := v.Elems[0].Text()
					b, _ := v.Elems[1].Text()
					if v.Elems[0].IsNull() != v.Elems[1].IsNull() || a != b {
						fail("MGET saw a half-applied MSET", []string{"MGET", "p1", "p2"}, v, nil)
						return
					}
				default:
					// volatile keys for the sampler, read back
					k := fmt.Sprintf("vol%d", r.Intn(6))
					if r.Intn(2) == 0 {
						c.do("SET", k, uniq, "PX", strconv.Itoa(1+r.Intn(40)))
					} else {
						c.do("GET", k)
					}
				}
			}
		}(c)
	}
	wg.Wait()
	close(stop)
	actors.Wait()
	res.Ops = ops.Load()
	time.Sleep(20 * time.Millisecond)

	// ---- checks at quiescence
	final := func(argv ...string) resp.Value { v, _, _ := in.Do(argv...); return v }
	if mode != "snapshot-cut" {
		// counters: every increment returned a distinct value, the values are contiguous, the final value is the last
		checkCounter := func(name string, replies []int64, init int64, fin resp.Value) {
			sort.Slice(replies, func(i, j int) bool { return replies[i] < replies[j] })
			for i, v := range replies {
				if v != init+int64(i)+1 {
					violate(Violation{Kind: "lost_update", Lane: "stress-" + mode, What: fmt.Sprintf("%s: %d increments returned values that are not %d..%d each exactly once (position %d holds %d): an increment was lost or applied twice", name, len(replies), init+1, init+int64(len(replies)), i, v),
						Case: map[string]interface{}{"mode": mode, "seed": seed}, Key: "c05|lost-update|" + name})
					return
				}
			}
			t, _ := fin.Text()
			if t != strconv.FormatInt(init+int64(len(replies)), 10) {
				violate(Violation{Kind: "lost_update", Lane: "stress-" + mode, What: fmt.Sprintf("%s: after %d acknowledged increments from %d the final value is %s", name, len(replies), init, t),
					Case: map[string]interface{}{"mode": mode, "seed": seed}, Key: "c05|lost-update-final|" + name})
			}
			class(fmt.Sprintf("counter|%s|n=%d", name, len(replies)/50*50))
		}
		checkCounter("INCR cnt", incrReplies, 1000, final("GET", "cnt"))
		hv := final("HGET", "hc", "n")
		if hv.IsSeq() && len(hv.Elems) == 1 {
			hv = hv.Elems[0]
		}
		checkCounter("HINCRBY hc n", hincrReplies, 500, hv)
		// conservation: every pushed element was popped exactly once or is still in the list exactly once
		conserve := func(name string, in_, out map[string]int, remaining []string) {
			rem := map[string]int{}
			for _, e := range remaining {
				rem[e]++
			}
			for e := range in_ {
				if out[e]+rem[e] != 1 {
					violate(Violation{Kind: "conservation", Lane: "stress-" + mode, What: fmt.Sprintf("%s: element %s was inserted once but removed %d times and is present %d times at the end", name, e, out[e], rem[e]),
						Case: map[string]interface{}{"mode": mode, "seed": seed}, Key: "c05|conservation|" + name})
					return
				}
			}
			for e := range out {
				if in_[e] == 0 {
					violate(Violation{Kind: "conservation", Lane: "stress-" + mode, What: fmt.Sprintf("%s: element %s was removed but never inserted", name, e),
						Case: map[string]interface{}{"mode": mode, "seed": seed}, Key: "c05|conservation-phantom|" + name})
					return
				}
			}
			for e := range rem {
				if in_[e] == 0 {
					violate(Violation{Kind: "conservation", Lane: "stress-" + mode, What: fmt.Sprintf("%s: element %s is present at the end but was never inserted", name, e),
						Case: map[string]interface{}{"mode": mode, "seed": seed}, Key: "c05|conservation-phantom|" + name})
					return
				}
			}
			class(fmt.Sprintf("conservation|%s", name))
		}
		texts := func(v resp.Value) []string {
			var out []string
			for _, e := range v.Elems {
				if e.IsSeq() && len(e.Elems) > 0 {
					e = e.Elems[0]
				}
				t, _ := e.Text()
				out = append(out, t)
			}
			return out
		}
		conserve("list q", pushed, popped, texts(final("LRANGE", "q", "0", "-1")))
		conserve("set st", added, removed, texts(final("SMEMBERS", "st")))
		conserve("zset zs", zadded, zpopped, texts(final("ZRANGE", "zs", "-inf", "+inf")))
		// linearizability of the registers and of the counter as seen by timestamps
		c05Porcupine(hist, violate, class, res, mode)
	}
	want := CanonDump(in.S.VerifDump(), clk.NowNs())
	for _, c := range clients {
		if c.tcp != nil {
			c.tcp.Close()
		}
	}
	in.Close()
	time.Sleep(5 * time.Millisecond)
	switch mode {
	case "aof-order":
		// the log order is the execution order: a restart must reproduce the final dataset
		d, rdir, rerr := restoreDump(dir, "always", clk, true, false, nil)
		os.RemoveAll(rdir)
		if rerr != nil || !canonEq(want, d) {
			violate(Violation{Kind: "log_order", Lane: "stress-" + mode, What: fmt.Sprintf("after %d concurrent operations the dataset restored from the append-only log differs from the final dataset: %v %s", res.Ops, rerr, trunc(diffCanonStr(want, d), 600)),
				Case: map[string]interface{}{"mode": mode, "seed": seed}, Key: "c05|log-order"})
		}
		class("aof-order|restored")
	case "snapshot-cut":
		// a snapshot taken under writers is a consistent cut: per writer a prefix of its sequence
		d, rdir, rerr := restoreDump(dir, "no", clk, false, true, nil)
		os.RemoveAll(rdir)
		if rerr != nil {
			violate(Violation{Kind: "snapshot_cut", Lane: "stress-" + mode, What: "restore of a snapshot taken under writers failed: " + rerr.Error(),
				Case: map[string]interface{}{"mode": mode, "seed": seed}, Key: "c05|cut|restore"})
			break
		}
		per := map[int][]int{}
		for k := range d[0] {
			var w, i int
			if _, err := fmt.Sscanf(k, "w%d:%d", &w, &i); err == nil {
				per[w] = append(per[w], i)
			}
		}
		for w, is := range per {
			sort.Ints(is)
			for pos, i := range is {
				if i != pos {
					violate(Violation{Kind: "snapshot_cut", Lane: "stress-" + mode, What: fmt.Sprintf("snapshot taken under writers is not a consistent cut: writer %d's keys in the snapshot are not a prefix of its sequence (position %d holds %d)", w, pos, i),
						Case: map[string]interface{}{"mode": mode, "seed": seed}, Key: "c05|cut|prefix"})
					break
				}
			}
		}
		res.Counters["snapshot_keys_restored"] = int64(len(d[0]))
		class(fmt.Sprintf("snapshot-cut|writers=%d", len(per)))
	}
	for c := range classes {
		res.Classes = append(res.Classes, c)
	}
	res.Counters["history_ops"] = int64(len(hist))
	res.Counters["incr_replies"] = int64(len(incrReplies))
	res.Counters["pushed"] = int64(len(pushed))
	res.Counters["popped"] = int64(len(popped))
	res.Sample = map[string]interface{}{"mode": mode, "clients": nClients, "ops_per_client": nOps, "incr_replies": len(incrReplies), "pushed": len(pushed), "popped": len(popped), "set_added": len(added), "set_removed": len(removed), "register_ops": len(hist)}
	writeJSON(out, res)
	return 0
}

func diffCanonStr(a, b map[int]map[string]string) string {
	return model.DiffCanon(a, b)
}

func writeJSON(p string, v interface{}) {
	b, _ := json.Marshal(v)
	_ = os.WriteFile(p, b, 0o644)
}

type regIn struct {
	Kind string
	Arg  string
}

func c05Porcupine(hist []histOp, violate func(Violation), class func(string), res *stressResult, mode string) {
	reg := porcupine.Model{
		Partition: func(ops []porcupine.Operation) [][]porcupine.Operation {
			m := map[string][]porcupine.Operation{}
			for _, o := range ops {
				k := o.Input.(regKeyed).Key
				m[k] = append(m[k], o)
			}
			var out [][]porcupine.Operation
			for _, v := range m {
				out = append(out, v)
			}
			return out
		},
		Init: func() interface{} { return "\x00init" },
		Step: func(st, in, out interface{}) (bool, interface{}) {
			i := in.(regKeyed)
			s := st.(string)
			switch i.Kind {
			case "set":
				return true, i.Arg
			case "get":
				o := out.(string)
				if s == "\x00init" {
					return o == "", s
				}
				return o == s, s
			case "incr":
				// counter: the reply is the state + 1
				o := out.(string)
				if s == "\x00init" {
					return true, o // first observed value anchors the counter
				}
				n, _ := strconv.ParseInt(s, 10, 64)
				return o == strconv.FormatInt(n+1, 10), o
			}
			return false, st
		},
	}
	var ops []porcupine.Operation
	for _, h := range hist {
		ops = append(ops, porcupine.Operation{ClientId: h.Client, Input: regKeyed{Key: h.Key, Kind: h.Kind, Arg: h.Arg}, Output: h.Out, Call: h.Call, Return: h.Ret})
	}
	if len(ops) == 0 {
		return
	}
	r := porcupine.CheckOperationsTimeout(reg, ops, 60*time.Second)
	switch r {
	case porcupine.Ok:
		class("porcupine|ok")
	case porcupine.Unknown:
		res.Inconcl = append(res.Inconcl, "porcupine timed out")
	case porcupine.Illegal:
		violate(Violation{Kind: "not_linearizable", Lane: "stress-" + mode, What: fmt.Sprintf("the recorded history of %d SET/GET/INCR operations on r1, r2 and cnt (client-boundary timestamps) is not linearizable", len(ops)),
			Case: map[string]interface{}{"mode": mode, "ops": len(ops)}, Key: "c05|porcupine"})
	}
}

type regKeyed struct {
	Key  string
	Kind string
	Arg  string
}

// collectRaceReports parses the race detector's log files (GORACE log_path=prefix): one violation per
// distinct pair of innermost repository frames of the two racing accesses. Returns the number of reports.
func collectRaceReports(ctx *Ctx, raceLog string, keyPrefix string, extra map[string]interface{}) int {
	logs, _ := filepath.Glob(raceLog + ".*")
	reports := 0
	for _, lf := range logs {
		b, _ := os.ReadFile(lf)
		blocks := strings.Split(string(b), "==================")
		for _, blk := range blocks {
			if !strings.Contains(blk, "WARNING: DATA RACE") {
				continue
			}
			reports++
			// innermost repository frame of each of the two accesses
			var frames []string
			for _, sect := range strings.Split(blk, "\n\n") {
				if !(strings.Contains(sect, "Read at") || strings.Contains(sect, "Write at") || strings.Contains(sect, "Previous read") || strings.Contains(sect, "Previous write")) {
					continue
				}
				for _, ln := range strings.Split(sect, "\n") {
					if m := reRaceFrame.FindStringSubmatch(ln); m != nil {
						frames = append(frames, m[1])
						break
					}
				}
			}
			sort.Strings(frames)
			key := strings.Join(frames, " <-> ")
			if key == "" {
				ctx.Count("race_reports_outside_repository", 1)
				continue
			}
			ctx.Class("race|" + key)
			p := saveArtefact(ctx.Prop, "race", blk)
			c := map[string]interface{}{"report": p}
			for k, v := range extra {
				c[k] = v
			}
			ctx.Violate(Violation{Kind: "data_race", Lane: "race-detector", What: "the Go race detector reported a data race between " + key + ": " + trunc(strings.TrimSpace(blk), 900),
				Case: c, Key: keyPrefix + "|race|" + key})
		}
	}
	return reports
}

// stressConnAdmin: connections change their own state (SELECT, HELLO) while others swap databases and
// others read and write: none of these commands is a read or a write command, so nothing but their own
// locking orders them. Every command must be answered; a stuck server is reported through the client
// watchdog (no reply within 20 s) and by the shutdown watchdog.
func stressConnAdmin(in *Inst, port int, nOps int, seed int64, res *stressResult, violate func(Violation), class func(string)) {
	roles := []string{"select", "select", "select", "select", "select", "select", "swapdb", "swapdb", "hello", "data", "data"}
	var wg sync.WaitGroup
	var ops atomic.Int64
	var stuck atomic.Bool
	for id, role := range roles {
		wg.Add(1)
		go func(id int, role string) {
			defer wg.Done()
			c, err := Dial(port)
			if err != nil {
				res.Inconcl = append(res.Inconcl, "dial failed")
				return
			}
			defer c.Close()
			r := rand.New(rand.NewSource(seed*977 + int64(id)))
			for i := 0; i < nOps && !stuck.Load(); i++ {
				var argv []string
				switch role {
				case "select":
					argv = []string{"SELECT", strconv.Itoa(r.Intn(4))}
				case "swapdb":
					argv = []string{"SWAPDB", strconv.Itoa(r.Intn(3)), strconv.Itoa(r.Intn(3))}
				case "hello":
					argv = []string{"HELLO", []string{"2", "3"}[r.Intn(2)]}
					if i%3 == 0 {
						argv = []string{"PING"}
					}
				default:
					k := fmt.Sprintf("ca%d", r.Intn(8))
					argv = [][]string{{"SET", k, "v"}, {"GET", k}, {"INCR", "cac"}, {"RPUSH", "cal", "x"}, {"LPOP", "cal"}}[r.Intn(5)]
				}
				v, _, err := c.Do(argv...)
				ops.Add(1)
				if err != nil {
					stuck.Store(true)
					violate(Violation{Kind: "deadlock", Lane: "stress-conn-admin",
						What: fmt.Sprintf("connection %d (%s loop) got no reply to %s within the 20 s client watchdog (%v) while other connections were running SELECT / SWAPDB / HELLO / data commands", id, role, Step{Argv: argv}.String(), err),
						Case: map[string]interface{}{"argv": argv, "role": role}, Key: "c05|conn-admin|stuck"})
					return
				}
				if v.IsError() && role != "hello" {
					violate(Violation{Kind: "reply", Lane: "stress-conn-admin", What: fmt.Sprintf("connection %d: %s -> %s", id, Step{Argv: argv}.String(), trunc(v.String(), 100)),
						Case: map[string]interface{}{"argv": argv}, Key: "c05|conn-admin|error|" + argv[0]})
					return
				}
			}
		}(id, role)
	}
	wg.Wait()
	res.Ops = ops.Load()
	class(fmt.Sprintf("conn-admin|completed=%v", !stuck.Load()))
	res.Counters["conn_admin_ops"] = ops.Load()
}

// stressExpiryResurrect: every client, on its own keys, writes a key, gives it a deadline in the past (the
// entry stays in the store until something collects it), and writes it again; the second write is
// acknowledged and has no deadline, so it must still be there at the end, whatever the background expiry
// sampler (1 ms period) was doing in between.
func stressExpiryResurrect(in *Inst, port int, nClients, nOps int, seed int64, res *stressResult, violate func(Violation), class func(string)) {
	var mu sync.Mutex
	finals := map[string]string{}
	var wg sync.WaitGroup
	var ops atomic.Int64
	for id := 0; id < nClients; id++ {
		wg.Add(1)
		go func(id int) {
			defer wg.Done()
			c := &stressClient{id: id, in: in}
			if id%2 == 0 {
				tc, err := Dial(port)
				if err != nil {
					return
				}
				defer tc.Close()
				c.tcp = tc
			}
			for i := 0; i < nOps; i++ {
				k := fmt.Sprintf("er%d:%d", id, i%40)
				fresh := fmt.Sprintf("fresh-%d-%d", id, i)
				c.do("SET", k, "old")
				c.do("EXPIREAT", k, "1")
				v, err := c.do("SET", k, fresh)
				ops.Add(3)
				if err != nil || v.IsError() {
					violate(Violation{Kind: "reply", Lane: "stress-expiry-resurrect", What: fmt.Sprintf("SET %s %s -> %s %v", k, fresh, v.String(), err), Key: "c05|expiry-resurrect|set"})
					return
				}
				mu.Lock()
				finals[k] = fresh
				mu.Unlock()
			}
		}(id)
	}
	wg.Wait()
	time.Sleep(30 * time.Millisecond) // several sampler periods
	res.Ops = ops.Load()
	lost := 0
	example := ""
	for k, want := range finals {
		v, _, _ := in.Do("GET", k)
		t, _ := v.Text()
		if v.IsNull() || t != want {
			lost++
			if example == "" {
				example = fmt.Sprintf("GET %s -> %s, last acknowledged write was SET %s %s (after SET old; EXPIREAT 1)", k, trunc(v.String(), 40), k, want)
			}
		}
	}
	class(fmt.Sprintf("expiry-resurrect|keys=%d|lost=%v", len(finals), lost > 0))
	res.Counters["expiry_resurrect_keys"] = int64(len(finals))
	if lost > 0 {
		violate(Violation{Kind: "lost_write", Lane: "stress-expiry-resurrect",
			What: fmt.Sprintf("%d of %d keys lost their last acknowledged write: a value written over an expired-but-still-stored entry was removed afterwards (no sequential order of the write and a sampler pass removes it): %s", lost, len(finals), example),
			Case: map[string]interface{}{"seed": seed}, Key: "c05|expiry-resurrect|lost"})
	}
}


// stressFirstSelect: several connections walk through the same never-used database indices at the same time,
// each selecting the database and writing its own key there. Every acknowledged SET must still be there at
// the end: the first use of a database by one client must not undo what another client has already written
// to it.
func stressFirstSelect(in *Inst, port int, nClients int, seed int64, res *stressResult, violate func(Violation), class func(string)) {
	const first, count = 100, 120
	var wg sync.WaitGroup
	var ops atomic.Int64
	acked := make([][]bool, nClients)
	start := make(chan struct{})
	for id := 0; id < nClients; id++ {
		acked[id] = make([]bool, count)
		wg.Add(1)
		go func(id int) {
			defer wg.Done()
			c, err := Dial(port)
			if err != nil {
				return
			}
			defer c.Close()
			<-start
			for n := 0; n < count; n++ {
				db := strconv.Itoa(first + n)
				if id%2 == 1 {
					// pipelined: SELECT and SET in one write
					if err := c.Send(append(resp.Encode("SELECT", db), resp.Encode("SET", fmt.Sprintf("fs:%d", id), "v"+db)...)); err != nil {
						return
					}
					v1, _, e1 := c.Read(80 * time.Second)
					v2, _, e2 := c.Read(80 * time.Second)
					ops.Add(2)
					if e1 != nil || e2 != nil || v1.IsError() || v2.IsError() {
						violate(Violation{Kind: "reply", Lane: "stress-first-select", What: fmt.Sprintf("SELECT %s; SET -> %s %v / %s %v", db, v1.String(), e1, v2.String(), e2), Key: "c05|first-select|reply"})
						return
					}
				} else {
					v1, _, e1 := c.Do("SELECT", db)
					v2, _, e2 := c.Do("SET", fmt.Sprintf("fs:%d", id), "v"+db)
					ops.Add(2)
					if e1 != nil || e2 != nil || v1.IsError() || v2.IsError() {
						violate(Violation{Kind: "reply", Lane: "stress-first-select", What: fmt.Sprintf("SELECT %s; SET -> %s %v / %s %v", db, v1.String(), e1, v2.String(), e2), Key: "c05|first-select|reply"})
						return
					}
				}
				acked[id][n] = true
			}
		}(id)
	}
	close(start)
	wg.Wait()
	res.Ops = ops.Load()
	d := in.S.VerifDump()
	lost, example := 0, ""
	for id := range acked {
		for n, ok := range acked[id] {
			if !ok {
				continue
			}
			key := fmt.Sprintf("fs:%d", id)
			v, present := d.DBs[first+n][key]
			if !present || v.Str != "v"+strconv.Itoa(first+n) {
				lost++
				if example == "" {
					example = fmt.Sprintf("database %d lacks %s (acknowledged SET by connection %d right after its SELECT %d)", first+n, key, id, first+n)
				}
			}
		}
	}
	class(fmt.Sprintf("first-select|clients=%d|databases=%d|lost=%v", nClients, count, lost > 0))
	res.Counters["first_select_acknowledged_writes"] = ops.Load() / 2
	if lost > 0 {
		violate(Violation{Kind: "lost_write", Lane: "stress-first-select",
			What: fmt.Sprintf("%d acknowledged writes are gone after %d connections selected and wrote to the same %d never-used databases at the same time: %s", lost, nClients, count, example),
			Case: map[string]interface{}{"seed": seed}, Key: "c05|first-select|lost"})
	}
}


// stressObjectTouch: readers of the eviction bookkeeping (OBJECTFREQ / OBJECTIDLETIME), TOUCH and ordinary
// reads and writes (whose asynchronous cache updates touch the same bookkeeping) from several connections
// under an LFU / LRU policy. All of these are read commands or background work, so only the bookkeeping's own
// locks order them; every command must be answered.
func stressObjectTouch(in *Inst, port int, nOps int, seed int64, res *stressResult, violate func(Violation), class func(string), policy string) {
	for k := 0; k < 64; k++ {
		in.Do("SET", fmt.Sprintf("ot%d", k), "v")
	}
	var allKeys []string
	for k := 0; k < 64; k++ {
		allKeys = append(allKeys, fmt.Sprintf("ot%d", k))
	}
	obj := "OBJECTFREQ"
	if strings.HasSuffix(policy, "lru") {
		obj = "OBJECTIDLETIME"
	}
	// embedded callers (no network between two calls) and TCP connections; no write command in the mix, so
	// that nothing holds the command lock exclusively and the loops really overlap
	in.Do(append([]string{"TOUCH"}, allKeys...)...)
	if v, _, _ := in.Do(obj, "ot1"); v.IsError() {
		res.Inconcl = append(res.Inconcl, "object-touch: "+obj+" is not available: "+v.String())
		return
	}
	roles := []string{"object", "object", "object-tcp", "touch", "touch", "touch-tcp", "get", "get"}
	var wg sync.WaitGroup
	var ops atomic.Int64
	var finished atomic.Int64
	current := make([]atomic.Value, len(roles))
	for id, role := range roles {
		wg.Add(1)
		go func(id int, role string) {
			defer wg.Done()
			defer finished.Add(1)
			var c *Client
			if strings.HasSuffix(role, "-tcp") {
				var err error
				if c, err = Dial(port); err != nil {
					return
				}
				defer c.Close()
			}
			r := rand.New(rand.NewSource(seed*131 + int64(id)))
			n := nOps * 3
			if c != nil {
				n = nOps
			}
			for i := 0; i < n; i++ {
				k := fmt.Sprintf("ot%d", r.Intn(64))
				var argv []string
				switch {
				case strings.HasPrefix(role, "object"):
					argv = []string{obj, k}
				case strings.HasPrefix(role, "touch"):
					// all the keys in one TOUCH: the bookkeeping of every key is updated under one hold of the store lock
					argv = append([]string{"TOUCH"}, allKeys...)
				default:
					argv = []string{"GET", k}
				}
				current[id].Store(Step{Argv: argv}.String())
				if c != nil {
					if _, _, err := c.Do(argv...); err != nil {
						return // reported by the progress monitor below
					}
				} else {
					in.Do(argv...)
				}
				ops.Add(1)
			}
		}(id, role)
	}
	// progress monitor: the loops finish in seconds; no completed command at all for two minutes, with
	// loops still open, means that every one of them is waiting for something that never comes
	stuck := false
	last, lastChange := int64(-1), time.Now()
	for finished.Load() < int64(len(roles)) {
		time.Sleep(50 * time.Millisecond)
		if n := ops.Load(); n != last {
			last, lastChange = n, time.Now()
		} else if time.Since(lastChange) > 2*time.Minute {
			stuck = true
			break
		}
	}
	if stuck {
		var open []string
		for id := range roles {
			if v, _ := current[id].Load().(string); v != "" {
				open = append(open, fmt.Sprintf("%s: %s", roles[id], v))
			}
		}
		violate(Violation{Kind: "deadlock", Lane: "stress-object-touch",
			What: fmt.Sprintf("after %d commands no command completed for two minutes while %d loops of %s / TOUCH / GET (embedded callers and TCP connections, policy %s) were still running; commands in flight: %v", ops.Load(), int64(len(roles))-finished.Load(), obj, policy, open),
			Case: map[string]interface{}{"policy": policy, "in_flight": open}, Key: "c05|object-touch|stuck"})
	} else {
		wg.Wait()
	}
	res.Ops = ops.Load()
	class(fmt.Sprintf("object-touch|%s|completed=%v", policy, !stuck))
	res.Counters["object_touch_ops"] = ops.Load()
}


// stressCollectionReaders: one writer adds an element to a large set, sorted set, hash and list and is
// acknowledged; then several clients read the whole collection at the same moment (SMEMBERS, SDIFF against an
// empty set, ZRANGE, HGETALL, LRANGE). Every one of those reads comes after the acknowledged write, so every
// reply must hold all the elements written so far - a reader must never see a collection that another reader
// (or the reader's own helper structures) is still putting together.
func stressCollectionReaders(in *Inst, port int, seed int64, res *stressResult, violate func(Violation), class func(string)) {
	const base, rounds, readers = 3000, 30, 4
	var argvS, argvZ, argvH, argvL = []string{"SADD", "cr:s"}, []string{"ZADD", "cr:z"}, []string{"HSET", "cr:h"}, []string{"RPUSH", "cr:l"}
	for e := 0; e < base; e++ {
		m := fmt.Sprintf("m%05d", e)
		argvS = append(argvS, m)
		argvZ = append(argvZ, strconv.Itoa(e), m)
		argvH = append(argvH, m, "v")
		argvL = append(argvL, m)
	}
	for _, a := range [][]string{argvS, argvZ, argvH, argvL} {
		in.Do(a...)
	}
	reads := [][]string{{"SMEMBERS", "cr:s"}, {"SDIFF", "cr:s", "cr:none"}, {"SUNION", "cr:s", "cr:none"}, {"ZRANGE", "cr:z", "-inf", "+inf"}, {"HGETALL", "cr:h"}, {"HKEYS", "cr:h"}, {"LRANGE", "cr:l", "0", "-1"}}
	var ops atomic.Int64
	var clients []*stressClient
	for i := 0; i < readers; i++ {
		c := &stressClient{id: i, in: in}
		if i%2 == 1 {
			if tc, err := Dial(port); err == nil {
				c.tcp = tc
				defer tc.Close()
			}
		}
		clients = append(clients, c)
	}
	bad := false
	for r := 0; r < rounds && !bad; r++ {
		m := fmt.Sprintf("new%03d", r)
		in.Do("SADD", "cr:s", m)
		in.Do("ZADD", "cr:z", "1e9", m)
		in.Do("HSET", "cr:h", m, "v")
		in.Do("RPUSH", "cr:l", m)
		want := base + r + 1
		rd := reads[r%len(reads)]
		start := make(chan struct{})
		var wg sync.WaitGroup
		var mu sync.Mutex
		for _, c := range clients {
			wg.Add(1)
			go func(c *stressClient) {
				defer wg.Done()
				<-start
				v, err := c.do(rd...)
				ops.Add(1)
				if err != nil || v.IsError() || !v.IsSeq() {
					return
				}
				n := len(v.Elems)
				if rd[0] == "HGETALL" {
					n /= 2
				}
				seen := false
				for _, e := range v.Elems {
					if t, _ := e.Text(); t == m {
						seen = true
						break
					}
				}
				if rd[0] == "ZRANGE" {
					seen = true // members come back in the server's own reply shape: the count decides
				}
				if n != want || !seen {
					mu.Lock()
					if !bad {
						bad = true
						violate(Violation{Kind: "torn_read", Lane: "stress-collection-readers",
							What: fmt.Sprintf("after %d acknowledged additions to a collection of %d elements, %d clients sent %s at the same moment: one reply holds %d elements (contains the element added last: %v), expected %d", r+1, base, readers, Step{Argv: rd}.String(), n, seen, want),
							Case: map[string]interface{}{"read": rd, "round": r, "seed": seed}, Key: "c05|collection-readers|" + strings.ToLower(rd[0])})
					}
					mu.Unlock()
				}
			}(c)
		}
		close(start)
		wg.Wait()
	}
	res.Ops = ops.Load()
	class(fmt.Sprintf("collection-readers|clean=%v", !bad))
	res.Counters["collection_reader_reads"] = ops.Load()
}
