package main

import (
	"fmt"
	"math/rand"
	"runtime"
	"strings"

	"verif/harness/model"
)

// destination-less algebra commands that the statement names explicitly,
// whatever their category flags say.
var c13NamedReaders = map[string]bool{
	"sunion": true, "sinter": true, "sdiff": true, "sintercard": true, "zunion": true, "zinter": true, "zdiff": true,
	"scard": true, "sismember": true, "smismember": true, "smembers": true, "srandmember": true,
}

// commands whose destination must not share structure with a source
var c13StoreForms = map[string]bool{
	"sunionstore": true, "sinterstore": true, "sdiffstore": true, "zunionstore": true, "zinterstore": true, "zdiffstore": true,
	"zrangestore": true, "lmove": true, "smove": true, "rename": true,
}

func readOnlyTable(in *Inst) map[string]bool {
	ro := map[string]bool{}
	for _, c := range in.S.VerifCommandTable() {
		if c.SubCommand != "" {
			continue
		}
		isRead, isWrite := false, false
		for _, cat := range c.Categories {
			if cat == "read" {
				isRead = true
			}
			if cat == "write" {
				isWrite = true
			}
		}
		if isRead && !isWrite {
			ro[strings.ToLower(c.Command)] = true
		}
	}
	for k := range c13NamedReaders {
		ro[k] = true
	}
	return ro
}

func checkC13(ctx *Ctx) {
	ctx.Rule("one evaluation = one executed command that is classified read-only (categories contain read and not write, or a destination-less algebra command named by the statement) or that failed with an error: " +
		"the side-effect-free dump of every database (types, values, membership, order, deadlines; keys whose deadline has passed excepted) taken before must equal the dump taken after. " +
		"Aliasing lane: after every STORE-form / move command the destination is mutated and every other key must be unchanged. " +
		"distinct_nontrivial = distinct (command/arity/options, pre-state kind of the first key, outcome class) classes checked")
	ctx.Assume("no reference model is involved: the oracle is dump equality", "classification comes from the server's own command table")
	probe := lightInst()
	ro := readOnlyTable(probe)
	probe.Close()
	names := make([]string, 0, len(ro))
	for k := range ro {
		names = append(names, k)
	}
	ctx.Extra("read_only_commands", len(names))

	// exhaustive: every alphabet command of every type on every initial state of every type
	var alpha [][]string
	alpha = append(alpha, c01Alphabet()...)
	alpha = append(alpha, c14Alphabet()...)
	alpha = append(alpha, c15Alphabet()...)
	alpha = append(alpha, c16Alphabet()...)
	alpha = append(alpha, zsetAlphabetHook()...)
	var inits [][][]string
	inits = append(inits, c01InitStates()...)
	inits = append(inits, c14InitStates()...)
	inits = append(inits, c15InitStates()...)
	inits = append(inits, c16InitStates()...)
	jobs := len(alpha) * len(inits)
	parallel(jobs, runtime.NumCPU(), func(j int) {
		init, cmd := inits[j/len(alpha)], alpha[j%len(alpha)]
		in := lightInst()
		defer in.Close()
		for _, c := range init {
			in.Do(c...)
		}
		c13Step(ctx, "exhaustive", in, ro, cmd, toSteps(init))
	})
	ctx.Count("programs_exhaustive", int64(jobs))

	// count/index sweep: every reader that takes a count, an index or a limit, for every value in -8..8, on
	// collections of 1..6 elements (a reader must not change its operand whatever the count is)
	{
		sizes := []int{1, 2, 3, 5, 6}
		type sweep struct{ tpl []string }
		sweeps := [][]string{
			{"ZRANDMEMBER", "z", "#"}, {"ZRANDMEMBER", "z", "#", "WITHSCORES"}, {"SRANDMEMBER", "s", "#"}, {"HRANDFIELD", "h", "#"}, {"HRANDFIELD", "h", "#", "WITHVALUES"},
			{"LRANGE", "l", "#", "-1"}, {"LRANGE", "l", "0", "#"}, {"LINDEX", "l", "#"}, {"GETRANGE", "str", "#", "3"}, {"GETRANGE", "str", "1", "#"},
			{"ZRANGE", "z", "#", "10"}, {"ZRANGE", "z", "-inf", "+inf", "LIMIT", "0", "#"}, {"ZRANGE", "z", "-inf", "+inf", "LIMIT", "#", "2"}, {"ZRANGE", "z", "0", "#", "REV"},
			{"ZCOUNT", "z", "#", "3"}, {"ZRANK", "z", "m1"}, {"ZREVRANK", "z", "m2"}, {"SINTERCARD", "s", "s2", "LIMIT", "#"}, {"ZMSCORE", "z", "m1", "nope"},
		}
		total := 0
		for _, n := range sizes {
			for _, sw := range sweeps {
				for c := -8; c <= 8; c++ {
					n, sw, c := n, sw, c
					total++
					in := lightInst()
					var init [][]string
					for i := 1; i <= n; i++ {
						m := fmt.Sprintf("m%d", i)
						init = append(init, []string{"ZADD", "z", fmt.Sprint(i % 3), m}, []string{"SADD", "s", m}, []string{"SADD", "s2", m}, []string{"HSET", "h", m, "v"}, []string{"RPUSH", "l", m})
					}
					init = append(init, []string{"SET", "str", "abcdef"})
					for _, cmd := range init {
						in.Do(cmd...)
					}
					argv := make([]string, len(sw))
					for i, a := range sw {
						if a == "#" {
							a = fmt.Sprint(c)
						}
						argv[i] = a
					}
					c13Step(ctx, "sweep", in, ro, argv, toSteps(init))
					in.Close()
				}
			}
		}
		ctx.Count("programs_sweep", int64(total))
	}

	// random programs with expired-but-present keys, malformed arguments, wrong types
	gens := allGens()
	n := ctx.N(1500, 15000)
	parallel(n, runtime.NumCPU(), func(i int) {
		r := rand.New(rand.NewSource(ctx.Seed*6_000_011 + int64(i)))
		in := lightInst()
		defer in.Close()
		u := allUniverse()
		var trace []Step
		for k, ln := 0, 30+r.Intn(40); k < ln; k++ {
			if r.Intn(12) == 0 {
				adv := []int64{1e6, 1e9, 100e9, 3600e9}[r.Intn(4)]
				in.Clk.Advance(adv)
				trace = append(trace, Step{Adv: adv})
			}
			argv := gens[r.Intn(len(gens))](r, &u, in.Clk.NowNs())
			if r.Intn(10) == 0 {
				argv = wrongArity(r, argv)
			}
			if !c13Step(ctx, "random", in, ro, argv, trace) {
				break
			}
			trace = append(trace, Step{Argv: argv})
			// aliasing: mutate the destination of a store form, everything else must stay
			if c13StoreForms[strings.ToLower(argv[0])] && len(argv) >= 3 {
				c13Alias(ctx, in, argv, trace, r)
			}
		}
		if i == 0 {
			ctx.Sample("random", progStrings(trace))
		}
	})
	ctx.Count("programs_random", int64(n))
	c13AliasShapes(ctx)
}

// c13AliasShapes: the move / store commands on prepared shapes (sources built element by element, as one
// block, or grown and then shortened, so that their backing storage has spare room; destinations absent,
// emptied by pops or removals, short, or longer), followed by a series of writes to the source and to the
// destination: after every write only the key written to may differ.
func c13AliasShapes(ctx *Ctx) {
	type shape struct {
		name string
		cmds [][]string
	}
	srcShapes := []shape{
		{"block", [][]string{{"RPUSH", "src", "a", "b", "c"}}},
		{"one-by-one", [][]string{{"RPUSH", "src", "a"}, {"RPUSH", "src", "b"}, {"RPUSH", "src", "c"}, {"RPUSH", "src", "d"}, {"RPUSH", "src", "e"}}},
		{"grown-then-popped", [][]string{{"RPUSH", "src", "a", "b", "c", "d", "e", "f", "g", "h"}, {"RPOP", "src", "5"}}},
		{"single", [][]string{{"RPUSH", "src", "a"}}},
	}
	dstShapes := []shape{
		{"absent", nil},
		{"emptied-by-pop", [][]string{{"RPUSH", "dst", "x", "y"}, {"LPOP", "dst", "2"}}},
		{"emptied-by-lrem", [][]string{{"RPUSH", "dst", "x", "x"}, {"LREM", "dst", "0", "x"}}},
		{"one", [][]string{{"RPUSH", "dst", "x"}}},
		{"grown", [][]string{{"RPUSH", "dst", "x"}, {"RPUSH", "dst", "y"}, {"RPUSH", "dst", "z"}}},
	}
	muts := [][]string{{"RPUSH", "src", "S1"}, {"RPUSH", "dst", "D1"}, {"LPUSH", "src", "S2"}, {"LSET", "src", "0", "S3"}, {"LSET", "dst", "0", "D2"},
		{"RPUSH", "src", "S4", "S5", "S6"}, {"LPUSH", "dst", "D3"}, {"LSET", "src", "-1", "S7"}, {"RPUSH", "dst", "D4", "D5"}, {"LPOP", "src"}, {"RPUSH", "src", "S8"}}
	run := func(lane string, prep [][]string, op []string, muts [][]string) {
		in := lightInst()
		defer in.Close()
		var trace []Step
		for _, c := range prep {
			in.Do(c...)
			trace = append(trace, Step{Argv: c})
		}
		in.Do(op...)
		trace = append(trace, Step{Argv: op})
		for _, m := range muts {
			now := in.Clk.NowNs()
			before := CanonDump(in.S.VerifDump(), now)
			in.Do(m...)
			trace = append(trace, Step{Argv: m})
			after := CanonDump(in.S.VerifDump(), now)
			for _, mm := range []map[int]map[string]string{before, after} {
				for _, db := range mm {
					delete(db, m[1])
				}
			}
			ctx.Eval(1)
			if d := model.DiffCanon(before, after); d != "" {
				ctx.Violate(Violation{Kind: "alias", Lane: lane,
					What: fmt.Sprintf("after %s, writing to %s with %s changed another key (shared structure): %s", Step{Argv: op}.String(), m[1], Step{Argv: m}.String(), d),
					Case: map[string]interface{}{"program": trace, "program_text": progStrings(trace)}, Key: "c13|alias-shapes|" + strings.ToLower(op[0])})
				return
			}
		}
	}
	n := 0
	for _, ss := range srcShapes {
		for _, ds := range dstShapes {
			for _, from := range []string{"LEFT", "RIGHT"} {
				for _, to := range []string{"LEFT", "RIGHT"} {
					prep := append(append([][]string{}, ss.cmds...), ds.cmds...)
					run("alias-shapes", prep, []string{"LMOVE", "src", "dst", from, to}, muts)
					// and the same list moved onto itself (rotation), then written to
					run("alias-shapes", ss.cmds, []string{"LMOVE", "src", "src", from, to}, [][]string{{"RPUSH", "src", "S1"}, {"LSET", "src", "0", "S2"}})
					ctx.Class(fmt.Sprintf("alias-shapes|lmove|%s|%s|%s|%s", ss.name, ds.name, from, to))
					n++
				}
			}
			// RENAME of a list onto the destination shape, then writes to both names
			prep := append(append([][]string{}, ss.cmds...), ds.cmds...)
			run("alias-shapes", prep, []string{"RENAME", "src", "dst"}, [][]string{{"RPUSH", "dst", "D1"}, {"RPUSH", "src", "S1"}, {"LSET", "dst", "0", "D2"}, {"RPUSH", "src", "S2"}})
			ctx.Class(fmt.Sprintf("alias-shapes|rename|%s|%s", ss.name, ds.name))
		}
	}
	// sets and sorted sets: one or several operands, destination absent / existing / equal to a source
	setPreps := [][][]string{
		{{"SADD", "src", "a", "b", "c"}},
		{{"SADD", "src", "a", "b", "c"}, {"SADD", "s2", "b", "c", "d"}},
		{{"SADD", "src", "a", "b", "c"}, {"SADD", "s2", "b", "c", "d"}, {"SADD", "dst", "old"}},
	}
	setOps := [][]string{{"SUNIONSTORE", "dst", "src"}, {"SUNIONSTORE", "dst", "src", "s2"}, {"SINTERSTORE", "dst", "src"}, {"SINTERSTORE", "dst", "src", "s2"},
		{"SDIFFSTORE", "dst", "src"}, {"SDIFFSTORE", "dst", "src", "s2"}, {"SDIFFSTORE", "dst", "src", "nosuch"}, {"SUNIONSTORE", "dst", "src", "nosuch"}, {"SMOVE", "src", "dst", "a"},
		{"SUNIONSTORE", "src", "src", "s2"}, {"SINTERSTORE", "src", "src"}}
	setMuts := [][]string{{"SADD", "dst", "D1"}, {"SADD", "src", "S1"}, {"SREM", "dst", "b"}, {"SREM", "src", "c"}, {"SADD", "s2", "T1"}, {"SPOP", "dst"}, {"SADD", "src", "S2"}}
	for _, p := range setPreps {
		for _, op := range setOps {
			run("alias-shapes", p, op, setMuts)
			ctx.Class(fmt.Sprintf("alias-shapes|%s|operands=%d|prep=%d", strings.ToLower(op[0]), len(op)-2, len(p)))
			n++
		}
	}
	zPreps := [][][]string{
		{{"ZADD", "src", "1", "a", "2", "b", "3", "c"}},
		{{"ZADD", "src", "1", "a", "2", "b", "3", "c"}, {"ZADD", "s2", "5", "b", "6", "d"}},
		{{"ZADD", "src", "1", "a", "2", "b", "3", "c"}, {"ZADD", "s2", "5", "b", "6", "d"}, {"ZADD", "dst", "9", "old"}},
	}
	zOps := [][]string{{"ZUNIONSTORE", "dst", "src"}, {"ZUNIONSTORE", "dst", "src", "s2"}, {"ZINTERSTORE", "dst", "src"}, {"ZINTERSTORE", "dst", "src", "s2"},
		{"ZDIFFSTORE", "dst", "src"}, {"ZDIFFSTORE", "dst", "src", "s2"}, {"ZDIFFSTORE", "dst", "src", "nosuch"}, {"ZRANGESTORE", "dst", "src", "0", "10"},
		{"ZRANGESTORE", "dst", "src", "0", "10", "REV"}, {"ZUNIONSTORE", "dst", "src", "nosuch", "WEIGHTS", "2", "3"}}
	zMuts := [][]string{{"ZADD", "dst", "7", "D1"}, {"ZADD", "src", "8", "S1"}, {"ZINCRBY", "dst", "1", "b"}, {"ZINCRBY", "src", "1", "c"}, {"ZREM", "dst", "a"}, {"ZADD", "s2", "1", "T1"}, {"ZPOPMIN", "src"}, {"ZADD", "dst", "0", "D2"}}
	for _, p := range zPreps {
		for _, op := range zOps {
			run("alias-shapes", p, op, zMuts)
			ctx.Class(fmt.Sprintf("alias-shapes|%s|operands=%d|prep=%d", strings.ToLower(op[0]), len(op)-2, len(p)))
			n++
		}
	}
	ctx.Count("programs_alias_shapes", int64(n))
}

var zsetAlphabetHook = func() [][]string { return nil }

// c13Step executes argv and checks purity if the command is read-only or fails.
// It returns false when the program should stop (crash).
func c13Step(ctx *Ctx, lane string, in *Inst, ro map[string]bool, argv []string, trace []Step) bool {
	if len(argv) == 0 {
		return true
	}
	now := in.Clk.NowNs()
	before := CanonDump(in.S.VerifDump(), now)
	name := strings.ToLower(argv[0])
	// observational purity: what ordered readers reply for the named keys before a read-only command they
	// must reply after it (derived state such as an order cache is not in the dump, but clients see it)
	var obsBefore []string
	if ro[name] {
		obsBefore = c13Observe(in, before, argv)
	}
	v, _, crash := in.Do(argv...)
	if crash != "" {
		ctx.Count("steps_crashed", 1)
		return false
	}
	if !(ro[name] || v.IsError()) {
		return true
	}
	after := CanonDump(in.S.VerifDump(), now)
	if ro[name] && len(obsBefore) > 0 {
		obsAfter := c13Observe(in, before, argv)
		for i := range obsBefore {
			if i < len(obsAfter) && obsBefore[i] != obsAfter[i] {
				full := append(append([]Step{}, trace...), Step{Argv: argv})
				ctx.Violate(Violation{Kind: "impure_observed", Lane: lane,
					What: fmt.Sprintf("read-only command %s (replied %s) changed what a later reader sees although the dumped dataset is the same: before %s, after %s", Step{Argv: argv}.String(), trunc(v.String(), 60), trunc(obsBefore[i], 200), trunc(obsAfter[i], 200)),
					Case: map[string]interface{}{"program": full, "program_text": progStrings(full)},
					Key:  fmt.Sprintf("c13|observed|%s", name)})
				break
			}
		}
		ctx.Count("observer_comparisons", int64(len(obsBefore)))
	}
	ctx.Eval(1)
	kind := "read-only"
	if !ro[name] {
		kind = "failing"
	}
	pre := "-"
	if len(argv) > 1 {
		pre = "absent"
		for _, db := range before {
			if e, ok := db[argv[1]]; ok && len(e) > 0 {
				pre = e[:1]
			}
		}
	}
	ctx.Class(fmt.Sprintf("%s|%s|%s|%s", kind, argShape(argv), pre, outcomeClass(v)))
	if d := model.DiffCanon(before, after); d != "" {
		full := append(append([]Step{}, trace...), Step{Argv: argv})
		ctx.Violate(Violation{Kind: "impure", Lane: lane,
			What: fmt.Sprintf("%s command %s (replied %s) changed the dataset: %s", kind, Step{Argv: argv}.String(), trunc(v.String(), 80), d),
			Case: map[string]interface{}{"program": full, "program_text": progStrings(full)},
			Key:  fmt.Sprintf("c13|%s|%s|%s", kind, name, pre)})
	}
	return true
}

// c13Alias mutates, one after the other, every key a store-form / move command named (its destination and
// its sources) and checks after each mutation that no OTHER key changed: shared structure between the
// destination and a source shows up whichever side is written to.
func c13Alias(ctx *Ctx, in *Inst, argv []string, trace []Step, r *rand.Rand) {
	name := strings.ToLower(argv[0])
	var keys []string
	switch name {
	case "lmove", "smove", "rename":
		keys = []string{argv[2], argv[1]}
	default:
		for _, a := range argv[1:] {
			up := strings.ToUpper(a)
			if up == "WEIGHTS" || up == "AGGREGATE" || up == "WITHSCORES" || up == "LIMIT" || up == "BYSCORE" || up == "BYLEX" || up == "REV" {
				break
			}
			keys = append(keys, a)
		}
	}
	seen := map[string]bool{}
	for _, key := range keys {
		if seen[key] {
			continue
		}
		seen[key] = true
		now := in.Clk.NowNs()
		d0 := in.S.VerifDump()
		kind := ""
		for _, db := range d0.DBs {
			if v, ok := db[key]; ok {
				kind = v.Type
			}
		}
		var mut []string
		fresh := fmt.Sprintf("fresh%d", r.Intn(1000))
		switch kind {
		case "set":
			mut = []string{"SADD", key, fresh}
		case "zset":
			mut = []string{"ZADD", key, "42", fresh}
		case "list":
			mut = []string{"RPUSH", key, fresh}
		case "hash":
			mut = []string{"HSET", key, fresh, "v"}
		default:
			continue
		}
		before := CanonDump(d0, now)
		in.Do(mut...)
		after := CanonDump(in.S.VerifDump(), now)
		ctx.Eval(1)
		role := "source"
		if key == keys[0] {
			role = "destination"
		}
		ctx.Class("alias|" + name + "|" + kind + "|" + role)
		for _, m := range []map[int]map[string]string{before, after} {
			for _, db := range m {
				delete(db, key)
			}
		}
		if d := model.DiffCanon(before, after); d != "" {
			full := append(append([]Step{}, trace...), Step{Argv: mut})
			ctx.Violate(Violation{Kind: "alias", Lane: "alias",
				What: fmt.Sprintf("after %s, writing to its %s with %s changed another key (shared structure): %s", Step{Argv: argv}.String(), role, Step{Argv: mut}.String(), d),
				Case: map[string]interface{}{"program": full, "program_text": progStrings(full)}, Key: "c13|alias|" + name})
			return
		}
	}
}

// c13Observe runs order-sensitive readers on the sorted sets and lists among the keys argv names (in the
// database the embedded caller is on) and returns "<command> -> <reply>" lines.
func c13Observe(in *Inst, dump map[int]map[string]string, argv []string) []string {
	db := in.S.VerifEmbeddedDatabase()
	var out []string
	seen := map[string]bool{}
	for _, a := range argv[1:] {
		e, ok := dump[db][a]
		if !ok || seen[a] || len(e) == 0 {
			continue
		}
		seen[a] = true
		var readers [][]string
		switch e[0] {
		case 'z':
			readers = [][]string{{"ZRANGE", a, "0", "-1", "WITHSCORES"}, {"ZRANGE", a, "-inf", "+inf", "BYSCORE"}, {"ZRANGE", a, "0", "-1", "REV"}, {"ZRANGE", a, "0", "0"}, {"ZRANK", a, zsetFirstMember(e)}, {"ZCARD", a}}
		case 'l':
			readers = [][]string{{"LRANGE", a, "0", "-1"}, {"LINDEX", a, "0"}, {"LINDEX", a, "-1"}, {"LLEN", a}}
		default:
			continue
		}
		for _, rd := range readers {
			v, _, crash := in.Do(rd...)
			out = append(out, Step{Argv: rd}.String()+" -> "+v.String()+crash)
		}
		if len(seen) >= 2 {
			break
		}
	}
	return out
}

// zsetFirstMember extracts some member name from the canonical rendering z:{"m"=score,...} (or "x").
func zsetFirstMember(canon string) string {
	i := strings.Index(canon, "{\"")
	if i < 0 {
		return "x"
	}
	rest := canon[i+2:]
	j := strings.Index(rest, "\"=")
	if j < 0 {
		return "x"
	}
	return rest[:j]
}
