package main

import (
	"math/rand"
	"strings"
)

// C14: hash commands implement a field-to-value map.

func init() {
	registerCheck("C14", "exploration", checkC14)
}

func c14Alphabet() [][]string {
	return [][]string{
		{"HSET", "a", "f", "v"}, {"HSET", "a", "f", "5"}, {"HSET", "a", "g", "1.5"}, {"HSET", "a", "f", ""},
		{"HSET", "a", "f", "a\r\nb\x00c"}, {"HSET", "a", "", "e"}, {"HSET", "a", "f", "v", "g", "w"},
		{"HSET", "a", "f", "v", "f", "w"}, {"HSET", "a", "h", "x"}, {"HSET", "a", "f"}, {"HSET", "a", "f", "v", "g"},
		{"HSET", "b", "f", "v"},
		{"HSETNX", "a", "f", "z"}, {"HSETNX", "a", "h", "z"}, {"HSETNX", "a", "h", "1", "h", "2"}, {"HSETNX", "a", "f", "z", "i", "y"},
		{"HSETNX", "a", "f"},
		{"HGET", "a", "f"}, {"HGET", "a", "f", "g", "nope"}, {"HGET", "a", "nope"}, {"HGET", "a"},
		{"HMGET", "a", "f", "g"}, {"HMGET", "a", "nope"},
		{"HSTRLEN", "a", "f"}, {"HSTRLEN", "a", "g", "nope", "f"},
		{"HVALS", "a"}, {"HKEYS", "a"}, {"HGETALL", "a"}, {"HLEN", "a"}, {"HLEN", "a", "extra"}, {"HGETALL", "b"},
		{"HEXISTS", "a", "f"}, {"HEXISTS", "a", "nope"}, {"HEXISTS", "a"},
		{"HDEL", "a", "f"}, {"HDEL", "a", "f", "g", "f"}, {"HDEL", "a", "nope"}, {"HDEL", "a", "f", "g", "h", "i", ""}, {"HDEL", "a"},
		{"HRANDFIELD", "a"}, {"HRANDFIELD", "a", "1"}, {"HRANDFIELD", "a", "2"}, {"HRANDFIELD", "a", "-3"}, {"HRANDFIELD", "a", "0"},
		{"HRANDFIELD", "a", "5", "WITHVALUES"}, {"HRANDFIELD", "a", "-2", "withvalues"}, {"HRANDFIELD", "a", "x"},
		{"HRANDFIELD", "a", "1", "BOGUS"}, {"HRANDFIELD", "a", "0", "BOGUS"},
		{"HINCRBY", "a", "f", "3"}, {"HINCRBY", "a", "n", "-2"}, {"HINCRBY", "a", "f", "x"}, {"HINCRBY", "a", "f", "1.5"},
		{"HINCRBY", "a", "f", "9223372036854775807"}, {"HINCRBY", "a", "g", "1"},
		{"HINCRBYFLOAT", "a", "f", "0.5"}, {"HINCRBYFLOAT", "a", "g", "-1.25"}, {"HINCRBYFLOAT", "a", "f", "x"},
		{"HINCRBYFLOAT", "a", "n", "1e21"}, {"HINCRBYFLOAT", "a", "f", "2"},
		{"DEL", "a"}, {"TYPE", "a"}, {"EXPIRE", "a", "100"}, {"TTL", "a"},
		// floats at the edges of plain-decimal rendering: every reader must agree on the text of the value
		{"HSET", "a", "f", "0.00001"}, {"HSET", "a", "n", "-0.00000025"}, {"HSTRLEN", "a", "n"}, {"HINCRBYFLOAT", "a", "f", "1e21"},
	}
}

// c14SmallAlphabet is the reduced alphabet of the depth-3 lane.
func c14SmallAlphabet() [][]string {
	return [][]string{
		{"HSET", "a", "f", "v"}, {"HSET", "a", "g", "1.5"}, {"HSET", "a", "f", "5", "h", ""}, {"HSET", "a", "f", "v", "f", "w"},
		{"HSETNX", "a", "f", "z"}, {"HSETNX", "a", "h", "1", "h", "2"},
		{"HGET", "a", "f"}, {"HGET", "a", "f", "nope"}, {"HSTRLEN", "a", "f", "g"},
		{"HVALS", "a"}, {"HKEYS", "a"}, {"HGETALL", "a"}, {"HLEN", "a"}, {"HEXISTS", "a", "f"},
		{"HDEL", "a", "f"}, {"HDEL", "a", "f", "g", "h"},
		{"HRANDFIELD", "a"}, {"HRANDFIELD", "a", "2", "WITHVALUES"}, {"HRANDFIELD", "a", "-2"}, {"HRANDFIELD", "a", "0"},
		{"HINCRBY", "a", "f", "3"}, {"HINCRBY", "a", "f", "9223372036854775807"}, {"HINCRBYFLOAT", "a", "f", "0.5"},
		{"HINCRBYFLOAT", "a", "g", "-1.25"}, {"DEL", "a"}, {"TYPE", "a"},
	}
}

func c14InitStates() [][][]string {
	return [][][]string{
		{},
		{{"HSET", "a", "f", "v"}},
		{{"HSET", "a", "f", "41", "g", "2.5", "h", "", "i", "b\r\nin\x00"}},
		{{"SET", "a", "hello"}},
		{{"RPUSH", "a", "e1", "e2"}},
		{{"SADD", "a", "m"}},
		{{"ZADD", "a", "1", "m"}},
		{{"HSET", "a", "f", "v", "g", "7"}, {"EXPIRE", "a", "100"}},
	}
}

func c14Universe() Universe {
	u := defaultUniverse()
	u.Keys = []string{"a", "b", "c", "d"}
	u.Vals = append(append([]string{}, u.Vals...), "+Inf", "NaN", "1.5e-07", "0.00001", "-0.00000025", "0.5", "100", "-7", "2.25", "v1", "v2", "\x00", "\r\n")
	u.Fields = []string{"f1", "f2", "f3", "f4", "", "f\r\n", "nul\x00", "ünï", strings.Repeat("F", 1024)}
	u.Ints = []string{"0", "1", "-1", "2", "-2", "3", "-3", "5", "-5", "10", "-10", "100", "-100", "x", "1.5", "",
		"9223372036854775807", "-9223372036854775808", "9223372036854775808"}
	u.Floats = []string{"0", "1", "-1", "0.5", "-0.25", "1e2", "3.25", "x", "", "inf", "-inf", "nan", "1e308", "-1e308", "1e-7", ".5", " 1", "1e21", "7"}
	return u
}

func c14Gens() ([]cmdGen, []int) {
	k := func(r *rand.Rand, u *Universe) string { return pick(r, u.Keys) }
	f := func(r *rand.Rand, u *Universe) string { return pick(r, u.Fields) }
	v := func(r *rand.Rand, u *Universe) string { return pick(r, u.Vals) }
	fields := func(r *rand.Rand, u *Universe, a []string, max int) []string {
		for i, n := 0, 1+r.Intn(max); i < n; i++ {
			a = append(a, f(r, u))
		}
		return a
	}
	pairs := func(r *rand.Rand, u *Universe, a []string) []string {
		for i, n := 0, 1+r.Intn(4); i < n; i++ {
			a = append(a, f(r, u), v(r, u))
		}
		if r.Intn(12) == 0 {
			a = append(a, f(r, u)) // field without a value
		}
		return a
	}
	count := func(r *rand.Rand, u *Universe) string {
		c := pick(r, u.Ints)
		if c == "-9223372036854775808" {
			c = "-7"
		}
		return c
	}
	type wg struct {
		w int
		g cmdGen
	}
	list := []wg{
		{10, func(r *rand.Rand, u *Universe, now int64) []string { return pairs(r, u, []string{"HSET", k(r, u)}) }},
		{5, func(r *rand.Rand, u *Universe, now int64) []string { return pairs(r, u, []string{"HSETNX", k(r, u)}) }},
		{4, func(r *rand.Rand, u *Universe, now int64) []string { return fields(r, u, []string{"HGET", k(r, u)}, 3) }},
		{3, func(r *rand.Rand, u *Universe, now int64) []string { return fields(r, u, []string{"HMGET", k(r, u)}, 4) }},
		{3, func(r *rand.Rand, u *Universe, now int64) []string { return fields(r, u, []string{"HSTRLEN", k(r, u)}, 3) }},
		{3, func(r *rand.Rand, u *Universe, now int64) []string { return []string{"HVALS", k(r, u)} }},
		{3, func(r *rand.Rand, u *Universe, now int64) []string { return []string{"HKEYS", k(r, u)} }},
		{4, func(r *rand.Rand, u *Universe, now int64) []string { return []string{"HGETALL", k(r, u)} }},
		{3, func(r *rand.Rand, u *Universe, now int64) []string { return []string{"HLEN", k(r, u)} }},
		{3, func(r *rand.Rand, u *Universe, now int64) []string { return []string{"HEXISTS", k(r, u), f(r, u)} }},
		{6, func(r *rand.Rand, u *Universe, now int64) []string { return fields(r, u, []string{"HDEL", k(r, u)}, 4) }},
		{1, func(r *rand.Rand, u *Universe, now int64) []string {
			// delete everything: the emptied-hash outcomes
			return append([]string{"HDEL", k(r, u)}, u.Fields...)
		}},
		{6, func(r *rand.Rand, u *Universe, now int64) []string {
			a := []string{"HRANDFIELD", k(r, u)}
			switch r.Intn(4) {
			case 0:
			case 1:
				a = append(a, count(r, u))
			default:
				a = append(a, count(r, u), pick(r, []string{"WITHVALUES", "withvalues", "WithValues", "WITHVALUES", "BOGUS"}))
			}
			return a
		}},
		{6, func(r *rand.Rand, u *Universe, now int64) []string {
			return []string{"HINCRBY", k(r, u), f(r, u), pick(r, u.Ints)}
		}},
		{6, func(r *rand.Rand, u *Universe, now int64) []string {
			return []string{"HINCRBYFLOAT", k(r, u), f(r, u), pick(r, u.Floats)}
		}},
		// other commands: key removal, deadlines, other types under the same names
		{2, func(r *rand.Rand, u *Universe, now int64) []string { return []string{"DEL", k(r, u)} }},
		{1, func(r *rand.Rand, u *Universe, now int64) []string { return []string{"TYPE", k(r, u)} }},
		{1, func(r *rand.Rand, u *Universe, now int64) []string {
			return []string{"EXPIRE", k(r, u), pick(r, []string{"1", "10", "100"})}
		}},
		{1, func(r *rand.Rand, u *Universe, now int64) []string { return []string{"TTL", k(r, u)} }},
		{1, func(r *rand.Rand, u *Universe, now int64) []string { return []string{"PERSIST", k(r, u)} }},
		{1, func(r *rand.Rand, u *Universe, now int64) []string {
			return []string{"SET", k(r, u), pick(r, []string{"x", "12", "1.5", ""})}
		}},
		{1, func(r *rand.Rand, u *Universe, now int64) []string {
			switch r.Intn(3) {
			case 0:
				return []string{"RPUSH", k(r, u), "e1", "e2"}
			case 1:
				return []string{"SADD", k(r, u), "m1", "m2"}
			}
			return []string{"ZADD", k(r, u), "1", "m1", "2", "m2"}
		}},
		{1, func(r *rand.Rand, u *Universe, now int64) []string { return []string{"RENAME", k(r, u), k(r, u)} }},
	}
	gens := make([]cmdGen, len(list))
	weights := make([]int, len(list))
	for i, x := range list {
		gens[i], weights[i] = x.g, x.w
	}
	return gens, weights
}

func checkC14(ctx *Ctx) {
	ctx.Rule("one evaluation = one program (sequence of hash commands, plus key removal / expiry / other-type writes under the same key names) " +
		"run on a fresh instance in lock step with a reference map field->value; after every step the strict-parsed reply must be one the reference allows " +
		"(unordered replies as bags, HRANDFIELD as a correctly sized selection of current fields) and the side-effect-free dump of the whole store must equal the reference state. " +
		"distinct_nontrivial = distinct (command/arity/options, pre-state kind of the key, outcome class, state-changed) transition classes observed")
	ctx.Assume("virtual clock injected through the verif build",
		"embedded raw-reply API (ExecuteCommand) is the same dispatch path as TCP minus framing (framing is C12)",
		"HSET/HSETNX reply: number of fields added or written; HGET/HSTRLEN single field: bare value or one-element array; emptied hash: key absent or present-and-empty (DESIGN.md Appendix A)",
		"results of HINCRBYFLOAT are compared numerically; values written by HSET byte for byte")
	runWitnesses(ctx, lightInst)
	alpha := c14Alphabet()
	exhaustiveLane(ctx, "exhaustive-d1", alpha, c14InitStates(), 1)
	exhaustiveLane(ctx, "exhaustive-d2", alpha, c14InitStates(), 2)
	if !ctx.Quick() {
		exhaustiveLane(ctx, "exhaustive-d3", c14SmallAlphabet(), c14InitStates()[:3], 3)
	}
	ctx.exhaustive = false
	gens, weights := c14Gens()
	randomLane(ctx, "random", ctx.N(1500, 12000), gens, weights, c14Universe(), 40, 60, 0.03, lightInst)
}
