package main

import (
	"encoding/json"
	"fmt"
	"os"
)


// replayFile re-runs the case of a recorded violation against the current tree.
func replayFile(path string) int {
	b, err := os.ReadFile(path)
	if err != nil {
		fmt.Fprintln(os.Stderr, err)
		return 2
	}
	var v struct {
		Property string `json:"property"`
		Lane     string `json:"lane"`
		Key      string `json:"dedupe"`
		What     string `json:"what"`
		Case     struct {
			Program []Step `json:"program"`
		} `json:"case"`
	}
	if err := json.Unmarshal(b, &v); err != nil {
		fmt.Fprintln(os.Stderr, err)
		return 2
	}
	fmt.Printf("recorded: %s\n", v.What)
	if len(v.Case.Program) == 0 {
		fmt.Println("this violation has no replayable program; re-run the check with the recorded seed")
		return 2
	}
	ctx := NewCtx(v.Property, "quick", 0, "exploration")
	vio, _ := RunProgram(ctx, v.Lane, lightInst, v.Case.Program, true)
	if vio == nil {
		fmt.Println("replay: no violation on the current tree")
		return 0
	}
	fmt.Printf("replay: %s\nVIOLATION property=%s replay=%s\n", vio.What, v.Property, path)
	return 1
}
