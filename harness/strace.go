package main

import (
	"bufio"
	"fmt"
	"math/rand"
	"os"
	"os/exec"
	"path/filepath"
	"regexp"
	"strconv"
	"strings"
)

// serveMain runs small scripted scenarios in a child process so that the
// parent can observe them from outside (system-call traces, real kills).
func serveMain(args []string) int {
	if len(args) < 2 {
		fmt.Fprintln(os.Stderr, "usage: verifd serve <scenario> <dir> [seed]")
		return 2
	}
	quietLogs()
	seed := int64(1)
	if len(args) > 2 {
		seed, _ = strconv.ParseInt(args[2], 10, 64)
	}
	r := rand.New(rand.NewSource(seed))
	switch args[0] {
	case "snapshots":
		clk := NewVClock()
		run, err := newPRunner(args[1], "no", false, false, clk)
		if err != nil {
			fmt.Fprintln(os.Stderr, err)
			return 2
		}
		for i := 0; i < 3; i++ {
			populate(run, r, 8, true)
			clk.Advance(1234e6)
			res, _ := run.exec(pOp{Caller: "emb", Argv: []string{"@SNAP"}})
			fmt.Println("SNAP", res)
		}
		run.close()
		return 0
	case "aof-always":
		// Every acknowledgement is made visible to the tracer as a one-byte write to ack.marker.
		clk := NewVClock()
		// the policy name is spelled in a different letter case from run to run (it is case-insensitive)
		run, err := newPRunner(args[1], spellPolicy("always", os.Getpid()), false, false, clk)
		if err != nil {
			fmt.Fprintln(os.Stderr, err)
			return 2
		}
		marker, err := os.Create(filepath.Join(args[1], "..", "ack.marker"))
		if err != nil {
			fmt.Fprintln(os.Stderr, err)
			return 2
		}
		ack := func(caller string, argv []string) {
			res, err := run.exec(pOp{Caller: caller, Argv: argv})
			if err == nil && !strings.HasPrefix(res, "-") {
				_, _ = marker.Write([]byte{1})
			}
		}
		for i := 0; i < 40; i++ {
			ack(pick(r, []string{"emb", "emb", "t1"}), genWriteOp(r, clk.NowNs(), true, true))
		}
		ack("emb", []string{"REWRITEAOF"})
		for i := 0; i < 15; i++ {
			ack(pick(r, []string{"emb", "t1"}), genWriteOp(r, clk.NowNs(), true, true))
		}
		run.close()
		marker.Close()
		return 0
	}
	fmt.Fprintln(os.Stderr, "unknown scenario", args[0])
	return 2
}

type sysEvent struct {
	Call string
	Path string // for openat/rename: (new) path
	From string // rename source
	FD   int
	Ret  int
	Size int
}

var (
	reOpen   = regexp.MustCompile(`openat\([^,]+, "([^"]*)", ([A-Z_|]+)(?:, [0-7]+)?\)\s+= (-?\d+)`)
	reFsync  = regexp.MustCompile(`(fsync|fdatasync)\((\d+)\)\s+= (-?\d+)`)
	reWrite  = regexp.MustCompile(`write\((\d+), .*, (\d+)\)\s+= (-?\d+)`)
	reRename = regexp.MustCompile(`rename(?:at2?)?\((?:[A-Z_]+, )?"([^"]*)", (?:[A-Z_]+, )?"([^"]*)"(?:, [A-Z_0-9|]+)?\)\s+= (-?\d+)`)
	reClose  = regexp.MustCompile(`close\((\d+)\)\s+= (-?\d+)`)
	reTrunc  = regexp.MustCompile(`ftruncate\((\d+), (\d+)\)\s+= (-?\d+)`)
)

// straceRun runs `verifd serve <scenario> <dir>` under strace and returns the
// file-related events in order. ok=false when strace could not be used.
func straceRun(scenario, dir string, seed int64) ([]sysEvent, string, bool) {
	bin, _ := os.Executable()
	logf := filepath.Join(dir, "..", "strace."+scenario+".log")
	cmd := exec.Command("strace", "-f", "-s", "0", "-e", "trace=openat,write,fsync,fdatasync,rename,renameat,renameat2,close,ftruncate",
		"-o", logf, bin, "serve", scenario, dir, strconv.FormatInt(seed, 10))
	out, err := cmd.CombinedOutput()
	if err != nil {
		return nil, string(out) + err.Error(), false
	}
	f, err := os.Open(logf)
	if err != nil {
		return nil, err.Error(), false
	}
	defer f.Close()
	var evs []sysEvent
	sc := bufio.NewScanner(f)
	sc.Buffer(make([]byte, 1<<20), 1<<20)
	for sc.Scan() {
		l := sc.Text()
		if strings.Contains(l, "unfinished") || strings.Contains(l, "resumed") {
			// strace splits a call interrupted by another thread; file calls of interest are short
			// and rarely split; a split fsync line is handled by matching the resumed half below
			if m := regexp.MustCompile(`<\.\.\. (fsync|fdatasync) resumed>.* = (-?\d+)`).FindStringSubmatch(l); m != nil {
				r, _ := strconv.Atoi(m[2])
				evs = append(evs, sysEvent{Call: "fsync-resumed", Ret: r, FD: -1})
			}
			if m := regexp.MustCompile(`(fsync|fdatasync)\((\d+) <unfinished`).FindStringSubmatch(l); m != nil {
				fd, _ := strconv.Atoi(m[2])
				evs = append(evs, sysEvent{Call: "fsync", FD: fd, Ret: 0})
			}
			continue
		}
		if m := reOpen.FindStringSubmatch(l); m != nil {
			fd, _ := strconv.Atoi(m[3])
			evs = append(evs, sysEvent{Call: "open", Path: m[1], FD: fd, Ret: fd, From: m[2]})
		} else if m := reFsync.FindStringSubmatch(l); m != nil {
			fd, _ := strconv.Atoi(m[2])
			r, _ := strconv.Atoi(m[3])
			evs = append(evs, sysEvent{Call: "fsync", FD: fd, Ret: r})
		} else if m := reWrite.FindStringSubmatch(l); m != nil {
			fd, _ := strconv.Atoi(m[1])
			n, _ := strconv.Atoi(m[3])
			evs = append(evs, sysEvent{Call: "write", FD: fd, Ret: n, Size: n})
		} else if m := reRename.FindStringSubmatch(l); m != nil {
			r, _ := strconv.Atoi(m[3])
			evs = append(evs, sysEvent{Call: "rename", From: m[1], Path: m[2], Ret: r})
		} else if m := reClose.FindStringSubmatch(l); m != nil {
			fd, _ := strconv.Atoi(m[1])
			evs = append(evs, sysEvent{Call: "close", FD: fd})
		} else if m := reTrunc.FindStringSubmatch(l); m != nil {
			fd, _ := strconv.Atoi(m[1])
			evs = append(evs, sysEvent{Call: "ftruncate", FD: fd})
		}
	}
	return evs, logf, true
}

// c10Strace observes the system calls of real snapshots: the state file must
// be written and fsynced before the manifest that names it becomes visible
// (rename), and the manifest's own content must be fsynced before the rename.
func c10Strace(ctx *Ctx) {
	root := mkScratch("c10strace")
	defer os.RemoveAll(root)
	dir := filepath.Join(root, "data")
	_ = os.MkdirAll(dir, 0o755)
	evs, info, ok := straceRun("snapshots", dir, ctx.Seed)
	if !ok {
		ctx.Inconclusive("strace unavailable")
		ctx.Extra("strace_error", trunc(info, 300))
		return
	}
	open := map[int]string{}   // fd -> path
	dirty := map[string]bool{} // path -> written since last fsync
	wrote := map[string]bool{}
	manifestVisible := 0
	statesSynced := 0
	for _, e := range evs {
		switch e.Call {
		case "open":
			if e.Ret >= 0 {
				open[e.FD] = e.Path
			}
		case "close":
			delete(open, e.FD)
		case "write":
			if p, ok := open[e.FD]; ok && e.Ret > 0 {
				dirty[p] = true
				wrote[p] = true
			}
		case "fsync":
			if p, ok := open[e.FD]; ok && e.Ret == 0 {
				if dirty[p] && strings.HasSuffix(p, "state.bin") {
					statesSynced++
				}
				dirty[p] = false
			}
		case "rename":
			if strings.HasSuffix(e.Path, "manifest.bin") && e.Ret == 0 {
				manifestVisible++
				ctx.Eval(1)
				var bad []string
				for p, d := range dirty {
					if d && (strings.HasSuffix(p, "state.bin") || p == e.From) {
						bad = append(bad, p)
					}
				}
				if !wrote[e.From] {
					bad = append(bad, e.From+" (never written)")
				}
				ctx.Class(fmt.Sprintf("strace|manifest-rename|unsynced=%d", len(bad)))
				if len(bad) > 0 {
					ctx.Violate(Violation{Kind: "syscall_order", Lane: "snapshot-strace",
						What: fmt.Sprintf("the manifest became visible (rename %s -> %s) while %v had been written but not fsynced: a power loss here leaves a manifest naming an incomplete snapshot", e.From, e.Path, bad),
						Case: map[string]interface{}{"trace": info}, Key: "snap-strace-unsynced"})
				}
			}
		case "open-manifest-inplace":
		}
		// a manifest written in place (not through rename) is visible at once
		if e.Call == "open" && strings.HasSuffix(e.Path, "manifest.bin") && strings.Contains(e.From, "O_TRUNC") {
			ctx.Violate(Violation{Kind: "syscall_order", Lane: "snapshot-strace",
				What: "manifest.bin is truncated and rewritten in place: a crash before it is complete loses the last good snapshot",
				Case: map[string]interface{}{"trace": info}, Key: "snap-strace-inplace"})
		}
	}
	ctx.Count("strace_manifest_renames", int64(manifestVisible))
	ctx.Count("strace_state_fsyncs", int64(statesSynced))
	ctx.Count("strace_events", int64(len(evs)))
	if manifestVisible == 0 {
		ctx.Inconclusive("strace lane saw no manifest rename")
	}
}

// c02Strace observes the system calls of a server with the "always" sync policy: when a write is
// acknowledged (the child marks each acknowledgement with a one-byte write to ack.marker), every byte
// written to the append-only log and to the preamble so far must have been fsynced. This is
// independent of the harness's own hooks: a change that keeps the hook but drops the fsync is seen here.
func c02Strace(ctx *Ctx) {
	root := mkScratch("c02strace")
	defer os.RemoveAll(root)
	dir := filepath.Join(root, "data")
	_ = os.MkdirAll(dir, 0o755)
	evs, info, ok := straceRun("aof-always", dir, ctx.Seed)
	if !ok {
		ctx.Inconclusive("strace unavailable")
		ctx.Extra("strace_error", trunc(info, 300))
		return
	}
	open := map[int]string{}
	dirty := map[string]int{} // path -> bytes written since the last fsync
	acks, logWrites, logSyncs := 0, 0, 0
	isAOF := func(p string) bool { return strings.HasSuffix(p, "log.aof") || strings.HasSuffix(p, "preamble.bin") }
	for _, e := range evs {
		switch e.Call {
		case "open":
			if e.Ret >= 0 {
				open[e.FD] = e.Path
				if isAOF(e.Path) && strings.Contains(e.From, "O_TRUNC") {
					dirty[e.Path] = 0
				}
			}
		case "close":
			delete(open, e.FD)
		case "write":
			p, ok := open[e.FD]
			if !ok || e.Ret <= 0 {
				continue
			}
			if isAOF(p) {
				dirty[p] += e.Ret
				logWrites++
			}
			if strings.HasSuffix(p, "ack.marker") {
				acks++
				ctx.Eval(1)
				var bad []string
				for q, n := range dirty {
					if n > 0 {
						bad = append(bad, fmt.Sprintf("%s (%d bytes)", filepath.Base(q), n))
					}
				}
				ctx.Class(fmt.Sprintf("strace|ack|unsynced=%v", len(bad) > 0))
				if len(bad) > 0 {
					ctx.Violate(Violation{Kind: "syscall_order", Lane: "aof-strace",
						What: fmt.Sprintf("sync policy always: acknowledgement number %d was given while %v had been written but not fsynced: a power loss here loses an acknowledged write", acks, bad),
						Case: map[string]interface{}{"trace": info}, Key: "aof-strace-unsynced"})
				}
			}
		case "fsync":
			if p, ok := open[e.FD]; ok && e.Ret == 0 && isAOF(p) {
				if dirty[p] > 0 {
					logSyncs++
				}
				dirty[p] = 0
			}
		case "ftruncate":
			if p, ok := open[e.FD]; ok && isAOF(p) {
				// a truncation is a change of the file too: it must reach the disk before the next acknowledgement
				dirty[p]++
			}
		}
	}
	ctx.Count("strace_acks", int64(acks))
	ctx.Count("strace_log_writes", int64(logWrites))
	ctx.Count("strace_log_fsyncs", int64(logSyncs))
	ctx.Count("strace_events", int64(len(evs)))
	ctx.Sample("aof-strace", map[string]interface{}{"acks": acks, "log_writes": logWrites, "log_fsyncs_after_write": logSyncs})
	if acks < 20 || logWrites == 0 {
		ctx.Inconclusive(fmt.Sprintf("strace lane saw %d acknowledgements and %d log writes", acks, logWrites))
	}
}
