package main

import (
	"fmt"
	"math/rand"
	"os"
	"runtime"
	"strings"
)

func init() {
	registerCheck("C16", "exploration", checkC16)
}

// c16Alphabet is the exhaustive-lane alphabet: concrete set commands on the
// keys a, b (operands) and c (mostly a destination).
func c16Alphabet() [][]string {
	return [][]string{
		{"SADD", "a", "x"}, {"SADD", "a", "x", "y", "x"}, {"SADD", "a", "z", ""}, {"SADD", "b", "y", "z"}, {"SADD", "b", "x"},
		{"SADD", "a"}, {"SADD", "c", "fresh"},
		{"SREM", "a", "x"}, {"SREM", "a", "x", "y", "x"}, {"SREM", "b", "z", "y"}, {"SREM", "a", "q"}, {"SREM", "a"}, {"SREM", "c", "x"},
		{"SISMEMBER", "a", "x"}, {"SISMEMBER", "b", "x"}, {"SISMEMBER", "a"},
		{"SMISMEMBER", "a", "x", "q", "x"}, {"SMISMEMBER", "c", "x", "fresh"},
		{"SCARD", "a"}, {"SCARD", "b"}, {"SCARD", "c"}, {"SCARD", "a", "b"},
		{"SMEMBERS", "a"}, {"SMEMBERS", "b"}, {"SMEMBERS", "c"},
		{"SUNION", "a", "b"}, {"SUNION", "a"}, {"SUNION", "a", "a"}, {"SUNION", "c", "b", "a"}, {"SUNION"},
		{"SINTER", "a", "b"}, {"SINTER", "a"}, {"SINTER", "a", "b", "c"}, {"SINTER", "b", "b"},
		{"SDIFF", "a", "b"}, {"SDIFF", "a"}, {"SDIFF", "b", "a"}, {"SDIFF", "a", "a"}, {"SDIFF", "a", "c", "b"},
		{"SINTERCARD", "a", "b"}, {"SINTERCARD", "a", "b", "LIMIT", "1"}, {"SINTERCARD", "a", "limit", "1"},
		{"SINTERCARD", "a", "b", "LIMIT", "0"}, {"SINTERCARD", "a", "b", "LIMIT"}, {"SINTERCARD", "a", "b", "LIMIT", "x"},
		{"SINTERCARD", "a", "b", "LIMIT", "1", "extra"}, {"SINTERCARD", "LIMIT", "1"}, {"SINTERCARD", "a", "a", "b", "LIMIT", "2"},
		{"SUNIONSTORE", "c", "a", "b"}, {"SUNIONSTORE", "a", "a", "b"}, {"SUNIONSTORE", "b", "a"}, {"SUNIONSTORE", "c"},
		{"SINTERSTORE", "c", "a", "b"}, {"SINTERSTORE", "a", "a", "b"}, {"SINTERSTORE", "c", "a"}, {"SINTERSTORE", "b", "a", "b"},
		{"SDIFFSTORE", "c", "a", "b"}, {"SDIFFSTORE", "a", "a", "b"}, {"SDIFFSTORE", "b", "a", "b"}, {"SDIFFSTORE", "c", "a"},
		{"SMOVE", "a", "b", "x"}, {"SMOVE", "a", "c", "x"}, {"SMOVE", "a", "a", "x"}, {"SMOVE", "a", "b", "q"}, {"SMOVE", "b", "a", "y"},
		{"SMOVE", "a", "b"},
		{"SPOP", "a"}, {"SPOP", "a", "1"}, {"SPOP", "a", "2"}, {"SPOP", "a", "0"}, {"SPOP", "a", "10"}, {"SPOP", "a", "-2"}, {"SPOP", "a", "x"},
		{"SRANDMEMBER", "a"}, {"SRANDMEMBER", "a", "2"}, {"SRANDMEMBER", "a", "-3"}, {"SRANDMEMBER", "a", "0"}, {"SRANDMEMBER", "a", "10"},
		{"SRANDMEMBER", "a", "1.5"},
		{"DEL", "a"},
	}
}

// c16SmallAlphabet is the depth-3 alphabet (thorough tier).
func c16SmallAlphabet() [][]string {
	return [][]string{
		{"SADD", "a", "x", "y", "x"}, {"SADD", "b", "y", "z"}, {"SADD", "c", "fresh"}, {"SADD", "a", "fresh2"},
		{"SREM", "a", "x", "y"}, {"SREM", "b", "z"}, {"SREM", "c", "x"},
		{"SMEMBERS", "a"}, {"SCARD", "c"}, {"SMISMEMBER", "b", "x", "y"},
		{"SUNION", "a", "b"}, {"SUNION", "c", "b", "a"}, {"SINTER", "a", "b"}, {"SINTER", "a"}, {"SDIFF", "a", "b"}, {"SDIFF", "a"},
		{"SINTERCARD", "a", "b", "c", "LIMIT", "1"}, {"SINTERCARD", "a", "LIMIT", "1"},
		{"SUNIONSTORE", "c", "a", "b"}, {"SUNIONSTORE", "b", "a"}, {"SUNIONSTORE", "a", "a", "b"},
		{"SINTERSTORE", "c", "a", "b"}, {"SINTERSTORE", "c", "a"}, {"SINTERSTORE", "a", "a", "b"},
		{"SDIFFSTORE", "c", "a", "b"}, {"SDIFFSTORE", "c", "a"}, {"SDIFFSTORE", "b", "a", "b"},
		{"SMOVE", "a", "b", "x"}, {"SMOVE", "a", "c", "y"}, {"SMOVE", "b", "a", "z"},
		{"SPOP", "a"}, {"SPOP", "a", "2"}, {"SPOP", "c", "5"}, {"SRANDMEMBER", "a", "-3"}, {"SRANDMEMBER", "b", "2"},
		{"DEL", "b"},
	}
}

func c16InitStates() [][][]string {
	return [][][]string{
		{},
		{{"SADD", "a", "x", "y", "z"}},
		{{"SADD", "a", "x", "y"}, {"SADD", "b", "y", "z"}},
		{{"SADD", "a", "x"}, {"SADD", "b", "x"}, {"SADD", "c", "w"}},
		{{"SET", "a", "str"}, {"SADD", "b", "x"}},
		{{"SADD", "a", "x", "y"}, {"SET", "b", "str"}},
		{{"SADD", "a", "x", "y"}, {"SADD", "b", "y"}, {"SET", "c", "str"}},
		{{"SADD", "a", "x", "y"}, {"EXPIRE", "a", "100"}, {"SADD", "b", "x", "q"}, {"SADD", "c", "w"}, {"EXPIRE", "c", "100"}},
		{{"SADD", "a", "x"}, {"SREM", "a", "x"}, {"SADD", "b", "x", "y"}}, // a emptied (absent or present-and-empty)
	}
}

// c16Members is a small member pool (so that the sets overlap) plus awkward
// byte strings.
var c16Members = []string{"x", "y", "z", "w", "q", "m1", "m2", "1", "2", "10", "", "a\r\nb", "nul\x00byte", " 1", "ünï", "$5", "*1", "OK",
	"007", "1e3", "-0", "3.0", "limit", bigVal}

func c16Universe() Universe {
	u := defaultUniverse()
	u.Keys = []string{"a", "b", "c", "d"}
	u.Vals = c16Members
	u.Ints = []string{"0", "1", "-1", "2", "-2", "3", "-3", "4", "5", "-5", "10", "100", "-100", "x", "1.5", "", "1e1", "2.0",
		"9223372036854775807", "-9223372036854775808", "9223372036854775808"}
	return u
}

func c16Gens() []cmdGen {
	k := func(r *rand.Rand, u *Universe) string {
		if r.Intn(30) == 0 {
			return "missing"
		}
		return pick(r, u.Keys)
	}
	// members: mostly from the first few (overlap), sometimes awkward ones
	m := func(r *rand.Rand, u *Universe) string {
		if r.Intn(4) != 0 {
			return u.Vals[r.Intn(7)]
		}
		return pick(r, u.Vals)
	}
	ms := func(r *rand.Rand, u *Universe, max int) []string {
		n := 1 + r.Intn(max)
		out := make([]string, 0, n+1)
		for i := 0; i < n; i++ {
			out = append(out, m(r, u))
		}
		if r.Intn(4) == 0 { // explicit duplicate
			out = append(out, out[r.Intn(len(out))])
		}
		return out
	}
	ks := func(r *rand.Rand, u *Universe) []string {
		n := 1 + r.Intn(4)
		out := make([]string, 0, n+1)
		for i := 0; i < n; i++ {
			out = append(out, k(r, u))
		}
		if r.Intn(5) == 0 { // repeated key
			out = append(out, out[r.Intn(len(out))])
		}
		return out
	}
	count := func(r *rand.Rand, u *Universe) string {
		if r.Intn(3) == 0 {
			return pick(r, u.Ints)
		}
		return pick(r, []string{"0", "1", "2", "3", "-1", "-2", "-4", "5", "8"})
	}
	store := func(name string) cmdGen {
		return func(r *rand.Rand, u *Universe, now int64) []string {
			srcs := ks(r, u)
			dest := k(r, u)
			if r.Intn(3) == 0 { // destination equal to a source
				dest = srcs[r.Intn(len(srcs))]
			}
			return append([]string{name, dest}, srcs...)
		}
	}
	plain := func(name string) cmdGen {
		return func(r *rand.Rand, u *Universe, now int64) []string { return append([]string{name}, ks(r, u)...) }
	}
	return []cmdGen{
		func(r *rand.Rand, u *Universe, now int64) []string {
			return append([]string{"SADD", k(r, u)}, ms(r, u, 4)...)
		},
		func(r *rand.Rand, u *Universe, now int64) []string {
			return append([]string{"SADD", k(r, u)}, ms(r, u, 6)...)
		},
		func(r *rand.Rand, u *Universe, now int64) []string {
			return append([]string{"SADD", k(r, u)}, ms(r, u, 2)...)
		},
		func(r *rand.Rand, u *Universe, now int64) []string {
			return append([]string{"SREM", k(r, u)}, ms(r, u, 4)...)
		},
		func(r *rand.Rand, u *Universe, now int64) []string {
			return append([]string{"SREM", k(r, u)}, ms(r, u, 8)...)
		},
		func(r *rand.Rand, u *Universe, now int64) []string { return []string{"SISMEMBER", k(r, u), m(r, u)} },
		func(r *rand.Rand, u *Universe, now int64) []string {
			return append([]string{"SMISMEMBER", k(r, u)}, ms(r, u, 5)...)
		},
		func(r *rand.Rand, u *Universe, now int64) []string { return []string{"SCARD", k(r, u)} },
		func(r *rand.Rand, u *Universe, now int64) []string { return []string{"SMEMBERS", k(r, u)} },
		plain("SUNION"), plain("SINTER"), plain("SDIFF"),
		plain("SUNION"), plain("SINTER"), plain("SDIFF"),
		func(r *rand.Rand, u *Universe, now int64) []string {
			a := append([]string{"SINTERCARD"}, ks(r, u)...)
			switch r.Intn(10) {
			case 0, 1, 2, 3, 4:
				a = append(a, pick(r, []string{"LIMIT", "limit", "Limit"}), count(r, u))
			case 5:
				a = append(a, "LIMIT")
			case 6:
				if r.Intn(3) == 0 {
					a = append(a, "LIMIT", "1", "2")
				}
			}
			return a
		},
		func(r *rand.Rand, u *Universe, now int64) []string {
			a := append([]string{"SINTERCARD"}, ks(r, u)...)
			if r.Intn(2) == 0 {
				a = append(a, "LIMIT", pick(r, []string{"0", "1", "2", "3"}))
			}
			return a
		},
		store("SUNIONSTORE"), store("SINTERSTORE"), store("SDIFFSTORE"),
		store("SUNIONSTORE"), store("SINTERSTORE"), store("SDIFFSTORE"),
		func(r *rand.Rand, u *Universe, now int64) []string {
			return []string{"SMOVE", k(r, u), k(r, u), m(r, u)}
		},
		func(r *rand.Rand, u *Universe, now int64) []string {
			return []string{"SMOVE", k(r, u), k(r, u), m(r, u)}
		},
		func(r *rand.Rand, u *Universe, now int64) []string {
			if r.Intn(3) == 0 {
				return []string{"SPOP", k(r, u)}
			}
			return []string{"SPOP", k(r, u), count(r, u)}
		},
		func(r *rand.Rand, u *Universe, now int64) []string {
			if r.Intn(3) == 0 {
				return []string{"SRANDMEMBER", k(r, u)}
			}
			return []string{"SRANDMEMBER", k(r, u), count(r, u)}
		},
		func(r *rand.Rand, u *Universe, now int64) []string {
			if r.Intn(3) == 0 {
				return []string{"SRANDMEMBER", k(r, u)}
			}
			return []string{"SRANDMEMBER", k(r, u), count(r, u)}
		},
		// pre-existing key types, removal, deadlines
		func(r *rand.Rand, u *Universe, now int64) []string {
			switch r.Intn(8) {
			case 0:
				return []string{"SET", k(r, u), "str"}
			case 1:
				return []string{"RPUSH", k(r, u), "e1", "e2"}
			case 2:
				return []string{"HSET", k(r, u), "f1", "v1"}
			case 3:
				return []string{"ZADD", k(r, u), "1", "m1"}
			case 4, 5:
				return []string{"DEL", k(r, u)}
			case 6:
				return []string{"EXPIRE", k(r, u), pick(r, []string{"1", "10", "100"})}
			}
			return []string{"TYPE", k(r, u)}
		},
		func(r *rand.Rand, u *Universe, now int64) []string {
			return []string{"EXPIRE", k(r, u), pick(r, []string{"1", "2", "10"})}
		},
	}
}

// c16IsMover reports the destination key of a …STORE / SMOVE command.
func c16Dest(argv []string) (string, bool) {
	if len(argv) < 3 {
		return "", false
	}
	switch strings.ToUpper(argv[0]) {
	case "SUNIONSTORE", "SINTERSTORE", "SDIFFSTORE":
		return argv[1], true
	case "SMOVE":
		return argv[2], true
	}
	return "", false
}

// c16Lane runs seeded random programs. With alias set, every …STORE / SMOVE
// is followed by writes to the destination (a fresh member added, a result
// member removed): if the stored result shared structure with an operand, the
// operand changes too and the whole-store comparison shows it.
func c16Lane(ctx *Ctx, lane string, nprog int, gens []cmdGen, u Universe, minLen, maxLen int, advProb float64, alias bool) {
	parallel(nprog, runtime.NumCPU(), func(i int) {
		r := rand.New(rand.NewSource(ctx.Seed*1_000_003 + int64(i)*7919 + int64(len(lane))))
		in := lightInst()
		defer in.Close()
		s := NewSession(ctx, lane, in)
		ln := minLen + r.Intn(maxLen-minLen+1)
		var prog []Step
		fresh := 0
		run := func(st Step) bool {
			prog = append(prog, st)
			res := s.Exec(st)
			if res.Vio != nil {
				reportProgramViolation(ctx, lane, lightInst, prog, res.Vio)
				return false
			}
			return true
		}
	program:
		for k := 0; k < ln; k++ {
			argv := gens[r.Intn(len(gens))](r, &u, in.Clk.NowNs())
			if r.Intn(25) == 0 {
				argv = wrongArity(r, argv)
			}
			st := Step{Argv: argv}
			if advProb > 0 && r.Float64() < advProb {
				st.Adv = []int64{1e6, 499e6, 1e9, 1500e6, 10e9, 100e9}[r.Intn(6)]
			}
			if !run(st) {
				break
			}
			if dest, ok := c16Dest(argv); ok && alias {
				fresh++
				follow := [][]string{{"SADD", dest, fmt.Sprintf("fresh%d", fresh)}}
				if r.Intn(2) == 0 {
					follow = append(follow, []string{"SREM", dest, u.Vals[r.Intn(7)], u.Vals[r.Intn(7)]})
				}
				if r.Intn(3) == 0 {
					follow = append(follow, []string{"SPOP", dest, "1"})
				}
				for _, f := range follow {
					if !run(Step{Argv: f}) {
						break program
					}
				}
			}
		}
		ctx.Eval(1)
		ctx.Count("steps_"+lane, int64(len(s.trace)))
		if i == 0 {
			ctx.Sample(lane, progStrings(s.trace))
		}
	})
	ctx.Count("programs_"+lane, int64(nprog))
}

// c16ExpiredLane runs every command of alpha (depth 1), and every pair of
// commands of small (depth 2), on a store where a and c hold sets whose
// deadline has passed (an expired key is an absent key) and b a live set.
func c16ExpiredLane(ctx *Ctx, lane string, alpha, small [][]string) {
	prefix := []Step{
		{Argv: []string{"SADD", "a", "x", "y"}}, {Argv: []string{"EXPIRE", "a", "1"}},
		{Argv: []string{"SADD", "c", "x", "w"}}, {Argv: []string{"EXPIRE", "c", "2"}},
		{Argv: []string{"SADD", "b", "y", "z"}}, {Argv: []string{"EXPIRE", "b", "100"}},
		{Adv: 5e9},
	}
	var progs [][]Step
	for _, c := range alpha {
		progs = append(progs, append(append([]Step{}, prefix...), Step{Argv: c}))
	}
	for _, c1 := range small {
		for _, c2 := range small {
			progs = append(progs, append(append([]Step{}, prefix...), Step{Argv: c1}, Step{Argv: c2}))
		}
	}
	parallel(len(progs), runtime.NumCPU(), func(j int) {
		v, steps := RunProgram(ctx, lane, lightInst, progs[j], false)
		ctx.Eval(1)
		ctx.Count("steps_"+lane, int64(steps))
		if j == len(progs)-1 {
			ctx.Sample(lane, progStrings(progs[j]))
		}
		if v != nil {
			reportProgramViolation(ctx, lane, lightInst, progs[j], v)
		}
	})
	ctx.Count("programs_"+lane, int64(len(progs)))
}

func checkC16(ctx *Ctx) {
	ctx.Rule("one evaluation = one program (sequence of set commands, possibly with wrong-typed / expiring keys) run on a fresh instance in lock step " +
		"with reference finite sets (Go maps); after every step the strict-parsed reply must be allowed by the model (unordered replies as bags, random " +
		"selections by size / membership / distinctness) and the side-effect-free dump of the whole store (every key, including all operands and the set " +
		"length counters) must equal the model state. distinct_nontrivial = distinct (command/arity/options, pre-state kind of the first key, outcome class, " +
		"state-changed) transition classes observed")
	ctx.Assume("virtual clock injected through the verif build",
		"embedded raw-reply API (ExecuteCommand) is the same dispatch path as TCP minus framing (framing is C12)",
		"reply shape of SPOP/SRANDMEMBER without a count (bare member or one-element array), the fate of an emptied set (absent or present-and-empty), "+
			"SMOVE to an absent destination (created or refused) and the deadline of a replaced STORE destination are not fixed by the statement: all alternatives accepted")
	runWitnesses(ctx, lightInst)
	alpha := c16Alphabet()
	inits := c16InitStates()
	exhaustiveLane(ctx, "exhaustive-d1", alpha, inits, 1)
	exhaustiveLane(ctx, "exhaustive-d2", alpha, inits, 2)
	if !ctx.Quick() {
		exhaustiveLane(ctx, "exhaustive-d3", c16SmallAlphabet(), inits[:4], 3)
	}
	c16ExpiredLane(ctx, "expired", alpha, c16SmallAlphabet())
	ctx.exhaustive = false
	gens := c16Gens()
	u := c16Universe()
	c16Lane(ctx, "random", ctx.N(1500, 12000), gens, u, 40, 60, 0.08, false)
	c16Lane(ctx, "alias", ctx.N(900, 6000), gens, u, 30, 50, 0, true)
	if f := os.Getenv("C16_DUMP_CLASSES"); f != "" {
		// debugging aid: the full list of transition classes observed
		ctx.mu.Lock()
		var sb strings.Builder
		for k := range ctx.classes {
			sb.WriteString(k + "\n")
		}
		ctx.mu.Unlock()
		_ = os.WriteFile(f, []byte(sb.String()), 0o644)
	}
}
